/-
  Proofs.ConcNone — allocations AND releases on an arena with `Freelist::None` under EVERY interleaving, for any
  number of threads, any schedule (including spurious failures of the weak CAS) and any per-thread programs.

  Setting: thread `i` runs `noneProg c cap fuel ops []`, a sequence of `NOp`s: `alloc_bytes`, `alloc_aligned_bytes`,
  typed `alloc`, and `release i` = `Drop` of the `i`-th handle the thread still holds (`deallocC c m.memOff m.memSize`).
  With `c.kind = .none` the release path has no list at all: a CAS on the cursor expecting `off+size` and writing
  `off` (top release), and, if it fails, `fetch_add discarded size`.

  Proof architecture (rely/guarantee with a ghost partition, extending `Proofs/ConcFast.lean`):
  * `Gh` is the ghost state of a thread: the extents `own` it holds (reserved and not yet released; a release counts
    as released from its FIRST atomic access on), the log `lost` of its releases that did not rewind the cursor, and
    `pend` = "the release CAS failed, the `fetch_add discarded` is still to come".
  * `Holds cap post γ fr p` is the safety type of thread programs in ghost state `γ`: `p` only loads, CASes the
    cursor either as an allocation (`e < n ≤ cap`; success adds `[e, n)` to `own`) or as the release of an owned
    extent (`hi → lo` for `(lo, hi) ∈ own`; the extent leaves `own` whatever the outcome, a failure makes it
    pending), adds a pending size to `discarded`, and zero-fills only inside `fr`, the extent reserved by the
    cursor CAS it has just won (`fr` is reset to `none` by every further atomic access). No local knowledge about
    the cursor is needed: a CAS that succeeds has, by definition, compared against the CURRENT cursor, so reads
    that went stale (ABA included) are harmless. `Holds.bind` is the sequencing rule; `holds_allocBytes`,
    `holds_allocAligned`, `holds_allocT`, `holds_dealloc` type the functions of `sync.rs` for `kind = none`, and
    `holds_noneProg` types every `noneProg`.
  * `tstep_holds`: one `Global.step` of a typed thread has one of the effects `Eff` (nothing / reserve / top release /
    failed release / counter update), and every non-atomic effect of the step (the `NA` lists of the machine's own
    `settle` calls, `tnas` / `stepNAs`) is a zero-fill inside `[old cursor, new cursor)`, the extent reserved in this
    very step.
  * `NInv`: `init ≤ cursor ≤ cap = capacity`, all owned extents pairwise disjoint, non-empty and inside
    `[init, cursor]`, and `discarded + Σ pending ≡ discarded₀ + Σ lost (mod 2^32)`; preserved by every step
    (`NInv.step`), hence by every schedule (`NInv.run`). Why a release is safe under every interleaving: the CAS
    `hi → lo` succeeds only when the cursor equals `hi`; every other owned extent ends at or below the cursor and is
    disjoint from `[lo, hi)`, hence ends at or below `lo`, the new cursor.
  * The theorems at the end: `none_exclusive`, `none_cursor_above_live`, `none_zero_inside_own`,
    `none_discarded_accounting`, `none_results_exclusive` (the same for the handles returned by finished threads,
    without ghost state), and non-vacuity examples.

  The "live handles" of the statements are the ghost extents `ghs` with `All2 (Held cap) ghs g.threads`: `Held cap γ p`
  is the typing above with the post-condition that a finished thread returns exactly the handles whose buffer
  extents are `γ.own` (`rpost`), so for finished threads the ghost state is what the thread returns.
-/
import RarenaVerif.Proofs.ConcFast
import RarenaVerif.Proofs.Mem

namespace Rarena.Conc.NoneFL

open Rarena Rarena.Conc

/-! ### the thread programs -/

/-- operations of a thread -/
inductive NOp where
  | allocBytes (n : Nat)
  | allocAligned (tsize talign extra : Nat)
  | allocT (tsize talign : Nat)
  /-- drop the `i`-th handle still held (no-op if there is none) -/
  | release (i : Nat)
  deriving Repr, DecidableEq

/-- the only requirement on the requests: alignments are not 0 -/
def NOp.ok : NOp → Prop
  | .allocAligned _ ta _ => 0 < ta
  | .allocT _ ta => 0 < ta
  | _ => True

instance : (op : NOp) → Decidable op.ok
  | .allocBytes _ => isTrue trivial
  | .allocAligned _ ta _ => inferInstanceAs (Decidable (0 < ta))
  | .allocT _ ta => inferInstanceAs (Decidable (0 < ta))
  | .release _ => isTrue trivial

/-- the handles held after an allocation attempt -/
def keep (held : List Meta) : Except Err (Option Meta) → List Meta
  | .ok (some m) => held ++ [m]
  | _ => held

/-- a thread that executes `ops` one after the other, starting with the handles `held`; it returns the handles it
    still holds at the end. A release is `Drop for` the handle: `dealloc(memory_offset, memory_size)`. -/
def noneProg (c : Cfg) (cap fuel : Nat) : List NOp → List Meta → Prog (List Meta)
  | [], held => pure held
  | .allocBytes n :: rest, held => do
    let r ← allocBytesC c cap n fuel
    noneProg c cap fuel rest (keep held r)
  | .allocAligned ts ta ex :: rest, held => do
    let r ← allocAlignedC c cap ts ta ex fuel
    noneProg c cap fuel rest (keep held r)
  | .allocT ts ta :: rest, held => do
    let r ← allocTC c cap ts ta fuel
    noneProg c cap fuel rest (keep held r)
  | .release i :: rest, held =>
    match held[i]? with
    | none => noneProg c cap fuel rest held
    | some m => do
      let _ ← deallocC c m.memOff m.memSize fuel
      noneProg c cap fuel rest (held.eraseIdx i)

/-- the buffer extent `[memory_offset, memory_offset + memory_size)` of a handle: what `Drop` gives back -/
def mext (m : Meta) : Ext := (m.memOff, m.memOff + m.memSize)

/-- the accessible range of a handle lies inside its buffer extent -/
def AccIn (m : Meta) : Prop := m.memOff ≤ m.ptrOff ∧ m.ptrOff + m.ptrSize ≤ m.memOff + m.memSize

/-! ### ghost state and safety type -/

/-- ghost state of a thread -/
structure Gh where
  /-- extents reserved by this thread and not yet released (a release counts from its first atomic access on) -/
  own : List Ext
  /-- extents this thread released WITHOUT rewinding the cursor (from the failed CAS on) -/
  lost : List Ext
  /-- the release CAS of this extent failed; its `fetch_add discarded` has not been executed yet -/
  pend : Option Ext

def esize (x : Ext) : Nat := x.2 - x.1

def Gh.pendSize (γ : Gh) : Nat :=
  match γ.pend with
  | none => 0
  | some x => esize x

def Gh.lostSum (γ : Gh) : Nat := (γ.lost.map esize).sum

/-- "safety type" of a thread program in ghost state `γ`; `fr` is the extent reserved by the cursor CAS the thread
    has just won, as long as no further atomic access has been executed (zero-fills may only touch that extent) -/
inductive Holds {α : Type} (cap : Nat) (post : Gh → Option Ext → α → Prop) : Gh → Option Ext → Prog α → Prop where
  | ret {γ fr a} : post γ fr a → Holds cap post γ fr (.ret a)
  | trap {γ fr s} : Holds cap post γ fr (.trap s)
  | diverge {γ fr} : Holds cap post γ fr .diverge
  | load {γ fr l s k} : (∀ v, Holds cap post γ none (k v)) → Holds cap post γ fr (.load l s k)
  /-- cursor CAS of an allocation: on success the thread has reserved `[e, n)` -/
  | casAlloc {γ fr e n w s k} : e < n → n ≤ cap → (∀ obs, Holds cap post γ none (k (obs, false))) →
      Holds cap post { γ with own := γ.own ++ [(e, n)] } (some (e, n)) (k (e, true)) →
      Holds cap post γ fr (.cas .alloc e n w s k)
  /-- cursor CAS of the release of an owned extent `[lo, hi)`: from here on the extent is not owned any more;
      a failure makes its size pending for the `discarded` counter -/
  | casRel {γ fr lo hi own' w s k} : γ.own.Perm ((lo, hi) :: own') → γ.pend = none →
      Holds cap post { γ with own := own' } none (k (hi, true)) →
      (∀ obs, Holds cap post { own := own', lost := γ.lost ++ [(lo, hi)], pend := some (lo, hi) } none (k (obs, false))) →
      Holds cap post γ fr (.cas .alloc hi lo w s k)
  /-- `fetch_add discarded` of the pending size -/
  | faaDisc {γ fr x v s k} : γ.pend = some x → v = esize x →
      (∀ old, Holds cap post { γ with pend := none } none (k old)) →
      Holds cap post γ fr (.rmw .disc v false s k)
  /-- zero-fill inside the extent just reserved -/
  | naZero {γ x off len k} : x.1 ≤ off → off + len ≤ x.2 → Holds cap post γ (some x) (k ()) →
      Holds cap post γ (some x) (.na (.zero off len) k)

theorem Holds.bind {α β : Type} {cap : Nat} {post : Gh → Option Ext → α → Prop} {post' : Gh → Option Ext → β → Prop}
    {γ : Gh} {fr : Option Ext} {p : Prog α} {f : α → Prog β} (h : Holds cap post γ fr p)
    (hf : ∀ γ' fr' a, post γ' fr' a → Holds cap post' γ' fr' (f a)) : Holds cap post' γ fr (p.bind f) := by
  induction h with
  | ret h => exact hf _ _ _ h
  | trap => exact .trap
  | diverge => exact .diverge
  | load _ ih => exact .load (fun v => ih v)
  | casAlloc h1 h2 _ _ ih1 ih2 => exact .casAlloc h1 h2 ih1 ih2
  | casRel h1 h2 _ _ ih1 ih2 => exact .casRel h1 h2 ih1 ih2
  | faaDisc h1 h2 _ ih => exact .faaDisc h1 h2 ih
  | naZero h1 h2 _ ih => exact .naZero h1 h2 ih

theorem Holds.mono {α : Type} {cap : Nat} {post post' : Gh → Option Ext → α → Prop}
    {γ : Gh} {fr : Option Ext} {p : Prog α} (h : Holds cap post γ fr p)
    (hf : ∀ γ' fr' a, post γ' fr' a → post' γ' fr' a) : Holds cap post' γ fr p := by
  induction h with
  | ret h => exact .ret (hf _ _ _ h)
  | trap => exact .trap
  | diverge => exact .diverge
  | load _ ih => exact .load (fun v => ih v)
  | casAlloc h1 h2 _ _ ih1 ih2 => exact .casAlloc h1 h2 ih1 ih2
  | casRel h1 h2 _ _ ih1 ih2 => exact .casRel h1 h2 ih1 ih2
  | faaDisc h1 h2 _ ih => exact .faaDisc h1 h2 ih
  | naZero h1 h2 _ ih => exact .naZero h1 h2 ih

/-- a program that is not headed by a non-atomic effect (every thread at a scheduling point) -/
def NotNA {α : Type} : Prog α → Prop
  | .na _ _ => False
  | _ => True

/-- at a scheduling point the freshness information can be dropped -/
theorem Holds.forget {α : Type} {cap : Nat} {post : Gh → Option Ext → α → Prop}
    (hpost : ∀ γ fr a, post γ fr a → post γ none a)
    {γ : Gh} {fr : Option Ext} {p : Prog α} (h : Holds cap post γ fr p) (hn : NotNA p) : Holds cap post γ none p := by
  cases h with
  | ret h => exact .ret (hpost _ _ _ h)
  | trap => exact .trap
  | diverge => exact .diverge
  | load h => exact .load h
  | casAlloc h1 h2 h3 h4 => exact .casAlloc h1 h2 h3 h4
  | casRel h1 h2 h3 h4 => exact .casRel h1 h2 h3 h4
  | faaDisc h1 h2 h3 => exact .faaDisc h1 h2 h3
  | naZero h1 h2 h3 => exact hn.elim

/-! ### typing the functions of `sync.rs` (for `kind = none`, not read-only) -/

theorem holds_liftM' {α : Type} (cap : Nat) (γ : Gh) (fr : Option Ext) (x : M α) :
    Holds cap (fun g f (a : α) => g = γ ∧ f = fr ∧ x = .ok a) γ fr (liftM' x) := by
  rcases x with (_ | _) | a
  · exact .trap
  · exact .diverge
  · exact .ret ⟨rfl, rfl, rfl⟩

theorem holds_remaining (cap : Nat) (γ : Gh) (fr : Option Ext) :
    Holds cap (fun g _ (_ : Unit) => g = γ) γ fr remainingC := by
  unfold remainingC load
  simp only [bind_eq, pure_eq, Prog.bind]
  exact .load (fun v => .ret rfl)

/-- post-condition of the parts that cannot claim anything: the ghost state is unchanged and the answer is an error -/
abbrev failPost {β : Type} (γ : Gh) : Gh → Option Ext → Except Err β → Prop :=
  fun g _ r => g = γ ∧ ∃ e, r = .error e

theorem holds_slowPath (cap : Nat) (c : Cfg) (hk : c.kind = .none) (size fuel : Nat) (γ : Gh) (fr : Option Ext) :
    Holds cap (failPost γ) γ fr (slowPathC c size fuel) := by
  unfold slowPathC
  rw [hk]
  exact (holds_remaining cap _ _).bind (fun g _ _ hg => .ret ⟨hg, _, rfl⟩)

theorem holds_retryLoop (cap : Nat) (c : Cfg) (hk : c.kind = .none) (size fuel : Nat) (post : Meta → M Meta) (γ : Gh)
    (fr : Option Ext) :
    ∀ n i, Holds cap (failPost γ) γ fr (retryLoopC c size fuel post n i)
  | 0, _ => .diverge
  | n + 1, i => by
    unfold retryLoopC
    rw [bind_eq]
    refine (holds_slowPath cap c hk size fuel γ fr).bind (fun g _ r ⟨hg, e, hr⟩ => ?_)
    subst hg hr
    dsimp only
    rw [if_pos hk]
    exact .ret ⟨rfl, _, rfl⟩

/-- the cursor loop, for any `want` that asks for a value above the cursor and within the capacity -/
theorem holds_bumpLoop (cap : Nat) (fn : String) (want : Nat → M (Option Nat))
    (hw : ∀ a w, want a = .ok (some w) → a < w ∧ w ≤ cap) (γ : Gh) :
    ∀ fuel a fr, Holds cap (fun g f (r : Option (Nat × Nat)) => (r = none ∧ g = γ) ∨
        ∃ off wnt, r = some (off, wnt) ∧ want off = .ok (some wnt) ∧ g = { γ with own := γ.own ++ [(off, wnt)] } ∧
          f = some (off, wnt)) γ fr
      (bumpLoopC fn want fuel a)
  | 0, _, _ => .diverge
  | f + 1, a, fr => by
    unfold bumpLoopC
    rw [bind_eq]
    refine (holds_liftM' cap γ fr (want a)).bind (fun g fr' w ⟨hg, _, hwa⟩ => ?_)
    rw [hg]
    rcases w with _ | wnt
    · exact .ret (.inl ⟨rfl, rfl⟩)
    · dsimp only
      obtain ⟨h1, h2⟩ := hw a wnt hwa
      simp only [bind_eq, casw, Prog.bind]
      refine .casAlloc h1 h2 (fun obs => ?_) ?_
      · exact holds_bumpLoop cap fn want hw γ f obs none
      · exact .ret (.inr ⟨a, wnt, rfl, hwa, rfl, rfl⟩)

/-- post-condition of the three allocation entry points -/
abbrev allocPost (γ : Gh) : Gh → Option Ext → Except Err (Option Meta) → Prop :=
  fun g _ r => (∃ m, r = .ok (some m) ∧ g = { γ with own := γ.own ++ [mext m] } ∧ AccIn m ∧ 0 < m.memSize) ∨
    ((∀ m, r ≠ .ok (some m)) ∧ g = γ)

theorem want_bytes {cap size a w : Nat} (hs : size ≠ 0)
    (h : (pure ((checkedAddU32 a size).filter (· ≤ cap)) : M (Option Nat)) = .ok (some w)) :
    w = a + size ∧ a < w ∧ w ≤ cap := by
  simp only [pure, Except.pure, Except.ok.injEq] at h
  unfold checkedAddU32 at h
  split at h
  · simp only [Option.filter_some] at h
    split at h
    · rename_i h'
      simp only [Option.some.injEq] at h
      subst h
      refine ⟨rfl, by omega, by simpa using h'⟩
    · cases h
  · cases h

theorem holds_allocBytes (cap : Nat) (c : Cfg) (hk : c.kind = .none) (hro : c.ro = false) (size fuel : Nat) (γ : Gh)
    (fr : Option Ext) :
    Holds cap (allocPost γ) γ fr (allocBytesC c cap size fuel) := by
  unfold allocBytesC
  rw [hro]
  simp only [Bool.false_eq_true, if_false]
  split
  · exact .ret (.inr ⟨(by intro m h; cases h), rfl⟩)
  rename_i hs
  simp only [bind_eq, load, Prog.bind]
  refine .load (fun a0 => ?_)
  refine (holds_bumpLoop cap _ _ (fun a w h => (want_bytes hs h).2) γ fuel a0 none).bind (fun g fr' r hr => ?_)
  rcases hr with ⟨hr, hg⟩ | ⟨off, wnt, hr, hwa, hg, hfr⟩
  · subst hr hg
    dsimp only
    refine (holds_retryLoop cap c hk size fuel pure _ _ 300 0).mono (fun g _ r ⟨hg, e, hr⟩ => ?_)
    subst hr hg
    exact .inr ⟨(by intro m h; cases h), rfl⟩
  · subst hr hg hfr
    obtain ⟨h1, h2, h3⟩ := want_bytes hs hwa
    simp only [na, Prog.bind, pure_eq]
    refine .naZero ?_ ?_ (.ret (.inl ⟨_, rfl, ?_, ?_, ?_⟩))
    · exact Nat.le_refl _
    · simp only [Meta.new]; omega
    · simp only [mext, Meta.new, h1]
    · simp only [AccIn, Meta.new]; omega
    · simp only [Meta.new]; omega

theorem align_ge {a x o : Nat} (ha : 0 < a) (h : alignOffset a x = .ok o) : x ≤ o := by
  unfold alignOffset at h
  split at h
  · simp only [pure, Except.pure, Except.ok.injEq] at h
    subst h
    have h1 := Nat.div_add_mod (x + a - 1) a
    have h2 := Nat.mod_lt (x + a - 1) ha
    rw [Nat.mul_comm] at h1
    omega
  · cases h

theorem want_T {cap tsize talign a w : Nat}
    (h : (do
        let aligned ← alignOffset talign a
        let wnt ← addU32 "aligned+size" aligned tsize
        pure (if wnt ≤ cap then some wnt else none) : M (Option Nat)) = .ok (some w)) :
    ∃ o, alignOffset talign a = .ok o ∧ w = o + tsize ∧ w ≤ cap := by
  rcases ho : alignOffset talign a with e | o
  · simp only [ho, bind, Except.bind] at h; cases h
  · refine ⟨o, rfl, ?_⟩
    simp only [ho, bind, Except.bind, addU32] at h
    by_cases hlt : o + tsize < TWO32
    · simp only [if_pos hlt, pure, Except.pure, Except.ok.injEq] at h
      split at h
      · simp only [Option.some.injEq] at h; subst h; exact ⟨rfl, ‹_›⟩
      · cases h
    · simp only [if_neg hlt, throw, throwThe, MonadExceptOf.throw] at h; cases h

theorem holds_allocT (cap : Nat) (c : Cfg) (hk : c.kind = .none) (hro : c.ro = false) (tsize talign fuel : Nat)
    (hta : 0 < talign) (γ : Gh) (fr : Option Ext) :
    Holds cap (allocPost γ) γ fr (allocTC c cap tsize talign fuel) := by
  unfold allocTC
  rw [hro]
  simp only [Bool.false_eq_true, if_false]
  split
  · exact .ret (.inr ⟨(by intro m h; cases h), rfl⟩)
  rename_i hs
  simp only [bind_eq, load, Prog.bind]
  refine .load (fun a0 => ?_)
  refine (holds_bumpLoop cap _ _ (fun a w h => ?_) γ fuel a0 none).bind (fun g fr' r hr => ?_)
  · obtain ⟨o, h1, h2, h3⟩ := want_T h
    have := align_ge hta h1
    exact ⟨by omega, h3⟩
  rcases hr with ⟨hr, hg⟩ | ⟨off, wnt, hr, hwa, hg, hfr⟩
  · subst hr hg
    dsimp only
    refine (holds_retryLoop cap c hk _ fuel _ _ _ 300 0).mono (fun g _ r ⟨hg, e, hr⟩ => ?_)
    subst hr hg
    exact .inr ⟨(by intro m h; cases h), rfl⟩
  · subst hr hg hfr
    obtain ⟨o, h1, h2, h3⟩ := want_T hwa
    have h4 := align_ge hta h1
    dsimp only
    refine (holds_liftM' cap _ _ _).bind (fun g fr'' m ⟨hg, hfr, hm⟩ => ?_)
    rw [hg, hfr]
    have hm' : m = ⟨off, wnt - off, o, tsize⟩ := by
      simp only [Meta.alignTo, Meta.new, h1, bind, Except.bind, pure, Except.pure, Except.ok.injEq] at hm
      exact hm.symm
    subst hm'
    simp only [na, Prog.bind, pure_eq]
    refine .naZero ?_ ?_ (.ret (.inl ⟨_, rfl, ?_, ?_, ?_⟩))
    · exact h4
    · dsimp only; omega
    · simp only [mext]
      have : off + (wnt - off) = wnt := by omega
      rw [this]
    · simp only [AccIn]; omega
    · dsimp only; omega

theorem want_A {cap tsize talign extra a w : Nat}
    (h : (do
        let aligned ← alignOffset talign a
        let base ← addU32 "aligned+size" aligned tsize
        pure ((checkedAddU32 base extra).filter (· ≤ cap)) : M (Option Nat)) = .ok (some w)) :
    ∃ o, alignOffset talign a = .ok o ∧ w = o + tsize + extra ∧ w ≤ cap := by
  rcases ho : alignOffset talign a with e | o
  · simp only [ho, bind, Except.bind] at h; cases h
  · refine ⟨o, rfl, ?_⟩
    simp only [ho, bind, Except.bind, addU32] at h
    by_cases hlt : o + tsize < TWO32
    · simp only [if_pos hlt, pure, Except.pure, Except.ok.injEq] at h
      unfold checkedAddU32 at h
      split at h
      · simp only [Option.filter_some] at h
        split at h
        · rename_i h'
          simp only [Option.some.injEq] at h
          subst h
          exact ⟨rfl, by simpa using h'⟩
        · cases h
      · cases h
    · simp only [if_neg hlt, throw, throwThe, MonadExceptOf.throw] at h; cases h

theorem addU32_ok {s : String} {x y v : Nat} (h : addU32 s x y = .ok v) : v = x + y := by
  unfold addU32 at h
  split at h
  · simp only [pure, Except.pure, Except.ok.injEq] at h; exact h.symm
  · cases h

theorem subU_ok {s : String} {x y v : Nat} (h : subU s x y = .ok v) : y ≤ x ∧ v = x - y := by
  unfold subU at h
  split at h
  · simp only [pure, Except.pure, Except.ok.injEq] at h; exact ⟨‹_›, h.symm⟩
  · cases h

theorem alignBytesTo_ok {off wnt a o : Nat} {m : Meta} (hle : off ≤ wnt) (ho : alignOffset a off = .ok o)
    (h : (Meta.new off (wnt - off)).alignBytesTo a = .ok m) :
    m.memOff = off ∧ m.memSize = wnt - off ∧ m.ptrOff = o ∧ m.ptrOff + m.ptrSize = wnt := by
  unfold Meta.alignBytesTo at h
  rcases h1 : addU32 "align_bytes_to:end" (Meta.new off (wnt - off)).ptrOff (Meta.new off (wnt - off)).ptrSize with e1 | e
  · simp only [h1, bind, Except.bind] at h; cases h
  · have ho' : alignOffset a (Meta.new off (wnt - off)).ptrOff = .ok o := ho
    rcases h2 : subU "align_bytes_to:size" e o with e2 | sz
    · simp only [h1, ho', h2, bind, Except.bind] at h; cases h
    · simp only [h1, ho', h2, bind, Except.bind, pure, Except.pure, Except.ok.injEq] at h
      subst h
      have h3 := addU32_ok h1
      have h4 := subU_ok h2
      simp only [Meta.new] at h3 h4 ⊢
      refine ⟨trivial, trivial, trivial, ?_⟩
      omega

theorem holds_allocAligned (cap : Nat) (c : Cfg) (hk : c.kind = .none) (hro : c.ro = false)
    (tsize talign extra fuel : Nat) (hta : 0 < talign) (γ : Gh) (fr : Option Ext) :
    Holds cap (allocPost γ) γ fr (allocAlignedC c cap tsize talign extra fuel) := by
  unfold allocAlignedC
  rw [hro]
  simp only [Bool.false_eq_true, if_false]
  split
  · exact holds_allocBytes cap c hk hro extra fuel γ fr
  rename_i hs
  have hpos : 0 < tsize + extra := by
    apply Nat.pos_of_ne_zero
    intro h0
    exact hs ⟨by omega, .inl (by omega)⟩
  simp only [bind_eq, load, Prog.bind]
  refine .load (fun a0 => ?_)
  refine (holds_bumpLoop cap _ _ (fun a w h => ?_) γ fuel a0 none).bind (fun g fr' r hr => ?_)
  · obtain ⟨o, h1, h2, h3⟩ := want_A h
    have := align_ge hta h1
    exact ⟨by omega, h3⟩
  rcases hr with ⟨hr, hg⟩ | ⟨off, wnt, hr, hwa, hg, hfr⟩
  · subst hr hg
    dsimp only
    split
    · exact (holds_remaining cap _ _).bind (fun g _ _ hg => .ret (.inr ⟨(by intro m h; cases h), hg⟩))
    · refine (holds_retryLoop cap c hk _ fuel _ _ _ 300 0).mono (fun g _ r ⟨hg, e, hr⟩ => ?_)
      subst hr hg
      exact .inr ⟨(by intro m h; cases h), rfl⟩
  · subst hr hg hfr
    obtain ⟨o, h1, h2, h3⟩ := want_A hwa
    have h4 := align_ge hta h1
    dsimp only
    refine (holds_liftM' cap _ _ _).bind (fun g fr'' m ⟨hg, _, hm⟩ => ?_)
    rw [hg]
    obtain ⟨m1, m2, m3, m4⟩ := alignBytesTo_ok (by omega) h1 hm
    refine .ret (.inl ⟨_, rfl, ?_, ?_, ?_⟩)
    · simp only [mext, m1, m2]
      have : off + (wnt - off) = wnt := by omega
      rw [this]
    · simp only [AccIn]; omega
    · omega

/-- `Drop` of a handle whose buffer extent `[off, off+size)` the thread owns -/
theorem holds_dealloc (cap : Nat) (c : Cfg) (hk : c.kind = .none) (hro : c.ro = false) (off size fuel : Nat) (γ : Gh)
    (fr : Option Ext) (own' : List Ext) (hown : γ.own.Perm ((off, off + size) :: own')) (hp : γ.pend = none) :
    Holds cap (fun g _ (_ : Bool) => g.own = own' ∧ g.pend = none) γ fr (deallocC c off size fuel) := by
  unfold deallocC
  rw [bind_eq]
  refine (holds_liftM' cap _ _ _).bind (fun g fr' top ⟨hg, _, htop⟩ => ?_)
  rw [hg]
  have ht : top = off + size := by
    unfold addU32 at htop
    split at htop
    · simp only [pure, Except.pure, Except.ok.injEq] at htop; exact htop.symm
    · cases htop
  subst ht
  simp only [bind_eq, cas, Prog.bind]
  refine .casRel hown hp ?_ (fun obs => ?_)
  · exact .ret ⟨rfl, hp⟩
  · simp only [hk, incDiscardedC, hro, Bool.false_eq_true, if_false, bind_eq, faa, Prog.bind, pure_eq]
    refine .faaDisc (x := (off, off + size)) rfl ?_ (fun old => .ret ⟨rfl, rfl⟩)
    simp only [esize]; omega

/-- post-condition of a whole thread: it owns exactly the buffer extents of the handles it returns, and no
    `discarded` update is pending -/
def rpost (γ : Gh) (r : List Meta) : Prop := γ.own = r.map mext ∧ γ.pend = none ∧ ∀ m ∈ r, AccIn m

theorem perm_eraseIdx {α : Type} : ∀ (l : List α) (i : Nat) (a : α), l[i]? = some a → l.Perm (a :: l.eraseIdx i)
  | [], i, a, h => by simp at h
  | x :: l, 0, a, h => by
    simp only [List.getElem?_cons_zero, Option.some.injEq] at h
    subst h
    exact List.Perm.refl _
  | x :: l, i + 1, a, h => by
    simp only [List.getElem?_cons_succ] at h
    simp only [List.eraseIdx_cons_succ]
    exact ((perm_eraseIdx l i a h).cons x).trans (List.Perm.swap a x _)

theorem keep_fail (held : List Meta) (r : Except Err (Option Meta)) (h : ∀ m, r ≠ .ok (some m)) : keep held r = held := by
  rcases r with e | (_ | m)
  · rfl
  · rfl
  · exact absurd rfl (h m)

theorem holds_noneProg (cap : Nat) (c : Cfg) (hk : c.kind = .none) (hro : c.ro = false) (fuel : Nat) :
    ∀ (ops : List NOp), (∀ op ∈ ops, op.ok) → ∀ (held : List Meta) (γ : Gh) (fr : Option Ext),
      γ.own = held.map mext → γ.pend = none → (∀ m ∈ held, AccIn m) →
      Holds cap (fun g _ r => rpost g r) γ fr (noneProg c cap fuel ops held)
  | [], _, held, γ, fr, h1, h2, h3 => .ret ⟨h1, h2, h3⟩
  | op :: rest, hok, held, γ, fr, h1, h2, h3 => by
    have hrest : ∀ op ∈ rest, op.ok := fun o ho => hok o (List.mem_cons_of_mem _ ho)
    have hop : op.ok := hok op List.mem_cons_self
    -- what to do with the outcome of an allocation
    have hcont : ∀ g fr' r, allocPost γ g fr' r →
        Holds cap (fun g _ r => rpost g r) g fr' (noneProg c cap fuel rest (keep held r)) := by
      intro g fr' r hr
      rcases hr with ⟨m, hr, hg, hacc, _⟩ | ⟨hr, hg⟩
      · subst hr hg
        refine holds_noneProg cap c hk hro fuel rest hrest _ _ _ ?_ h2 ?_
        · simp only [keep, List.map_append, List.map_cons, List.map_nil, h1]
        · intro m' hm'
          simp only [keep, List.mem_append, List.mem_singleton] at hm'
          rcases hm' with hm' | rfl
          · exact h3 m' hm'
          · exact hacc
      · subst hg
        rw [keep_fail held r hr]
        exact holds_noneProg cap c hk hro fuel rest hrest held _ _ h1 h2 h3
    cases op with
    | allocBytes n =>
      unfold noneProg
      rw [bind_eq]
      exact (holds_allocBytes cap c hk hro n fuel γ fr).bind hcont
    | allocAligned ts ta ex =>
      unfold noneProg
      rw [bind_eq]
      exact (holds_allocAligned cap c hk hro ts ta ex fuel hop γ fr).bind hcont
    | allocT ts ta =>
      unfold noneProg
      rw [bind_eq]
      exact (holds_allocT cap c hk hro ts ta fuel hop γ fr).bind hcont
    | release i =>
      unfold noneProg
      rcases hi : held[i]? with _ | m
      · exact holds_noneProg cap c hk hro fuel rest hrest held γ fr h1 h2 h3
      · dsimp only
        rw [bind_eq]
        have hperm : γ.own.Perm ((m.memOff, m.memOff + m.memSize) :: (held.eraseIdx i).map mext) := by
          rw [h1]
          exact ((perm_eraseIdx held i m hi).map mext)
        refine (holds_dealloc cap c hk hro m.memOff m.memSize fuel γ fr _ hperm h2).bind (fun g fr' _ ⟨hg1, hg2⟩ => ?_)
        refine holds_noneProg cap c hk hro fuel rest hrest _ g fr' hg1 hg2 (fun m' hm' => ?_)
        exact h3 m' ((List.eraseIdx_sublist held i).subset hm')

/-! ### one thread step -/

/-- the non-atomic effects a thread may perform: zero-fills inside the extent it has just reserved -/
def NAin (fr : Option Ext) : NA → Prop
  | .zero off len => ∃ x, fr = some x ∧ x.1 ≤ off ∧ off + len ≤ x.2
  | _ => False

/-- the non-atomic effects `Global.step` performs for the stepping thread (the third components of its two `settle`s,
    which `Global.step` itself drops) -/
def tnas {α : Type} (sh : Shared) (p : Prog α) (sp : Bool) : List NA :=
  match settle 100000 sh p [] with
  | (sh1, .blocked p1, n1) =>
    match stepAccess sh1 p1 sp with
    | .ok (sh2, p2, _) => n1 ++ (settle 100000 sh2 p2 []).2.2
    | .error _ => n1
  | (_, _, n1) => n1

/-- the non-atomic effects of `g.step tid sp` -/
def stepNAs {α : Type} (g : Global α) (tid : Nat) (sp : Bool) : List NA :=
  match g.threads[tid]? with
  | none => []
  | some p => tnas g.sh p sp

/-- the cursor, the `discarded` counter and the capacity are untouched -/
def Frame2 (sh sh' : Shared) : Prop :=
  sh'.st.allocated = sh.st.allocated ∧ sh'.st.discarded = sh.st.discarded ∧ sh'.st.cap = sh.st.cap

theorem Frame2.refl (sh : Shared) : Frame2 sh sh := ⟨rfl, rfl, rfl⟩

theorem Frame2.trans {a b c : Shared} (h1 : Frame2 a b) (h2 : Frame2 b c) : Frame2 a c :=
  ⟨h2.1.trans h1.1, h2.2.1.trans h1.2.1, h2.2.2.trans h1.2.2⟩

theorem zero?_size {m m' : Mem} {off len : Nat} (h : m.zero? off len = .ok m') : m'.size = m.size := by
  unfold Mem.zero? at h
  split at h
  · simp only [pure, Except.pure, Except.ok.injEq] at h
    subst h
    exact Mem.size_zero m off len
  · cases h

theorem applyNA_frame2 (sh sh' : Shared) (e : NA) (h : sh.applyNA e = .ok sh') : Frame2 sh sh' := by
  cases e with
  | zero off len =>
    simp only [Shared.applyNA, bind, Except.bind, pure, Except.pure] at h
    split at h
    · cases h
    · rename_i mem' hz
      cases h
      exact ⟨rfl, rfl, zero?_size hz⟩
  | fill off len b =>
    simp only [Shared.applyNA, pure, Except.pure] at h
    cases h
    exact ⟨rfl, rfl, Mem.size_fill _ _ _ _⟩
  | verify off len => simp only [Shared.applyNA, pure, Except.pure] at h; cases h; exact ⟨rfl, rfl, rfl⟩
  | unmount => simp only [Shared.applyNA, pure, Except.pure] at h; cases h; exact ⟨rfl, rfl, rfl⟩

theorem settle_holds {α : Type} {cap : Nat} {post : Gh → Option Ext → α → Prop} :
    ∀ (fuel : Nat) (sh : Shared) (p : Prog α) (nas : List NA) (γ : Gh) (fr : Option Ext), Holds cap post γ fr p →
      Frame2 sh (settle fuel sh p nas).1 ∧ Holds cap post γ fr (settle fuel sh p nas).2.1.toProg ∧
      NotNA (settle fuel sh p nas).2.1.toProg ∧
      ∃ new, (settle fuel sh p nas).2.2 = nas ++ new ∧ ∀ e ∈ new, NAin fr e
  | 0, sh, p, nas, γ, fr, _ =>
    ⟨Frame2.refl _, .diverge, trivial, [], (List.append_nil nas).symm, fun e he => by cases he⟩
  | f + 1, sh, p, nas, γ, fr, h => by
    have hnil : ∃ new : List NA, nas = nas ++ new ∧ ∀ e ∈ new, NAin fr e :=
      ⟨[], (List.append_nil nas).symm, fun e he => by cases he⟩
    cases h with
    | ret h => exact ⟨Frame2.refl _, .ret h, trivial, hnil⟩
    | trap => exact ⟨Frame2.refl _, .trap, trivial, hnil⟩
    | diverge => exact ⟨Frame2.refl _, .diverge, trivial, hnil⟩
    | load h => exact ⟨Frame2.refl _, .load h, trivial, hnil⟩
    | casAlloc h1 h2 h3 h4 => exact ⟨Frame2.refl _, .casAlloc h1 h2 h3 h4, trivial, hnil⟩
    | casRel h1 h2 h3 h4 => exact ⟨Frame2.refl _, .casRel h1 h2 h3 h4, trivial, hnil⟩
    | faaDisc h1 h2 h3 => exact ⟨Frame2.refl _, .faaDisc h1 h2 h3, trivial, hnil⟩
    | @naZero _ x off len k hin1 hin2 h =>
      simp only [settle]
      rcases ha : sh.applyNA (.zero off len) with fl | sh'
      · rcases fl with s | _
        · exact ⟨Frame2.refl _, .trap, trivial, hnil⟩
        · exact ⟨Frame2.refl _, .diverge, trivial, hnil⟩
      · have h1 := applyNA_frame2 sh sh' _ ha
        obtain ⟨h2, h3, hn, new, h4, h5⟩ := settle_holds f sh' (k ()) (nas ++ [.zero off len]) γ (some x) h
        refine ⟨h1.trans h2, h3, hn, .zero off len :: new, ?_, ?_⟩
        · rw [h4, List.append_assoc]; rfl
        · intro e he
          simp only [List.mem_cons] at he
          rcases he with rfl | he
          · exact ⟨x, rfl, hin1, hin2⟩
          · exact h5 e he

/-- effect of one step of a thread on the cursor `a`, the `discarded` counter `d` and its ghost state -/
def Eff (cap a d a' d' : Nat) (γ γ' : Gh) : Prop :=
  -- nothing
  (a' = a ∧ d' = d ∧ γ' = γ) ∨
  -- an allocation reserves `[a, a')`
  (a < a' ∧ a' ≤ cap ∧ d' = d ∧ γ' = { γ with own := γ.own ++ [(a, a')] }) ∨
  -- the first access of a release of the owned extent `[lo, hi)`: it rewinds the cursor, or fails
  (∃ lo hi own', γ.own.Perm ((lo, hi) :: own') ∧ γ.pend = none ∧ d' = d ∧
    ((a = hi ∧ a' = lo ∧ γ' = { γ with own := own' }) ∨
     (a' = a ∧ γ' = { own := own', lost := γ.lost ++ [(lo, hi)], pend := some (lo, hi) }))) ∨
  -- the counter update of a release that did not rewind
  (∃ x, γ.pend = some x ∧ a' = a ∧ d' = (d + esize x) % TWO32 ∧ γ' = { γ with pend := none })

/-- `fr'` is fresh after a step from cursor `a` to `a'` with ghost `γ'`: it is the extent `[a, a')` just reserved -/
def FreshOK (a a' : Nat) (γ' : Gh) (fr' : Option Ext) : Prop :=
  ∀ x, fr' = some x → x = (a, a') ∧ a < a' ∧ (a, a') ∈ γ'.own

theorem stepAccess_holds {α : Type} {cap : Nat} {post : Gh → Option Ext → α → Prop} {γ : Gh} {fr : Option Ext}
    {sh sh2 : Shared} {p p2 : Prog α} {sp : Bool} {ev : Event} (h : Holds cap post γ fr p)
    (hs : stepAccess sh p sp = .ok (sh2, p2, ev)) :
    ∃ γ' fr', Holds cap post γ' fr' p2 ∧
      Eff cap sh.st.allocated sh.st.discarded sh2.st.allocated sh2.st.discarded γ γ' ∧
      FreshOK sh.st.allocated sh2.st.allocated γ' fr' ∧ sh2.st.cap = sh.st.cap := by
  have hno : ∀ a a' γ', FreshOK a a' γ' none := fun _ _ _ x hx => by cases hx
  cases h with
  | ret h => simp [stepAccess, throw, throwThe, MonadExceptOf.throw] at hs
  | trap => simp [stepAccess, throw, throwThe, MonadExceptOf.throw] at hs
  | diverge => simp [stepAccess, throw, throwThe, MonadExceptOf.throw] at hs
  | naZero _ _ h => simp [stepAccess, throw, throwThe, MonadExceptOf.throw] at hs
  | @load _ _ l s k h =>
    simp only [stepAccess, bind, Except.bind, pure, Except.pure] at hs
    split at hs
    · cases hs
    · rename_i v hv
      cases hs
      exact ⟨γ, none, h v, .inl ⟨rfl, rfl, rfl⟩, hno _ _ _, rfl⟩
  | @casAlloc _ _ e n w s k h1 h2 h3 h4 =>
    simp only [stepAccess, Shared.read, bind, Except.bind, pure, Except.pure] at hs
    split at hs
    · cases hs; exact ⟨γ, none, h3 _, .inl ⟨rfl, rfl, rfl⟩, hno _ _ _, rfl⟩
    · split at hs
      · rename_i he
        simp only [Shared.write, pure, Except.pure] at hs
        cases hs
        subst he
        refine ⟨_, _, h4, .inr (.inl ⟨h1, h2, rfl, rfl⟩), fun x hx => ?_, rfl⟩
        cases hx
        exact ⟨rfl, h1, by simp⟩
      · cases hs; exact ⟨γ, none, h3 _, .inl ⟨rfl, rfl, rfl⟩, hno _ _ _, rfl⟩
  | @casRel _ _ lo hi own' w s k h1 h2 h3 h4 =>
    simp only [stepAccess, Shared.read, bind, Except.bind, pure, Except.pure] at hs
    split at hs
    · cases hs
      exact ⟨_, none, h4 _, .inr (.inr (.inl ⟨lo, hi, own', h1, h2, rfl, .inr ⟨rfl, rfl⟩⟩)), hno _ _ _, rfl⟩
    · split at hs
      · rename_i he
        simp only [Shared.write, pure, Except.pure] at hs
        cases hs
        subst he
        exact ⟨_, none, h3, .inr (.inr (.inl ⟨lo, _, own', h1, h2, rfl, .inl ⟨rfl, rfl, rfl⟩⟩)), hno _ _ _, rfl⟩
      · cases hs
        exact ⟨_, none, h4 _, .inr (.inr (.inl ⟨lo, hi, own', h1, h2, rfl, .inr ⟨rfl, rfl⟩⟩)), hno _ _ _, rfl⟩
  | @faaDisc _ _ x v s k h1 h2 h3 =>
    simp only [stepAccess, Shared.read, Shared.write, ALoc.modulus, bind, Except.bind, pure, Except.pure,
      Bool.false_eq_true, if_false] at hs
    cases hs
    subst h2
    exact ⟨_, none, h3 _, .inr (.inr (.inr ⟨x, h1, rfl, rfl, rfl⟩)), hno _ _ _, rfl⟩

/-- one `Global.step` of a typed thread: its effect is one of `Eff`, and every non-atomic effect of the step is a
    zero-fill inside `[old cursor, new cursor)`, the extent the thread reserves in this very step -/
theorem tstep_holds {α : Type} {cap : Nat} {post : Gh → Option Ext → α → Prop}
    (hpost : ∀ γ fr a, post γ fr a → post γ none a) {γ : Gh} {sh : Shared}
    {p : Prog α} (sp : Bool) (h : Holds cap post γ none p) :
    ∃ γ', Holds cap post γ' none (tstep sh p sp).2 ∧
      Eff cap sh.st.allocated sh.st.discarded (tstep sh p sp).1.st.allocated (tstep sh p sp).1.st.discarded γ γ' ∧
      (∀ e ∈ tnas sh p sp, ∃ off len, e = .zero off len ∧ sh.st.allocated ≤ off ∧
        off + len ≤ (tstep sh p sp).1.st.allocated ∧ sh.st.allocated < (tstep sh p sp).1.st.allocated ∧
        (sh.st.allocated, (tstep sh p sp).1.st.allocated) ∈ γ'.own) ∧
      (tstep sh p sp).1.st.cap = sh.st.cap := by
  unfold tstep tnas
  have h1 := settle_holds 100000 sh p [] γ none h
  rcases hs : settle 100000 sh p [] with ⟨sh1, s, n1⟩
  rw [hs] at h1
  obtain ⟨hf1, hh1, hn1', new1, hn1, hin1⟩ := h1
  simp only [List.nil_append] at hn1
  subst hn1
  have hempty : n1 = [] := by
    rcases n1 with _ | ⟨e, rest⟩
    · rfl
    · have := hin1 e List.mem_cons_self
      cases e with
      | zero off len => obtain ⟨x, hx, _⟩ := this; cases hx
      | fill off len b => exact this.elim
      | verify off len => exact this.elim
      | unmount => exact this.elim
  subst hempty
  rcases s with a | fl | p1
  · exact ⟨γ, hh1, .inl ⟨hf1.1, hf1.2.1, rfl⟩, (fun e he => by cases he), hf1.2.2⟩
  · exact ⟨γ, hh1, .inl ⟨hf1.1, hf1.2.1, rfl⟩, (fun e he => by cases he), hf1.2.2⟩
  · dsimp only
    rcases ha : stepAccess sh1 p1 sp with (s | _) | ⟨sh2, p2, e⟩
    · exact ⟨γ, .trap, .inl ⟨hf1.1, hf1.2.1, rfl⟩, (fun e he => by cases he), hf1.2.2⟩
    · exact ⟨γ, .diverge, .inl ⟨hf1.1, hf1.2.1, rfl⟩, (fun e he => by cases he), hf1.2.2⟩
    · obtain ⟨γ', fr', hh2, heff, hfr, hcap2⟩ := stepAccess_holds hh1 ha
      have h3 := settle_holds 100000 sh2 p2 [] γ' fr' hh2
      dsimp only
      rcases hs2 : settle 100000 sh2 p2 [] with ⟨sh3, s3, n3⟩
      rw [hs2] at h3
      obtain ⟨hf3, hh3, hn3', new3, hn3, hin3⟩ := h3
      simp only [List.nil_append] at hn3
      subst hn3
      dsimp only at hf3 hh3 hn3' ⊢
      rw [hf1.1, hf1.2.1, ← hf3.1, ← hf3.2.1] at heff
      rw [hf1.1, ← hf3.1] at hfr
      refine ⟨γ', hh3.forget hpost hn3', heff, ?_, (hf3.2.2.trans hcap2).trans hf1.2.2⟩
      intro e he
      simp only [List.nil_append] at he
      have := hin3 e he
      cases e with
      | zero off len =>
        obtain ⟨x, hx, hb1, hb2⟩ := this
        obtain ⟨rfl, hlt, hmem⟩ := hfr x hx
        exact ⟨off, len, rfl, hb1, hb2, hlt, hmem⟩
      | fill off len b => exact this.elim
      | verify off len => exact this.elim
      | unmount => exact this.elim

/-! ### all threads -/

theorem _root_.Rarena.Conc.All2.get {α β : Type} {R : α → β → Prop} {as : List α} {bs : List β} (h : All2 R as bs) :
    ∀ {i : Nat} {b : β}, bs[i]? = some b → ∃ a, as[i]? = some a ∧ R a b := by
  induction h with
  | nil => intro i b hb; simp at hb
  | @cons a b as bs hab _ ih =>
    intro i b' hb
    cases i with
    | zero =>
      simp only [List.getElem?_cons_zero, Option.some.injEq] at hb
      subst hb
      exact ⟨a, rfl, hab⟩
    | succ i =>
      simp only [List.getElem?_cons_succ] at hb ⊢
      exact ih hb

theorem _root_.Rarena.Conc.All2.set {α β : Type} {R : α → β → Prop} {as : List α} {bs : List β} (h : All2 R as bs)
    {a : α} {b : β} (hab : R a b) : ∀ i : Nat, All2 R (as.set i a) (bs.set i b) := by
  induction h with
  | nil => intro i; exact .nil
  | @cons a0 b0 as bs h0 hrest ih =>
    intro i
    cases i with
    | zero => exact .cons hab hrest
    | succ i => exact .cons h0 (ih i)

theorem _root_.Rarena.Conc.All2.length_eq {α β : Type} {R : α → β → Prop} {as : List α} {bs : List β} (h : All2 R as bs) :
    as.length = bs.length := by
  induction h with
  | nil => rfl
  | cons _ _ ih => simp only [List.length_cons, ih]

theorem disj_symm {a b : Ext} (h : disj a b) : disj b a := Or.symm h

/-- all extents owned by some thread -/
def owns (ghs : List Gh) : List Ext := (ghs.map Gh.own).flatten

/-- the sizes whose `fetch_add discarded` is pending -/
def pendTotal (ghs : List Gh) : Nat := (ghs.map Gh.pendSize).sum

/-- the sizes of all releases that did not rewind the cursor -/
def lostTotal (ghs : List Gh) : Nat := (ghs.map Gh.lostSum).sum

theorem owns_set : ∀ (ghs : List Gh) (i : Nat) (γ : Gh), ghs[i]? = some γ →
    ∃ others, (owns ghs).Perm (γ.own ++ others) ∧ (∀ γ', (owns (ghs.set i γ')).Perm (γ'.own ++ others)) ∧
      ∀ j δ, j ≠ i → ghs[j]? = some δ → ∀ y ∈ δ.own, y ∈ others
  | [], i, γ, h => by simp at h
  | δ0 :: ghs, 0, γ, h => by
    simp only [List.getElem?_cons_zero, Option.some.injEq] at h
    subst h
    refine ⟨owns ghs, ?_, fun γ' => ?_, ?_⟩
    · simp only [owns, List.map_cons, List.flatten_cons]; exact List.Perm.refl _
    · simp only [owns, List.set_cons_zero, List.map_cons, List.flatten_cons]; exact List.Perm.refl _
    · intro j δ hj hδ y hy
      cases j with
      | zero => exact absurd rfl hj
      | succ j =>
        simp only [List.getElem?_cons_succ] at hδ
        simp only [owns, List.mem_flatten, List.mem_map]
        exact ⟨δ.own, ⟨δ, List.mem_of_getElem? hδ, rfl⟩, hy⟩
  | δ0 :: ghs, i + 1, γ, h => by
    simp only [List.getElem?_cons_succ] at h
    obtain ⟨others, h1, h2, h3⟩ := owns_set ghs i γ h
    refine ⟨δ0.own ++ others, ?_, fun γ' => ?_, ?_⟩
    · simp only [owns, List.map_cons, List.flatten_cons]
      exact (List.Perm.append_left _ h1).trans (List.perm_append_comm_assoc _ _ _)
    · simp only [owns, List.set_cons_succ, List.map_cons, List.flatten_cons]
      exact (List.Perm.append_left _ (h2 γ')).trans (List.perm_append_comm_assoc _ _ _)
    · intro j δ hj hδ y hy
      cases j with
      | zero =>
        simp only [List.getElem?_cons_zero, Option.some.injEq] at hδ
        subst hδ
        exact List.mem_append_left _ hy
      | succ j =>
        simp only [List.getElem?_cons_succ] at hδ
        exact List.mem_append_right _ (h3 j δ (by omega) hδ y hy)

theorem sum_set (f : Gh → Nat) : ∀ (ghs : List Gh) (i : Nat) (γ : Gh), ghs[i]? = some γ →
    ∀ γ', ((ghs.set i γ').map f).sum + f γ = (ghs.map f).sum + f γ'
  | [], i, γ, h => by simp at h
  | δ0 :: ghs, 0, γ, h => by
    simp only [List.getElem?_cons_zero, Option.some.injEq] at h
    subst h
    intro γ'
    simp only [List.set_cons_zero, List.map_cons, List.sum_cons]
    omega
  | δ0 :: ghs, i + 1, γ, h => by
    simp only [List.getElem?_cons_succ] at h
    intro γ'
    have := sum_set f ghs i γ h γ'
    simp only [List.set_cons_succ, List.map_cons, List.sum_cons]
    omega

/-- `Held cap γ p`: a thread that is at a scheduling point and continues as `p` is in ghost state `γ`; when it
    finishes it returns exactly the handles whose buffer extents it owns (`rpost`) -/
abbrev Held (cap : Nat) (γ : Gh) (p : Prog (List Meta)) : Prop :=
  Holds cap (fun g _ r => rpost g r) γ none p

/-- the invariant of the reachable states; `ghs` is the ghost state of the threads -/
structure NInv (cap init d0 : Nat) (g : Global (List Meta)) (ghs : List Gh) : Prop where
  typed : All2 (Held cap) ghs g.threads
  lo : init ≤ g.sh.st.allocated
  hi : g.sh.st.allocated ≤ cap
  pw : (owns ghs).Pairwise disj
  inb : ∀ x ∈ owns ghs, init ≤ x.1 ∧ x.1 < x.2 ∧ x.2 ≤ g.sh.st.allocated
  acct : (g.sh.st.discarded + pendTotal ghs) % TWO32 = (d0 + lostTotal ghs) % TWO32
  capEq : g.sh.st.cap = cap

theorem stepNAs_none {α : Type} (g : Global α) (tid : Nat) (sp : Bool) (h : g.threads[tid]? = none) :
    stepNAs g tid sp = [] := by
  unfold stepNAs
  simp only [h]

theorem stepNAs_some {α : Type} (g : Global α) (tid : Nat) (sp : Bool) (p : Prog α) (h : g.threads[tid]? = some p) :
    stepNAs g tid sp = tnas g.sh p sp := by
  unfold stepNAs
  simp only [h]

theorem lostSum_append (γ : Gh) (x : Ext) (own' : List Ext) (pd : Option Ext) :
    Gh.lostSum { own := own', lost := γ.lost ++ [x], pend := pd } = γ.lostSum + esize x := by
  simp only [Gh.lostSum, List.map_append, List.map_cons, List.map_nil, List.sum_append, List.sum_cons, List.sum_nil]
  omega

/-- one step of any thread preserves the invariant; only the ghost state of the stepping thread changes, and the
    non-atomic effects of the step are zero-fills inside `[old cursor, new cursor)`, which is the extent the
    stepping thread reserves in this very step -/
theorem NInv.step {cap init d0 : Nat} {g : Global (List Meta)} {ghs : List Gh} (h : NInv cap init d0 g ghs)
    (tid : Nat) (sp : Bool) :
    ∃ ghs', NInv cap init d0 (g.step tid sp).1 ghs' ∧ (∀ j, j ≠ tid → ghs'[j]? = ghs[j]?) ∧
      ∀ e ∈ stepNAs g tid sp, ∃ off len, e = .zero off len ∧ g.sh.st.allocated ≤ off ∧
        off + len ≤ (g.step tid sp).1.sh.st.allocated ∧
        ∃ γ', ghs'[tid]? = some γ' ∧ (g.sh.st.allocated, (g.step tid sp).1.sh.st.allocated) ∈ γ'.own := by
  rcases hp : g.threads[tid]? with _ | p
  · rw [step_none g tid sp hp, stepNAs_none g tid sp hp]
    exact ⟨ghs, h, fun _ _ => rfl, fun e he => by cases he⟩
  · rw [step_some g tid sp p hp, stepNAs_some g tid sp p hp]
    obtain ⟨γ, hγ, hR⟩ := h.typed.get hp
    obtain ⟨γ', hh, heff, hna, hcap⟩ := tstep_holds (sh := g.sh) (fun _ _ _ h => h) sp hR
    have hlt : tid < ghs.length := by
      rcases Nat.lt_or_ge tid ghs.length with h' | h'
      · exact h'
      · rw [List.getElem?_eq_none h'] at hγ; cases hγ
    refine ⟨ghs.set tid γ', ?_, fun j hj => by rw [List.getElem?_set_ne (Ne.symm hj)], fun e he => by
      obtain ⟨off, len, h1, h2, h3, -, h5⟩ := hna e he
      exact ⟨off, len, h1, h2, h3, γ', by rw [List.getElem?_set_self hlt], h5⟩⟩
    obtain ⟨others, hperm, hperm', -⟩ := owns_set ghs tid γ hγ
    have pw0 : (γ.own ++ others).Pairwise disj := (hperm.pairwise_iff disj_symm).mp h.pw
    have inb0 : ∀ x ∈ γ.own ++ others, init ≤ x.1 ∧ x.1 < x.2 ∧ x.2 ≤ g.sh.st.allocated :=
      fun x hx => h.inb x (hperm.mem_iff.mpr hx)
    have hP := sum_set Gh.pendSize ghs tid γ hγ γ'
    have hL := sum_set Gh.lostSum ghs tid γ hγ γ'
    have hacct := h.acct
    have hlo := h.lo
    have hhi := h.hi
    simp only [pendTotal, lostTotal] at hacct
    -- it suffices to establish the facts about the new cursor, counter and `γ'.own ++ others`
    suffices hsuff : init ≤ (tstep g.sh p sp).1.st.allocated ∧ (tstep g.sh p sp).1.st.allocated ≤ cap ∧
        (γ'.own ++ others).Pairwise disj ∧
        (∀ x ∈ γ'.own ++ others, init ≤ x.1 ∧ x.1 < x.2 ∧ x.2 ≤ (tstep g.sh p sp).1.st.allocated) ∧
        ((tstep g.sh p sp).1.st.discarded + ((ghs.set tid γ').map Gh.pendSize).sum) % TWO32 =
          (d0 + ((ghs.set tid γ').map Gh.lostSum).sum) % TWO32 by
      obtain ⟨s1, s2, s3, s4, s5⟩ := hsuff
      exact ⟨h.typed.set hh tid, s1, s2, ((hperm' γ').pairwise_iff disj_symm).mpr s3,
        fun x hx => s4 x ((hperm' γ').mem_iff.mp hx), s5, hcap.trans h.capEq⟩
    generalize (tstep g.sh p sp).1.st.allocated = a' at heff ⊢
    generalize (tstep g.sh p sp).1.st.discarded = d' at heff ⊢
    simp only [TWO32] at hacct ⊢
    rcases heff with ⟨ha, hd, rfl⟩ | ⟨ha1, ha2, hd, rfl⟩ |
      ⟨lo, hi, own', hpm, hpn, hd, ⟨ha1, ha2, rfl⟩ | ⟨ha, rfl⟩⟩ | ⟨x, hpx, ha, hd, rfl⟩
    · -- nothing
      subst ha hd
      exact ⟨hlo, hhi, pw0, inb0, by omega⟩
    · -- reserve
      subst hd
      have hp2 : ((γ.own ++ [(g.sh.st.allocated, a')]) ++ others).Perm ((g.sh.st.allocated, a') :: (γ.own ++ others)) := by
        rw [List.append_assoc]
        exact List.perm_middle
      refine ⟨by omega, ha2, (hp2.pairwise_iff disj_symm).mpr ?_, fun x hx => ?_, ?_⟩
      · refine List.pairwise_cons.mpr ⟨fun y hy => ?_, pw0⟩
        exact .inr (inb0 y hy).2.2
      · have hx' := hp2.mem_iff.mp hx
        simp only [List.mem_cons] at hx'
        rcases hx' with rfl | hx'
        · exact ⟨hlo, ha1, Nat.le_refl _⟩
        · obtain ⟨b1, b2, b3⟩ := inb0 x hx'
          exact ⟨b1, b2, by omega⟩
      · have e1 : Gh.pendSize { γ with own := γ.own ++ [(g.sh.st.allocated, a')] } = γ.pendSize := rfl
        have e2 : Gh.lostSum { γ with own := γ.own ++ [(g.sh.st.allocated, a')] } = γ.lostSum := rfl
        rw [e1] at hP; rw [e2] at hL
        omega
    · -- top release
      subst hd
      have hp2 : (γ.own ++ others).Perm ((lo, hi) :: (own' ++ others)) := hpm.append_right others
      have pw1 := List.pairwise_cons.mp ((hp2.pairwise_iff disj_symm).mp pw0)
      have inb1 : ∀ x ∈ (lo, hi) :: (own' ++ others), init ≤ x.1 ∧ x.1 < x.2 ∧ x.2 ≤ g.sh.st.allocated :=
        fun x hx => inb0 x (hp2.mem_iff.mpr hx)
      have hlh := inb1 (lo, hi) List.mem_cons_self
      dsimp only at hlh
      refine ⟨by omega, by omega, pw1.2, fun x hx => ?_, ?_⟩
      · obtain ⟨b1, b2, b3⟩ := inb1 x (List.mem_cons_of_mem _ hx)
        have hd := pw1.1 x hx
        simp only [disj] at hd
        exact ⟨b1, b2, by omega⟩
      · have e1 : Gh.pendSize { γ with own := own' } = γ.pendSize := rfl
        have e2 : Gh.lostSum { γ with own := own' } = γ.lostSum := rfl
        rw [e1] at hP; rw [e2] at hL
        omega
    · -- release without rewinding
      subst hd ha
      have hp2 : (γ.own ++ others).Perm ((lo, hi) :: (own' ++ others)) := hpm.append_right others
      have pw1 := List.pairwise_cons.mp ((hp2.pairwise_iff disj_symm).mp pw0)
      refine ⟨hlo, hhi, pw1.2, fun x hx => inb0 x (hp2.mem_iff.mpr (List.mem_cons_of_mem _ hx)), ?_⟩
      have e1 : Gh.pendSize { own := own', lost := γ.lost ++ [(lo, hi)], pend := some (lo, hi) } = esize (lo, hi) := rfl
      have e2 := lostSum_append γ (lo, hi) own' (some (lo, hi))
      have e3 : γ.pendSize = 0 := by simp only [Gh.pendSize, hpn]
      rw [e1] at hP; rw [e2] at hL
      omega
    · -- counter update
      simp only [TWO32] at hd
      subst ha hd
      refine ⟨hlo, hhi, pw0, inb0, ?_⟩
      have e1 : Gh.pendSize { γ with pend := none } = 0 := rfl
      have e2 : Gh.lostSum { γ with pend := none } = γ.lostSum := rfl
      have e3 : γ.pendSize = esize x := by simp only [Gh.pendSize, hpx]
      rw [e1] at hP; rw [e2] at hL
      omega

theorem NInv.run {cap init d0 : Nat} : ∀ (sched : List (Nat × Bool)) {g : Global (List Meta)} {ghs : List Gh},
    NInv cap init d0 g ghs → ∃ ghs', NInv cap init d0 (g.run sched).1 ghs'
  | [], _, ghs, h => ⟨ghs, h⟩
  | (tid, sp) :: rest, g, ghs, h => by
    obtain ⟨ghs1, h1, -, -⟩ := h.step tid sp
    obtain ⟨ghs2, h2⟩ := NInv.run rest h1
    exact ⟨ghs2, by simpa only [Global.run] using h2⟩

/-- initial ghost state of a thread: nothing owned, nothing lost, nothing pending -/
def gh0 : Gh := ⟨[], [], none⟩

theorem init_typed (cap : Nat) (c : Cfg) (hk : c.kind = .none) (hro : c.ro = false) (fuel : Nat) :
    ∀ progs : List (List NOp), (∀ ops ∈ progs, ∀ op ∈ ops, op.ok) →
      All2 (Held cap) (progs.map (fun _ => gh0)) (progs.map (fun ops => noneProg c cap fuel ops [])) ∧
      owns (progs.map (fun _ => gh0)) = [] ∧ pendTotal (progs.map (fun _ => gh0)) = 0 ∧
      lostTotal (progs.map (fun _ => gh0)) = 0
  | [], _ => ⟨.nil, rfl, rfl, rfl⟩
  | ops :: rest, hok => by
    obtain ⟨h1, h2, h3, h4⟩ := init_typed cap c hk hro fuel rest (fun o ho => hok o (List.mem_cons_of_mem _ ho))
    refine ⟨.cons ?_ h1, ?_, ?_, ?_⟩
    · exact holds_noneProg cap c hk hro fuel ops (hok ops List.mem_cons_self) [] gh0 none rfl rfl
        (fun m hm => by cases hm)
    · simp only [owns] at h2
      simp only [owns, List.map_cons, List.flatten_cons]
      rw [h2]
      rfl
    · simp only [pendTotal] at h3
      simp only [pendTotal, List.map_cons, List.sum_cons, h3]
      rfl
    · simp only [lostTotal] at h4
      simp only [lostTotal, List.map_cons, List.sum_cons, h4]
      rfl

/-- every state reachable under any schedule satisfies the invariant, for some ghost state of the threads -/
theorem none_reachable (c : Cfg) (hk : c.kind = .none) (hro : c.ro = false) (sh : Shared) (fuel : Nat)
    (hhi : sh.st.allocated ≤ sh.st.cap)
    (progs : List (List NOp)) (hok : ∀ ops ∈ progs, ∀ op ∈ ops, op.ok) (sched : List (Nat × Bool)) :
    let g0 : Global (List Meta) := { sh := sh, threads := progs.map (fun ops => noneProg c sh.st.cap fuel ops []) }
    ∃ ghs, NInv sh.st.cap sh.st.allocated sh.st.discarded (g0.run sched).1 ghs := by
  intro g0
  obtain ⟨h1, h2, h3, h4⟩ := init_typed sh.st.cap c hk hro fuel progs hok
  have h0 : NInv sh.st.cap sh.st.allocated sh.st.discarded g0 (progs.map (fun _ => gh0)) :=
    ⟨h1, Nat.le_refl _, hhi, by rw [h2]; exact .nil, by rw [h2]; intro x hx; (cases hx), by rw [h3, h4], rfl⟩
  exact NInv.run sched h0

/-! ### consequences for the handles returned by finished threads -/

theorem results_sublist {cap : Nat} {ghs : List Gh} {ts : List (Prog (List Meta))} (sh : Shared)
    (h : All2 (Held cap) ghs ts) :
    ((((Global.mk sh ts).results).filterMap id).flatten.map mext).Sublist (owns ghs) ∧
    ∀ m ∈ (((Global.mk sh ts).results).filterMap id).flatten, AccIn m := by
  induction h with
  | nil => exact ⟨.slnil, fun m hm => by cases hm⟩
  | @cons a b as bs hab _ ih =>
    simp only [Global.results, List.map_cons, owns, List.flatten_cons] at ih ⊢
    cases hab with
    | ret h =>
      obtain ⟨h1, -, h3⟩ := h
      simp only [List.filterMap_cons_some (f := id) rfl, List.flatten_cons, List.map_append, h1]
      refine ⟨List.Sublist.append (List.Sublist.refl _) ih.1, fun m hm => ?_⟩
      rcases List.mem_append.mp hm with hm | hm
      · exact h3 m hm
      · exact ih.2 m hm
    | _ =>
      simp only [List.filterMap_cons_none (f := id) rfl]
      exact ⟨ih.1.trans (List.sublist_append_right _ _), ih.2⟩

theorem finished_pend {cap : Nat} {ghs : List Gh} {ts : List (Prog (List Meta))}
    (h : All2 (Held cap) ghs ts) (hfin : ∀ p ∈ ts, ∃ r, p = .ret r) : pendTotal ghs = 0 := by
  induction h with
  | nil => rfl
  | @cons a b as bs hab _ ih =>
    obtain ⟨r, hr⟩ := hfin b List.mem_cons_self
    subst hr
    have ih' := ih (fun p hp => hfin p (List.mem_cons_of_mem _ hp))
    simp only [pendTotal] at ih' ⊢
    cases hab with
    | ret h =>
      simp only [List.map_cons, List.sum_cons, ih', Gh.pendSize, h.2.1]

/-- extents held by different threads are disjoint -/
theorem cross_disj {ghs : List Gh} (hpw : (owns ghs).Pairwise disj) {i j : Nat} {γ δ : Gh}
    (hi : ghs[i]? = some γ) (hj : ghs[j]? = some δ) (hij : j ≠ i) {x y : Ext} (hx : x ∈ γ.own) (hy : y ∈ δ.own) :
    disj x y := by
  obtain ⟨others, hperm, -, hmem⟩ := owns_set ghs i γ hi
  have h1 := (hperm.pairwise_iff disj_symm).mp hpw
  exact (List.pairwise_append.mp h1).2.2 x hx y (hmem j δ hij hj y hy)

/-! ### the theorems -/

/-- (1) In every state reachable under ANY schedule by ANY number of threads running ANY programs of allocations
    and releases of their own handles, the extents held by the threads (`ghs`: per thread, reserved and not yet
    released — a release counts from its first atomic access on) are pairwise disjoint, non-empty, and lie inside
    `[dataOffset, cursor]` (indeed above the initial cursor), and the cursor stays within the capacity. -/
theorem none_exclusive (c : Cfg) (hk : c.kind = .none) (hro : c.ro = false) (sh : Shared) (fuel : Nat)
    (hlo : c.dataOffset ≤ sh.st.allocated) (hhi : sh.st.allocated ≤ sh.st.cap)
    (progs : List (List NOp)) (hok : ∀ ops ∈ progs, ∀ op ∈ ops, op.ok) (sched : List (Nat × Bool)) :
    let g0 : Global (List Meta) := { sh := sh, threads := progs.map (fun ops => noneProg c sh.st.cap fuel ops []) }
    let g := (g0.run sched).1
    ∃ ghs : List Gh, All2 (Held sh.st.cap) ghs g.threads ∧
      (owns ghs).Pairwise disj ∧
      (∀ x ∈ owns ghs, c.dataOffset ≤ x.1 ∧ sh.st.allocated ≤ x.1 ∧ x.1 < x.2 ∧ x.2 ≤ g.sh.st.allocated) ∧
      c.dataOffset ≤ g.sh.st.allocated ∧ g.sh.st.allocated ≤ g.sh.st.cap ∧ g.sh.st.cap = sh.st.cap := by
  intro g0 g
  obtain ⟨ghs, h⟩ : ∃ ghs, NInv sh.st.cap sh.st.allocated sh.st.discarded g ghs :=
    none_reachable c hk hro sh fuel hhi progs hok sched
  refine ⟨ghs, h.typed, h.pw, fun x hx => ?_, Nat.le_trans hlo h.lo, by rw [h.capEq]; exact h.hi, h.capEq⟩
  obtain ⟨b1, b2, b3⟩ := h.inb x hx
  exact ⟨Nat.le_trans hlo b1, b1, b2, b3⟩

/-- (2) the cursor is at or above the end of every held extent: a later bump allocation (which reserves
    `[cursor, new cursor)`) can never overlap a held extent -/
theorem none_cursor_above_live (c : Cfg) (hk : c.kind = .none) (hro : c.ro = false) (sh : Shared) (fuel : Nat)
    (hhi : sh.st.allocated ≤ sh.st.cap)
    (progs : List (List NOp)) (hok : ∀ ops ∈ progs, ∀ op ∈ ops, op.ok) (sched : List (Nat × Bool)) :
    let g0 : Global (List Meta) := { sh := sh, threads := progs.map (fun ops => noneProg c sh.st.cap fuel ops []) }
    let g := (g0.run sched).1
    ∃ ghs : List Gh, All2 (Held sh.st.cap) ghs g.threads ∧
      ∀ x ∈ owns ghs, x.2 ≤ g.sh.st.allocated ∧ ∀ n, disj x (g.sh.st.allocated, n) := by
  intro g0 g
  obtain ⟨ghs, h⟩ := none_reachable c hk hro sh fuel hhi progs hok sched
  exact ⟨ghs, h.typed, fun x hx => ⟨(h.inb x hx).2.2, fun n => .inl (h.inb x hx).2.2⟩⟩

/-- (3) whatever thread is scheduled next in a reachable state: every non-atomic effect of its step (the machine's
    own `NA` events) is a zero-fill that lies inside `[old cursor, new cursor)`, which is the extent this same
    thread reserves in this very step (it is in its ghost state afterwards); therefore it is disjoint from every
    extent held by ANY thread before the step (its own older handles included): the bytes of a live handle are
    never written by the allocator. The ghost state of the other threads does not change. -/
theorem none_zero_inside_own (c : Cfg) (hk : c.kind = .none) (hro : c.ro = false) (sh : Shared) (fuel : Nat)
    (hhi : sh.st.allocated ≤ sh.st.cap)
    (progs : List (List NOp)) (hok : ∀ ops ∈ progs, ∀ op ∈ ops, op.ok) (sched : List (Nat × Bool))
    (tid : Nat) (sp : Bool) :
    let g0 : Global (List Meta) := { sh := sh, threads := progs.map (fun ops => noneProg c sh.st.cap fuel ops []) }
    let g := (g0.run sched).1
    ∃ ghs ghs' : List Gh,
      NInv sh.st.cap sh.st.allocated sh.st.discarded g ghs ∧
      NInv sh.st.cap sh.st.allocated sh.st.discarded (g.step tid sp).1 ghs' ∧
      (∀ j, j ≠ tid → ghs'[j]? = ghs[j]?) ∧
      ∀ e ∈ stepNAs g tid sp, ∃ off len, e = .zero off len ∧
        g.sh.st.allocated ≤ off ∧ off + len ≤ (g.step tid sp).1.sh.st.allocated ∧
        (∃ γ', ghs'[tid]? = some γ' ∧ (g.sh.st.allocated, (g.step tid sp).1.sh.st.allocated) ∈ γ'.own) ∧
        (∀ y ∈ owns ghs, disj y (off, off + len)) := by
  intro g0 g
  obtain ⟨ghs, h⟩ : ∃ ghs, NInv sh.st.cap sh.st.allocated sh.st.discarded g ghs :=
    none_reachable c hk hro sh fuel hhi progs hok sched
  obtain ⟨ghs', h', hsame, hna⟩ := h.step tid sp
  refine ⟨ghs, ghs', h, h', hsame, fun e he => ?_⟩
  obtain ⟨off, len, h1, h2, h3, h4⟩ := hna e he
  exact ⟨off, len, h1, h2, h3, h4, fun y hy => .inl (Nat.le_trans (h.inb y hy).2.2 h2)⟩

/-- (4) the `discarded` counter plus the sizes still pending (release CAS failed, `fetch_add` not yet executed)
    equals, mod 2^32, its initial value plus the sizes of all releases that did NOT rewind the cursor; when every
    thread has finished nothing is pending. -/
theorem none_discarded_accounting (c : Cfg) (hk : c.kind = .none) (hro : c.ro = false) (sh : Shared) (fuel : Nat)
    (hhi : sh.st.allocated ≤ sh.st.cap)
    (progs : List (List NOp)) (hok : ∀ ops ∈ progs, ∀ op ∈ ops, op.ok) (sched : List (Nat × Bool)) :
    let g0 : Global (List Meta) := { sh := sh, threads := progs.map (fun ops => noneProg c sh.st.cap fuel ops []) }
    let g := (g0.run sched).1
    ∃ ghs : List Gh, All2 (Held sh.st.cap) ghs g.threads ∧
      (g.sh.st.discarded + pendTotal ghs) % TWO32 = (sh.st.discarded + lostTotal ghs) % TWO32 ∧
      ((∀ p ∈ g.threads, ∃ r, p = .ret r) → g.sh.st.discarded % TWO32 = (sh.st.discarded + lostTotal ghs) % TWO32) := by
  intro g0 g
  obtain ⟨ghs, h⟩ := none_reachable c hk hro sh fuel hhi progs hok sched
  refine ⟨ghs, h.typed, h.acct, fun hfin => ?_⟩
  have := h.acct
  rw [finished_pend h.typed hfin, Nat.add_zero] at this
  exact this

/-- the same in terms of what finished threads return: the handles still held by the threads that have run to
    completion have pairwise disjoint buffer extents (hence disjoint accessible ranges), lie between the initial
    cursor and the current cursor, and their accessible range lies inside their buffer extent -/
theorem none_results_exclusive (c : Cfg) (hk : c.kind = .none) (hro : c.ro = false) (sh : Shared) (fuel : Nat)
    (hhi : sh.st.allocated ≤ sh.st.cap)
    (progs : List (List NOp)) (hok : ∀ ops ∈ progs, ∀ op ∈ ops, op.ok) (sched : List (Nat × Bool)) :
    let g0 : Global (List Meta) := { sh := sh, threads := progs.map (fun ops => noneProg c sh.st.cap fuel ops []) }
    let g := (g0.run sched).1
    let handles := (g.results.filterMap id).flatten
    handles.Pairwise (fun a b => disj (mext a) (mext b) ∧ disj a.access b.access) ∧
    (∀ m ∈ handles, sh.st.allocated ≤ m.memOff ∧ 0 < m.memSize ∧ m.memOff + m.memSize ≤ g.sh.st.allocated ∧
      m.memOff ≤ m.ptrOff ∧ m.ptrOff + m.ptrSize ≤ m.memOff + m.memSize) ∧
    g.sh.st.allocated ≤ g.sh.st.cap := by
  intro g0 g handles
  obtain ⟨ghs, h⟩ : ∃ ghs, NInv sh.st.cap sh.st.allocated sh.st.discarded g ghs :=
    none_reachable c hk hro sh fuel hhi progs hok sched
  obtain ⟨hsub, hacc⟩ := results_sublist g.sh h.typed
  have hpw : handles.Pairwise (fun a b => disj (mext a) (mext b)) := List.pairwise_map.mp (h.pw.sublist hsub)
  refine ⟨?_, fun m hm => ?_, by rw [h.capEq]; exact h.hi⟩
  · refine hpw.imp_of_mem (fun {a b} ha hb hab => ⟨hab, ?_⟩)
    have h1 := hacc a ha
    have h2 := hacc b hb
    simp only [disj, mext, Meta.access, AccIn] at hab h1 h2 ⊢
    omega
  · have hx := h.inb (mext m) (hsub.subset (List.mem_map_of_mem hm))
    have h1 := hacc m hm
    simp only [mext, AccIn] at hx h1
    omega

/-! ### non-vacuity: a 256-byte arena without free list, cursor at 40, two threads -/

def exSh : Shared := { st := { mem := Array.replicate 256 0, sentinel := SENTINEL_WORD, allocated := 40, minSeg := 8, discarded := 0 }, refs := 2 }
def exC : Cfg := { sync := true, kind := .none, ro := false, retries := 5, dataOffset := 40, reserved := 0, unify := true }
def exG (a b : List NOp) : Global (List Meta) :=
  { sh := exSh, threads := [a, b].map (fun ops => noneProg exC 256 50 ops []) }

/-- what the examples look at: the accessible ranges returned by the finished threads, the cursor, `discarded` -/
def exView (g : Global (List Meta)) : List (Option (List (Nat × Nat))) × Nat × Nat :=
  (g.results.map (fun r => r.map (fun ms => ms.map (fun m => (m.ptrOff, m.ptrSize)))), g.sh.st.allocated, g.sh.st.discarded)

def zeroFills (l : List NA) : List (Nat × Nat) :=
  l.filterMap (fun e => match e with | .zero o n => some (o, n) | _ => none)

example : (∀ ops ∈ [[NOp.allocT 8 8, .allocAligned 4 4 3, .release 0], [.allocBytes 3, .allocT 4 4]], ∀ op ∈ ops, op.ok) := by
  decide

/-- a top release interleaves with an allocation: thread 0 reserves `[40,56)`; thread 1 reads the cursor (56);
    thread 0 releases on top (CAS 56 → 40 succeeds); the CAS of thread 1 fails (value changed), it retries on the
    rewound cursor and obtains `[40,48)` — the bytes thread 0 has given back -/
example : exView ((exG [.allocBytes 16, .release 0] [.allocBytes 8]).run
    [(0, false), (0, false), (1, false), (0, false), (1, false), (1, false)]).1 = ([some [], some [(40, 8)]], 48, 0) := by
  decide +kernel

/-- the release loses the race: thread 1 allocates `[56,64)` first, the CAS 56 → 40 of thread 0 fails and the 16
    bytes are added to `discarded` -/
example : exView ((exG [.allocBytes 16, .release 0] [.allocBytes 8]).run
    [(0, false), (0, false), (1, false), (1, false), (0, false), (0, false)]).1 = ([some [], some [(56, 8)]], 64, 16) := by
  decide +kernel

/-- ABA on the cursor: thread 1 reads 56; thread 0 releases `[40,56)` (cursor 40) and allocates 16 bytes again
    (cursor 56); the CAS of thread 1 (expecting 56) succeeds on the CURRENT cursor — the ranges are disjoint -/
example : exView ((exG [.allocBytes 16, .release 0, .allocBytes 16] [.allocBytes 8]).run
    [(0, false), (0, false), (1, false), (0, false), (0, false), (0, false), (1, false)]).1 =
      ([some [(40, 16)], some [(56, 8)]], 64, 0) := by
  decide +kernel

/-- typed and aligned allocations, a spurious failure, and a release below the cursor (its buffer extent `[43,56)`,
    13 bytes with the alignment padding, is discarded) -/
example : exView ((exG [.allocT 8 8, .allocAligned 4 4 3, .release 0] [.allocBytes 3, .allocT 4 4]).run
    [(1, false), (1, false), (0, false), (0, true), (0, false), (0, false), (0, false), (1, false), (1, false),
     (0, false), (0, false)]).1 = ([some [(56, 7)], some [(40, 3), (64, 4)]], 68, 13) := by
  decide +kernel

/-- the machine's `NA` events: the step in which thread 0 wins the cursor CAS zero-fills exactly `[40,56)` -/
example : zeroFills (stepNAs ((exG [.allocBytes 16, .release 0] [.allocBytes 8]).run [(0, false)]).1 0 false) = [(40, 16)] := by
  decide +kernel

/- OPEN (not proved here):
   * The ghost state is existentially quantified (`∃ ghs, All2 (Held cap) ghs g.threads ∧ …`); it coincides with the
     returned handles for finished threads (`none_results_exclusive`), but no uniqueness theorem
       `Held cap γ p → Held cap γ' p → γ.own.Perm γ'.own`
     is proved for threads that are in the middle of their program (it is false for programs that trap/diverge).
   * `none_discarded_accounting` is stated on the ghost log `lost`; a trace-level version
       `discarded ≡ discarded₀ + Σ { size of the release r | the event of r at site ("dealloc", 0) has ok = false }`
     over `(g0.run sched).2` would need the sizes of the releases, which the machine's `Event`s do not carry.
   * Only `kind = none`, `ro = false`, and programs made of the three allocation entry points and `Drop` of an own
     handle; `clear`, `discard_freelist`, `set_minimum_segment_size`, `rewind`, and the free-list kinds (`opt`, `pess`)
     are outside this file. The machine is the interleaving machine of `Model/Conc.lean` (sequentially consistent).
-/

end Rarena.Conc.NoneFL
