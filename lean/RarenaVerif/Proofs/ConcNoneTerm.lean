/-
  Proofs.ConcNoneTerm — PROGRESS for the programs of `Proofs/ConcNone.lean`: on an arena with `Freelist::None`, every
  allocation (`alloc_bytes`, `alloc_aligned_bytes`, `alloc<T>`) and every release finishes after a bounded number of
  steps, for any number of threads, any programs and ANY schedule (spurious failures of the weak CAS included). No
  fairness notion is needed: the bounds are quantitative.

  What is counted. `Global.run` returns the trace of the atomic accesses it performed: a schedule entry `(tid, sp)`
  contributes an event iff thread `tid` exists and has not finished (`step_ev_some`, `tev_false_fin`). So the length
  of the trace is the number of steps granted to unfinished threads.

  Cost of the operations (read off `allocBytesC` / `bumpLoopC` / `deallocC` in `Model/Conc.lean`): an allocation is
  one load of the cursor, then the weak CAS; a failed CAS returns the current cursor, so a retry costs exactly one
  more access (no reload); if the request does not fit, one more load (`remaining()`). A release is one strong CAS and,
  if it fails, one `fetch_add`. Hence 2 accesses per operation plus one per failed weak CAS.

  Counting argument. A weak cursor CAS fails either spuriously or because the value the thread expects is not the
  current cursor ("the CAS is doomed", `stale`). After ANY failure the thread expects the value it has just observed
  — the current one. So a CAS of thread `t` can become doomed only through a change of the cursor by another thread,
  and each change dooms at most one CAS of every other thread. The cursor changes at most once per operation.

  Formalisation.
  * `PT F post m w f p` — the progress type of a thread program: step budget `m`, write budget `w`, failure allowance
    `f` (remaining loop fuel), plus the "has re-read the cursor" facts (`Exp`). `pt_noneProg` types every `noneProg`
    with `m = 2·|ops|`, `w = |ops|`.
  * `tstep_pt` / `gstep`: every `Global.step` of a typed thread is one of `StepCase`: no access / a progress step
    (`m` decreases; `w` decreases if the cursor changed; not doomed afterwards) / a failed weak CAS (was doomed, or the
    spurious flag hit; not doomed afterwards).
  * potentials: per thread `m_t + stale_t` (`thread_steps`), `Σ_{j≠t} w_j` for the interference (`interf_le`), and
    globally `Φ = Σ m + Σ stale + (T−1)·Σ w` (`total_steps`).
  * the loop fuel: `FI` — the allowance of every thread exceeds the number of failures that can still happen to it
    (`nodiv_run`), so `diverge` is unreachable when `fuel > N + #spurious flags`.

  * no panic: `NT cap post p`, a second (safety) type — on cursor values `≤ cap` nothing overflows and every zero-fill
    is in bounds — gives `none_no_trap` for a capacity below 2^32 and requests that `Fits`.

  Theorems: `none_steps_bounded`, `none_steps_bounded'`, `none_progress`, `none_real_steps_bounded` (global, L3; the
  last one in terms of `realSteps` = schedule entries granted to unfinished threads), `none_thread_steps` (per thread,
  L1+L2), `none_obstruction_free` / `none_solo_steps` (L1), `none_no_diverge` (no hang), `none_thread_finishes(_precise)`,
  `none_thread_returns`, `none_all_finish` (finished = returned or panicked, not hung), `none_no_trap`,
  `none_thread_returns_ok`, `none_all_return` (finished = `.ret r`), and at the end a concrete run with a failed and a
  spuriously failed CAS on which the per-thread bound is tight.
-/
import RarenaVerif.Proofs.ConcNone

namespace Rarena.Conc.NoneTerm

open Rarena Rarena.Conc Rarena.Conc.NoneFL

/-! ### heads of programs -/

/-- the expected value of the weak cursor CAS the program is about to execute (looking through the non-atomic
    effects that `settle` will run first) -/
def wcExp {α : Type} : Prog α → Option Nat
  | .cas .alloc e _ true _ _ => some e
  | .na _ k => wcExp (k ())
  | _ => none

/-- if the program is about to execute a weak cursor CAS, the value it expects is `o` -/
def Exp {α : Type} (o : Option Nat) (p : Prog α) : Prop := ∀ e, wcExp p = some e → o = some e

/-- 1 if the program is about to execute a weak cursor CAS whose expected value is not the current cursor `cur`
    (that CAS is doomed to fail), else 0 -/
def stale {α : Type} (cur : Nat) (p : Prog α) : Nat :=
  match wcExp p with
  | some e => if e = cur then 0 else 1
  | none => 0

/-- neither a weak cursor CAS nor a non-atomic effect at the head: the shape of a thread between two operations -/
def Calm {α : Type} : Prog α → Prop
  | .cas .alloc _ _ true _ _ => False
  | .na _ _ => False
  | _ => True

theorem calm_wcExp {α : Type} {p : Prog α} (h : Calm p) : wcExp p = none := by
  cases p with
  | cas l e n w s k =>
    cases l <;> cases w <;> first | rfl | exact h.elim
  | na e k => exact h.elim
  | _ => rfl

theorem calm_notNA {α : Type} {p : Prog α} (h : Calm p) : NotNA p := by
  cases p with
  | na e k => exact h.elim
  | _ => trivial

theorem exp_of_none {α : Type} {p : Prog α} (h : wcExp p = none) (o : Option Nat) : Exp o p := by
  intro e he; rw [h] at he; cases he


theorem wcExp_bind_cas {α β : Type} (l : ALoc) (e n : Nat) (w : Bool) (s : Site) (k : Nat × Bool → Prog α)
    (g : α → Prog β) : wcExp ((Prog.cas l e n w s k).bind g) = wcExp (Prog.cas l e n w s k) := by
  cases l <;> cases w <;> rfl

theorem exp_bind {α β : Type} {g : α → Prog β} (hc : ∀ a, Calm (g a)) :
    ∀ {p : Prog α} {o : Option Nat}, Exp o p → Exp o (p.bind g) := by
  intro p
  induction p with
  | ret a => intro o _; exact exp_of_none (calm_wcExp (hc a)) o
  | trap s => intro o h; exact h
  | diverge => intro o h; exact h
  | load l s k _ => intro o h; exact exp_of_none rfl o
  | store l v s k _ => intro o h; exact exp_of_none rfl o
  | cas l e n w s k _ =>
    intro o h e' he'
    rw [wcExp_bind_cas] at he'
    exact h e' he'
  | rmw l v sb s k _ => intro o h; exact exp_of_none rfl o
  | na e k ih =>
    intro o h
    exact ih () (o := o) h

theorem calm_bind {α β : Type} {g : α → Prog β} (hc : ∀ a, Calm (g a)) {p : Prog α} (h : Calm p) :
    Calm (p.bind g) := by
  cases p with
  | ret a => exact hc a
  | cas l e n w s k => cases l <;> cases w <;> first | trivial | exact h.elim
  | na e k => exact h.elim
  | _ => trivial

theorem notNA_bind {α β : Type} {g : α → Prog β} (hc : ∀ a, Calm (g a)) {p : Prog α} (h : NotNA p) :
    NotNA (p.bind g) := by
  cases p with
  | ret a => exact calm_notNA (hc a)
  | na e k => exact h.elim
  | _ => trivial

/-! ### the progress type of thread programs -/

/-- `PT F post m w f p`: the program `p`
    * performs at most `m` atomic accesses that are not failed weak cursor CASes (`m` is its step budget),
    * changes the cursor at most `w` times (`w` is its write budget),
    * can absorb `f` more failures of the weak cursor CAS it is retrying before its loop fuel is exhausted (a program
      that IS `diverge` has `f = 0`; every access other than a failed weak CAS resets the allowance to `F`, the loop
      fuel of the functions of `sync.rs`),
    * after a failed weak cursor CAS it has re-read the cursor: the CAS it retries expects the value the failed one
      observed; after a load of the cursor the CAS that follows expects the value read; no weak cursor CAS follows any
      other access directly,
    * never has two non-atomic effects in a row,
    and when it returns `a` with budgets `m'`, `w'` left, `post m' w' a` holds. -/
inductive PT {α : Type} (F : Nat) (post : Nat → Nat → α → Prop) : Nat → Nat → Nat → Prog α → Prop where
  | ret {m w f a} : post m w a → PT F post m w f (.ret a)
  | trap {m w f s} : PT F post m w f (.trap s)
  | diverge {m w} : PT F post m w 0 .diverge
  | load {m m' w f s k} : m' < m → (∀ v, PT F post m' w F (k v)) → (∀ v, Exp (some v) (k v)) →
      PT F post m w f (.load .alloc s k)
  /-- the weak cursor CAS of an allocation: a failure costs neither budget, but one unit of the allowance -/
  | casA {m m' w w' f e n s k} : m' < m → w' < w →
      (∀ obs, PT F post m w (f - 1) (k (obs, false))) → (∀ obs, Exp (some obs) (k (obs, false))) →
      PT F post m' w' F (k (e, true)) → Exp none (k (e, true)) →
      PT F post m w f (.cas .alloc e n true s k)
  /-- the strong cursor CAS of a release -/
  | casR {m m' w w' f e n s k} : m' < m → w' < w → (∀ r, PT F post m' w' F (k r)) → (∀ r, Exp none (k r)) →
      PT F post m w f (.cas .alloc e n false s k)
  | faa {m m' w f v s k} : m' < m → (∀ old, PT F post m' w F (k old)) → (∀ old, Exp none (k old)) →
      PT F post m w f (.rmw .disc v false s k)
  | na {m w f e k} : NotNA (k ()) → PT F post m w f (k ()) → PT F post m w f (.na e k)

theorem PT.bind {α β : Type} {F : Nat} {post : Nat → Nat → α → Prop} {post' : Nat → Nat → β → Prop}
    {m w f : Nat} {p : Prog α} {g : α → Prog β} (h : PT F post m w f p)
    (hg : ∀ m' w' f' a, post m' w' a → PT F post' m' w' f' (g a)) (hc : ∀ a, Calm (g a)) :
    PT F post' m w f (p.bind g) := by
  induction h with
  | ret h => exact hg _ _ _ _ h
  | trap => exact .trap
  | diverge => exact .diverge
  | load h1 _ h3 ih => exact .load h1 ih (fun v => exp_bind hc (h3 v))
  | casA h1 h2 _ h4 _ h6 ih1 ih2 => exact .casA h1 h2 ih1 (fun o => exp_bind hc (h4 o)) ih2 (exp_bind hc h6)
  | casR h1 h2 _ h4 ih => exact .casR h1 h2 ih (fun r => exp_bind hc (h4 r))
  | faa h1 _ h3 ih => exact .faa h1 ih (fun r => exp_bind hc (h3 r))
  | na hn _ ih => exact .na (notNA_bind hc hn) ih


/-! ### typing the functions of `sync.rs` (for `kind = none`, not read-only) -/

/-- a computation of the sequential model that does not run out of fuel (it may trap) -/
def NoDiv {α : Type} (x : M α) : Prop := x ≠ .error .diverge

theorem nodiv_pure {α : Type} (a : α) : NoDiv (pure a : M α) := by
  intro h; cases h

theorem nodiv_bind {α β : Type} {x : M α} {f : α → M β} (hx : NoDiv x) (hf : ∀ a, NoDiv (f a)) : NoDiv (x >>= f) := by
  rcases x with e | a
  · rcases e with s | _
    · intro h; cases h
    · exact absurd rfl hx
  · exact hf a

theorem nodiv_alignOffset (a x : Nat) : NoDiv (alignOffset a x) := by
  intro h
  unfold alignOffset at h
  split at h <;> cases h

theorem nodiv_addU32 (s : String) (a b : Nat) : NoDiv (addU32 s a b) := by
  intro h
  unfold addU32 at h
  split at h <;> cases h

theorem nodiv_subU (s : String) (a b : Nat) : NoDiv (subU s a b) := by
  intro h
  unfold subU at h
  split at h <;> cases h

/-- the cursor loop followed by its continuation: one step and one write are budgeted for the CAS that succeeds; if
    the request does not fit both budgets are handed on to `cont none` -/
theorem pt_bumpLoop {β : Type} (F : Nat) (post : Nat → Nat → β → Prop) (fn : String) (want : Nat → M (Option Nat))
    (hw : ∀ a, NoDiv (want a)) (cont : Option (Nat × Nat) → Prog β) (m w : Nat)
    (hnone : ∀ f, PT F post (m + 1) (w + 1) f (cont none)) (hnoneC : Calm (cont none))
    (hsome : ∀ x, PT F post m w F (cont (some x))) (hsomeE : ∀ x, Exp none (cont (some x))) :
    ∀ fuel a, PT F post (m + 1) (w + 1) fuel ((bumpLoopC fn want fuel a).bind cont) ∧
      Exp (some a) ((bumpLoopC fn want fuel a).bind cont)
  | 0, a => ⟨.diverge, exp_of_none rfl _⟩
  | f + 1, a => by
    unfold bumpLoopC
    rw [bind_eq]
    rcases hwa : want a with (s | _) | (_ | wnt)
    · exact ⟨.trap, exp_of_none rfl _⟩
    · exact absurd hwa (hw a)
    · exact ⟨hnone _, exp_of_none (calm_wcExp hnoneC) _⟩
    · simp only [liftM', bind_eq, casw, Prog.bind]
      refine ⟨.casA (Nat.lt_succ_self m) (Nat.lt_succ_self w) (fun obs => ?_) (fun obs => ?_) ?_ ?_, ?_⟩
      · exact (pt_bumpLoop F post fn want hw cont m w hnone hnoneC hsome hsomeE f obs).1
      · exact (pt_bumpLoop F post fn want hw cont m w hnone hnoneC hsome hsomeE f obs).2
      · exact hsome _
      · exact hsomeE _
      · intro e he
        cases he
        rfl


/-- with `Freelist::None` the retry loop is one load of the cursor (`remaining()`) -/
theorem retryLoop_none (c : Cfg) (hk : c.kind = .none) (size fuel : Nat) (post : Meta → M Meta) (n i : Nat) :
    retryLoopC c size fuel post (n + 1) i =
      .load .alloc ⟨"allocated", 0⟩ (fun _ => .ret (.error .insufficient)) := by
  unfold retryLoopC slowPathC
  rw [hk]
  simp only [remainingC, load, bind_eq, Prog.bind, pure_eq, if_true]


theorem nodiv_alignTo (m : Meta) (a size : Nat) : NoDiv (m.alignTo a size) := by
  unfold Meta.alignTo
  exact nodiv_bind (nodiv_alignOffset _ _) (fun _ => nodiv_pure _)

theorem nodiv_alignBytesTo (m : Meta) (a : Nat) : NoDiv (m.alignBytesTo a) := by
  unfold Meta.alignBytesTo
  exact nodiv_bind (nodiv_addU32 _ _ _) (fun _ => nodiv_bind (nodiv_alignOffset _ _)
    (fun _ => nodiv_bind (nodiv_subU _ _ _) (fun _ => nodiv_pure _)))

theorem pt_liftBind {α β : Type} {F : Nat} {post : Nat → Nat → β → Prop} {m w f : Nat} (x : M α) (hx : NoDiv x)
    (g : α → Prog β) (h : ∀ a, PT F post m w f (g a)) : PT F post m w f ((liftM' x).bind g) := by
  rcases x with (s | _) | a
  · exact .trap
  · exact absurd rfl hx
  · exact h a

theorem exp_liftBind {α β : Type} (x : M α) (g : α → Prog β) (o : Option Nat) (h : ∀ a, Exp o (g a)) :
    Exp o ((liftM' x).bind g) := by
  rcases x with (s | _) | a
  · exact exp_of_none rfl _
  · exact exp_of_none rfl _
  · exact h a

theorem calm_liftBind {α β : Type} (x : M α) (g : α → Prog β) (h : ∀ a, Calm (g a)) : Calm ((liftM' x).bind g) := by
  rcases x with (s | _) | a
  · trivial
  · trivial
  · exact h a

/-- what an operation leaves of the budgets -/
abbrev opPost {β : Type} (m w : Nat) : Nat → Nat → β → Prop := fun m' w' _ => m ≤ m' ∧ w ≤ w'

/-- "load the cursor and return": the tail of every allocation that does not fit -/
theorem pt_loadRet {β : Type} (F m w : Nat) (s : Site) (r : β) (f : Nat) :
    PT F (opPost m w) (m + 1) (w + 1) f (.load .alloc s (fun _ => .ret r)) :=
  .load (Nat.lt_succ_self m) (fun _ => .ret ⟨Nat.le_refl _, Nat.le_succ _⟩) (fun _ => exp_of_none rfl _)

/-- load the cursor, then the cursor loop, then `cont`: two steps and one write -/
theorem pt_loadLoop {β : Type} (F : Nat) (fn : String) (want : Nat → M (Option Nat))
    (hw : ∀ a, NoDiv (want a)) (cont : Option (Nat × Nat) → Prog β) (m w : Nat) (s : Site)
    (hnone : ∀ f, PT F (opPost m w) (m + 1) (w + 1) f (cont none)) (hnoneC : Calm (cont none))
    (hsome : ∀ x, PT F (opPost m w) m w F (cont (some x))) (hsomeE : ∀ x, Exp none (cont (some x))) (f : Nat) :
    PT F (opPost m w) (m + 2) (w + 1) f (.load .alloc s (fun a0 => (bumpLoopC fn want F a0).bind cont)) :=
  .load (Nat.lt_succ_self (m + 1))
    (fun a0 => (pt_bumpLoop F _ fn want hw cont m w hnone hnoneC hsome hsomeE F a0).1)
    (fun a0 => (pt_bumpLoop F _ fn want hw cont m w hnone hnoneC hsome hsomeE F a0).2)

theorem pt_allocBytes (c : Cfg) (hk : c.kind = .none) (hro : c.ro = false) (cap size fuel m w : Nat) :
    (∀ f, PT fuel (opPost m w) (m + 2) (w + 1) f (allocBytesC c cap size fuel)) ∧ Calm (allocBytesC c cap size fuel) := by
  unfold allocBytesC
  rw [hro]
  simp only [Bool.false_eq_true, if_false]
  split
  · exact ⟨fun f => .ret ⟨by omega, by omega⟩, trivial⟩
  · simp only [bind_eq, load, Prog.bind]
    refine ⟨fun f => pt_loadLoop fuel _ _ (fun a => nodiv_pure _) _ m w _ ?_ ?_ ?_ ?_ f, trivial⟩
    · intro f
      have h := retryLoop_none c hk size fuel pure 299 0
      dsimp only
      rw [h]
      exact pt_loadRet _ _ _ _ _ _
    · have h := retryLoop_none c hk size fuel pure 299 0
      dsimp only
      rw [h]
      trivial
    · rintro ⟨off, wnt⟩
      simp only [na, Prog.bind, pure_eq]
      exact .na trivial (.ret ⟨Nat.le_refl _, Nat.le_refl _⟩)
    · rintro ⟨off, wnt⟩
      exact exp_of_none rfl _


theorem pt_allocT (c : Cfg) (hk : c.kind = .none) (hro : c.ro = false) (cap tsize talign fuel m w : Nat) :
    (∀ f, PT fuel (opPost m w) (m + 2) (w + 1) f (allocTC c cap tsize talign fuel)) ∧
      Calm (allocTC c cap tsize talign fuel) := by
  unfold allocTC
  rw [hro]
  simp only [Bool.false_eq_true, if_false]
  split
  · exact ⟨fun f => .ret ⟨by omega, by omega⟩, trivial⟩
  · simp only [bind_eq, load, Prog.bind]
    refine ⟨fun f => pt_loadLoop fuel _ _ (fun a => ?_) _ m w _ ?_ ?_ ?_ ?_ f, trivial⟩
    · exact nodiv_bind (nodiv_alignOffset _ _) (fun _ => nodiv_bind (nodiv_addU32 _ _ _) (fun _ => nodiv_pure _))
    · intro f
      have h := retryLoop_none c hk (pad tsize talign) fuel (fun m => m.alignTo talign tsize) 299 0
      dsimp only
      rw [h]
      exact pt_loadRet _ _ _ _ _ _
    · have h := retryLoop_none c hk (pad tsize talign) fuel (fun m => m.alignTo talign tsize) 299 0
      dsimp only
      rw [h]
      trivial
    · rintro ⟨off, wnt⟩
      dsimp only
      refine pt_liftBind _ (nodiv_alignTo _ _ _) _ (fun mm => ?_)
      simp only [na, Prog.bind, pure_eq]
      exact .na trivial (.ret ⟨Nat.le_refl _, Nat.le_refl _⟩)
    · rintro ⟨off, wnt⟩
      dsimp only
      exact exp_liftBind _ _ _ (fun mm => exp_of_none rfl _)

theorem pt_allocAligned (c : Cfg) (hk : c.kind = .none) (hro : c.ro = false) (cap tsize talign extra fuel m w : Nat) :
    (∀ f, PT fuel (opPost m w) (m + 2) (w + 1) f (allocAlignedC c cap tsize talign extra fuel)) ∧
      Calm (allocAlignedC c cap tsize talign extra fuel) := by
  unfold allocAlignedC
  rw [hro]
  simp only [Bool.false_eq_true, if_false]
  split
  · exact pt_allocBytes c hk hro cap extra fuel m w
  · simp only [bind_eq, load, Prog.bind]
    have hnone : (∀ f, PT fuel (opPost m w) (m + 1) (w + 1) f
          (match checkedAddU32 (pad tsize talign) extra with
            | none => (do remainingC; pure (.error .insufficient) : Prog (Except Err (Option Meta)))
            | some padded => retryLoopC c padded fuel (fun m => m.alignBytesTo talign) 300 0)) ∧
        Calm (match checkedAddU32 (pad tsize talign) extra with
            | none => (do remainingC; pure (.error .insufficient) : Prog (Except Err (Option Meta)))
            | some padded => retryLoopC c padded fuel (fun m => m.alignBytesTo talign) 300 0) := by
      rcases checkedAddU32 (pad tsize talign) extra with _ | padded
      · simp only [remainingC, load, bind_eq, Prog.bind, pure_eq]
        exact ⟨fun f => pt_loadRet _ _ _ _ _ _, trivial⟩
      · have h := retryLoop_none c hk padded fuel (fun m => m.alignBytesTo talign) 299 0
        dsimp only
        rw [h]
        exact ⟨fun f => pt_loadRet _ _ _ _ _ _, trivial⟩
    refine ⟨fun f => pt_loadLoop fuel _ _ (fun a => ?_) _ m w _ hnone.1 hnone.2 ?_ ?_ f, trivial⟩
    · exact nodiv_bind (nodiv_alignOffset _ _) (fun _ => nodiv_bind (nodiv_addU32 _ _ _) (fun _ => nodiv_pure _))
    · rintro ⟨off, wnt⟩
      dsimp only
      exact pt_liftBind _ (nodiv_alignBytesTo _ _) _ (fun mm => .ret ⟨Nat.le_refl _, Nat.le_refl _⟩)
    · rintro ⟨off, wnt⟩
      dsimp only
      exact exp_liftBind _ _ _ (fun mm => exp_of_none rfl _)

/-- `Drop` of a handle: the strong cursor CAS and, if it fails, the `fetch_add` on `discarded` -/
theorem pt_dealloc (c : Cfg) (hk : c.kind = .none) (hro : c.ro = false) (off size fuel F m w : Nat) :
    (∀ f, PT F (opPost m w) (m + 2) (w + 1) f (deallocC c off size fuel)) ∧ Calm (deallocC c off size fuel) := by
  unfold deallocC
  rw [bind_eq]
  rcases hadd : addU32 "dealloc:offset+size" off size with (s | _) | top
  · exact ⟨fun f => .trap, trivial⟩
  · exact absurd hadd (nodiv_addU32 _ _ _)
  · simp only [liftM', bind_eq, cas, Prog.bind]
    refine ⟨fun f => .casR (Nat.lt_succ_self (m + 1)) (Nat.lt_succ_self w) (fun r => ?_) (fun r => ?_), trivial⟩
    · rcases r with ⟨obs, _ | _⟩
      · simp only [hk, incDiscardedC, hro, Bool.false_eq_true, if_false, bind_eq, faa, Prog.bind, pure_eq]
        exact .faa (Nat.lt_succ_self m) (fun _ => .ret ⟨Nat.le_refl _, Nat.le_refl _⟩) (fun _ => exp_of_none rfl _)
      · exact .ret ⟨Nat.le_succ _, Nat.le_refl _⟩
    · rcases r with ⟨obs, _ | _⟩
      · simp only [hk, incDiscardedC, hro, Bool.false_eq_true, if_false, bind_eq, faa, Prog.bind, pure_eq]
        exact exp_of_none rfl _
      · exact exp_of_none rfl _


/-- a thread program: two steps and one cursor write per operation; between two operations it is `Calm` -/
theorem pt_noneProg (c : Cfg) (hk : c.kind = .none) (hro : c.ro = false) (cap fuel : Nat) :
    ∀ (ops : List NOp) (held : List Meta) (m w : Nat), 2 * ops.length ≤ m → ops.length ≤ w →
      (∀ f, PT fuel (fun _ _ _ => True) m w f (noneProg c cap fuel ops held)) ∧ Calm (noneProg c cap fuel ops held)
  | [], held, m, w, _, _ => ⟨fun f => .ret trivial, trivial⟩
  | op :: rest, held, m, w, hm, hw => by
    simp only [List.length_cons] at hm hw
    obtain ⟨m0, rfl⟩ : ∃ m0, m = m0 + 2 := ⟨m - 2, by omega⟩
    obtain ⟨w0, rfl⟩ : ∃ w0, w = w0 + 1 := ⟨w - 1, by omega⟩
    have hcalm : ∀ held', Calm (noneProg c cap fuel rest held') := fun held' =>
      (pt_noneProg c hk hro cap fuel rest held' _ _ (Nat.le_refl _) (Nat.le_refl _)).2
    have hcont : ∀ held' m' w' f', opPost m0 w0 m' w' () → PT fuel (fun _ _ _ => True) m' w' f' (noneProg c cap fuel rest held') :=
      fun held' m' w' f' h => (pt_noneProg c hk hro cap fuel rest held' m' w' (by have := h.1; omega) (by have := h.2; omega)).1 f'
    cases op with
    | allocBytes n =>
      unfold noneProg
      rw [bind_eq]
      have ha := pt_allocBytes c hk hro cap n fuel m0 w0
      exact ⟨fun f => (ha.1 f).bind (fun m' w' f' r hr => hcont _ m' w' f' hr) (fun r => hcalm _),
        calm_bind (fun r => hcalm _) ha.2⟩
    | allocAligned ts ta ex =>
      unfold noneProg
      rw [bind_eq]
      have ha := pt_allocAligned c hk hro cap ts ta ex fuel m0 w0
      exact ⟨fun f => (ha.1 f).bind (fun m' w' f' r hr => hcont _ m' w' f' hr) (fun r => hcalm _),
        calm_bind (fun r => hcalm _) ha.2⟩
    | allocT ts ta =>
      unfold noneProg
      rw [bind_eq]
      have ha := pt_allocT c hk hro cap ts ta fuel m0 w0
      exact ⟨fun f => (ha.1 f).bind (fun m' w' f' r hr => hcont _ m' w' f' hr) (fun r => hcalm _),
        calm_bind (fun r => hcalm _) ha.2⟩
    | release i =>
      unfold noneProg
      rcases held[i]? with _ | mm
      · exact pt_noneProg c hk hro cap fuel rest held _ _ (by omega) (by omega)
      · dsimp only
        rw [bind_eq]
        have ha := pt_dealloc c hk hro mm.memOff mm.memSize fuel fuel m0 w0
        exact ⟨fun f => (ha.1 f).bind (fun m' w' f' r hr => hcont _ m' w' f' hr) (fun r => hcalm _),
          calm_bind (fun r => hcalm _) ha.2⟩


/-! ### one thread step -/

theorem applyNA_nodiv (sh : Shared) (e : NA) : sh.applyNA e ≠ .error .diverge := by
  intro h
  cases e with
  | zero off len =>
    simp only [Shared.applyNA, bind, Except.bind, pure, Except.pure] at h
    split at h
    · rename_i e' hz
      cases h
      unfold Mem.zero? at hz
      split at hz <;> cases hz
    · cases h
  | fill off len b => simp only [Shared.applyNA, pure, Except.pure] at h; cases h
  | verify off len => simp only [Shared.applyNA, pure, Except.pure] at h; cases h
  | unmount => simp only [Shared.applyNA, pure, Except.pure] at h; cases h

theorem settle_na_eq {α : Type} (n : Nat) (sh : Shared) (e : NA) (k : Unit → Prog α) (nas : List NA) :
    settle (n + 1) sh (.na e k) nas =
      match sh.applyNA e with
      | .ok sh' => settle n sh' (k ()) (nas ++ [e])
      | .error f => (sh, .failed f, nas) := rfl

theorem settle_notNA {α : Type} (n : Nat) (sh : Shared) (q : Prog α) (nas : List NA) (h : NotNA q) :
    (settle (n + 1) sh q nas).1 = sh ∧ (settle (n + 1) sh q nas).2.1.toProg = q := by
  cases q <;> first | exact h.elim | exact ⟨rfl, rfl⟩

theorem exp_none_mono {α : Type} {p : Prog α} (h : Exp none p) (o : Option Nat) : Exp o p := by
  intro e he
  have := h e he
  cases this

theorem stale_of_exp {α : Type} {p : Prog α} {cur : Nat} (h : Exp (some cur) p) : stale cur p = 0 := by
  unfold stale
  split
  · rename_i e he
    have := h e he
    simp only [Option.some.injEq] at this
    rw [if_pos this.symm]
  · rfl

theorem stale_le_one {α : Type} (cur : Nat) (p : Prog α) : stale cur p ≤ 1 := by
  unfold stale
  split
  · split <;> omega
  · omega

theorem stale_mono {α : Type} {p q : Prog α} (cur : Nat) (h : ∀ e, wcExp q = some e → wcExp p = some e) :
    stale cur q ≤ stale cur p := by
  unfold stale
  rcases hq : wcExp q with _ | e
  · exact Nat.zero_le _
  · rw [h e hq]
    exact Nat.le_refl _

theorem exp_mono {α : Type} {p q : Prog α} {o : Option Nat} (h : ∀ e, wcExp q = some e → wcExp p = some e)
    (hp : Exp o p) : Exp o q := fun e he => hp e (h e he)

/-- settling a typed program (fuel at least 2) keeps its type, does not touch the cursor, and the settled program is
    about to execute a weak cursor CAS only if the program was -/
theorem settle_pt {α : Type} {F : Nat} {post : Nat → Nat → α → Prop} {m w f : Nat} (n : Nat) (sh : Shared)
    {p : Prog α} (nas : List NA) (h : PT F post m w f p) :
    PT F post m w f (settle (n + 2) sh p nas).2.1.toProg ∧
    (settle (n + 2) sh p nas).1.st.allocated = sh.st.allocated ∧
    (∀ e, wcExp (settle (n + 2) sh p nas).2.1.toProg = some e → wcExp p = some e) := by
  have hnot : ∀ q : Prog α, NotNA q → PT F post m w f q →
      PT F post m w f (settle (n + 2) sh q nas).2.1.toProg ∧
      (settle (n + 2) sh q nas).1.st.allocated = sh.st.allocated ∧
      (∀ e, wcExp (settle (n + 2) sh q nas).2.1.toProg = some e → wcExp q = some e) := by
    intro q hq hpt
    obtain ⟨h1, h2⟩ := settle_notNA (n + 1) sh q nas hq
    rw [h1, h2]
    exact ⟨hpt, rfl, fun e he => he⟩
  cases h with
  | @na _ _ _ e k hn h' =>
    rw [settle_na_eq]
    rcases ha : sh.applyNA e with fl | sh'
    · rcases fl with s | _
      · exact ⟨.trap, rfl, fun e he => by cases he⟩
      · exact absurd ha (applyNA_nodiv sh e)
    · dsimp only
      obtain ⟨h1, h2⟩ := settle_notNA n sh' (k ()) (nas ++ [e]) hn
      rw [h1, h2]
      exact ⟨h', (applyNA_frame2 sh sh' e ha).1, fun e he => he⟩
  | ret hp => exact hnot _ trivial (.ret hp)
  | trap => exact hnot _ trivial .trap
  | diverge => exact hnot _ trivial .diverge
  | load h1 h2 h3 => exact hnot _ trivial (.load h1 h2 h3)
  | casA h1 h2 h3 h4 h5 h6 => exact hnot _ trivial (.casA h1 h2 h3 h4 h5 h6)
  | casR h1 h2 h3 h4 => exact hnot _ trivial (.casR h1 h2 h3 h4)
  | faa h1 h2 h3 => exact hnot _ trivial (.faa h1 h2 h3)


/-- the head is a weak CAS (the only access a spurious failure can hit) -/
def isWC {α : Type} : Prog α → Bool
  | .cas _ _ _ true _ _ => true
  | _ => false

theorem stepAccess_nodiv {α : Type} {F : Nat} {post : Nat → Nat → α → Prop} {m w f : Nat} {p : Prog α}
    (h : PT F post m w f p) (sh : Shared) (sp : Bool) : stepAccess sh p sp ≠ .error .diverge := by
  intro hd
  cases h with
  | ret _ => simp [stepAccess, throw, throwThe, MonadExceptOf.throw] at hd
  | trap => simp [stepAccess, throw, throwThe, MonadExceptOf.throw] at hd
  | diverge => simp [stepAccess, throw, throwThe, MonadExceptOf.throw] at hd
  | na _ _ => simp [stepAccess, throw, throwThe, MonadExceptOf.throw] at hd
  | load _ _ _ => simp [stepAccess, Shared.read, bind, Except.bind, pure, Except.pure] at hd
  | casA _ _ _ _ _ _ =>
    simp only [stepAccess, Shared.read, Shared.write, bind, Except.bind, pure, Except.pure] at hd
    split at hd
    · cases hd
    · split at hd <;> cases hd
  | casR _ _ _ _ =>
    simp only [stepAccess, Shared.read, Shared.write, bind, Except.bind, pure, Except.pure] at hd
    split at hd
    · cases hd
    · split at hd <;> cases hd
  | faa _ _ _ => simp [stepAccess, Shared.read, Shared.write, bind, Except.bind, pure, Except.pure] at hd

/-- one atomic access of a typed program: either a "progress step" (the step budget decreases, the write budget
    decreases if the cursor changed, the allowance is reset, and the program is not about to execute a stale weak
    cursor CAS), or a failed weak cursor CAS (nothing changes but the allowance; the program has re-read the cursor;
    the CAS was stale, or the failure was spurious) -/
theorem stepAccess_pt {α : Type} {F : Nat} {post : Nat → Nat → α → Prop} {m w f : Nat} {p p2 : Prog α}
    {sh sh2 : Shared} {sp : Bool} {ev : Event} (h : PT F post m w f p) (hs : stepAccess sh p sp = .ok (sh2, p2, ev)) :
    ∃ m' w' f', PT F post m' w' f' p2 ∧ Exp (some sh2.st.allocated) p2 ∧
      ((m' < m ∧ w' ≤ w ∧ (sh2.st.allocated ≠ sh.st.allocated → w' < w) ∧ f' = F) ∨
       (sh2.st.allocated = sh.st.allocated ∧ m' = m ∧ w' = w ∧ f' = f - 1 ∧
         (stale sh.st.allocated p = 1 ∨ (sp && isWC p) = true))) := by
  cases h with
  | ret _ => simp [stepAccess, throw, throwThe, MonadExceptOf.throw] at hs
  | trap => simp [stepAccess, throw, throwThe, MonadExceptOf.throw] at hs
  | diverge => simp [stepAccess, throw, throwThe, MonadExceptOf.throw] at hs
  | na _ _ => simp [stepAccess, throw, throwThe, MonadExceptOf.throw] at hs
  | @load _ m' _ _ s k h1 h2 h3 =>
    simp only [stepAccess, Shared.read, bind, Except.bind, pure, Except.pure] at hs
    cases hs
    exact ⟨m', w, F, h2 _, h3 _, .inl ⟨h1, Nat.le_refl _, fun hne => absurd rfl hne, rfl⟩⟩
  | @casA _ m' _ w' _ e n s k h1 h2 h3 h4 h5 h6 =>
    simp only [stepAccess, Shared.read, bind, Except.bind, pure, Except.pure] at hs
    split at hs
    · rename_i hsp
      cases hs
      refine ⟨m, w, f - 1, h3 _, h4 _, .inr ⟨rfl, rfl, rfl, rfl, .inr ?_⟩⟩
      simp only [isWC, hsp.2, Bool.and_self]
    · split at hs
      · rename_i he
        simp only [Shared.write, pure, Except.pure] at hs
        cases hs
        subst he
        exact ⟨m', w', F, h5, exp_none_mono h6 _, .inl ⟨h1, Nat.le_of_lt h2, fun _ => h2, rfl⟩⟩
      · rename_i hne
        cases hs
        refine ⟨m, w, f - 1, h3 _, h4 _, .inr ⟨rfl, rfl, rfl, rfl, .inl ?_⟩⟩
        simp only [stale, wcExp]
        rw [if_neg (fun h => hne h.symm)]
  | @casR _ m' _ w' _ e n s k h1 h2 h3 h4 =>
    simp only [stepAccess, Shared.read, bind, Except.bind, pure, Except.pure] at hs
    split at hs
    · rename_i hsp
      exact absurd hsp.1 (by decide)
    · split at hs
      · simp only [Shared.write, pure, Except.pure] at hs
        cases hs
        exact ⟨m', w', F, h3 _, exp_none_mono (h4 _) _, .inl ⟨h1, Nat.le_of_lt h2, fun _ => h2, rfl⟩⟩
      · cases hs
        exact ⟨m', w', F, h3 _, exp_none_mono (h4 _) _, .inl ⟨h1, Nat.le_of_lt h2, fun _ => h2, rfl⟩⟩
  | @faa _ m' _ _ v s k h1 h2 h3 =>
    simp only [stepAccess, Shared.read, Shared.write, bind, Except.bind, pure, Except.pure] at hs
    cases hs
    exact ⟨m', w, F, h2 _, exp_none_mono (h3 _) _, .inl ⟨h1, Nat.le_refl _, fun hne => absurd rfl hne, rfl⟩⟩


/-- does `Global.step` perform an atomic access for this thread (does it return an event) -/
def tev {α : Type} (sh : Shared) (p : Prog α) (sp : Bool) : Bool :=
  match settle 100000 sh p [] with
  | (sh1, .blocked p1, _) =>
    match stepAccess sh1 p1 sp with
    | .ok _ => true
    | .error _ => false
  | _ => false

/-- is the spurious-failure flag set AND does the step execute a weak CAS (the only access the flag affects) -/
def thit {α : Type} (sh : Shared) (p : Prog α) (sp : Bool) : Bool :=
  sp && isWC (settle 100000 sh p []).2.1.toProg

/-- the three kinds of steps of a typed thread: no access / a progress step / a failed weak cursor CAS.
    `m w f st` are the budgets, the allowance and the staleness before, the primed ones after the step. -/
def StepCase (F cur cur' : Nat) (ev hit : Bool) (m w f st m' w' f' st' : Nat) : Prop :=
  (ev = false ∧ cur' = cur ∧ m' = m ∧ w' = w ∧ f' = f ∧ st' ≤ st) ∨
  (ev = true ∧ m' < m ∧ w' ≤ w ∧ (cur' ≠ cur → w' < w) ∧ st' = 0 ∧ f' = F) ∨
  (ev = true ∧ cur' = cur ∧ m' = m ∧ w' = w ∧ st' = 0 ∧ f' = f - 1 ∧ (st = 1 ∨ hit = true))

theorem fuel_eq2 : (100000 : Nat) = 99998 + 2 := rfl

theorem tstep_pt {α : Type} {F : Nat} {post : Nat → Nat → α → Prop} {m w f : Nat} {p : Prog α}
    (h : PT F post m w f p) (sh : Shared) (sp : Bool) :
    ∃ m' w' f', PT F post m' w' f' (tstep sh p sp).2 ∧
      StepCase F sh.st.allocated (tstep sh p sp).1.st.allocated (tev sh p sp) (thit sh p sp)
        m w f (stale sh.st.allocated p) m' w' f' (stale (tstep sh p sp).1.st.allocated (tstep sh p sp).2) := by
  unfold tstep tev thit
  rw [fuel_eq2]
  obtain ⟨a1, a2, a3⟩ := settle_pt 99998 sh [] h
  rcases hs : settle (99998 + 2) sh p [] with ⟨sh1, s, n1⟩
  rw [hs] at a1 a2 a3
  dsimp only at a1 a2 a3 ⊢
  have hN : ∀ q : Prog α, PT F post m w f q → (∀ e, wcExp q = some e → wcExp p = some e) →
      ∃ m' w' f', PT F post m' w' f' q ∧
        StepCase F sh.st.allocated sh1.st.allocated false (sp && isWC s.toProg)
          m w f (stale sh.st.allocated p) m' w' f' (stale sh1.st.allocated q) := by
    intro q hq hsub
    refine ⟨m, w, f, hq, .inl ⟨rfl, a2, rfl, rfl, rfl, ?_⟩⟩
    rw [a2]
    exact stale_mono _ hsub
  rcases s with a | fl | p1
  · exact hN _ a1 a3
  · exact hN _ a1 a3
  · dsimp only [Settled.toProg] at a1 a3 ⊢
    rcases ha : stepAccess sh1 p1 sp with (s | _) | ⟨sh2, p2, ev⟩
    · exact hN _ .trap (fun e he => by cases he)
    · exact absurd ha (stepAccess_nodiv a1 sh1 sp)
    · dsimp only
      obtain ⟨m', w', f', b1, b2, b3⟩ := stepAccess_pt a1 ha
      obtain ⟨c1, c2, c3⟩ := settle_pt 99998 sh2 [] b1
      rcases hs2 : settle (99998 + 2) sh2 p2 [] with ⟨sh3, s3, n3⟩
      rw [hs2] at c1 c2 c3
      dsimp only at c1 c2 c3 ⊢
      have hst : stale sh3.st.allocated s3.toProg = 0 := by
        rw [c2]
        exact stale_of_exp (exp_mono c3 b2)
      refine ⟨m', w', f', c1, ?_⟩
      rw [c2]
      rw [c2] at hst
      rcases b3 with ⟨d1, d2, d3, d4⟩ | ⟨d1, d2, d3, d4, d5⟩
      · exact .inr (.inl ⟨rfl, d1, d2, (by rw [← a2]; exact d3), hst, d4⟩)
      · refine .inr (.inr ⟨rfl, d1.trans a2, d2, d3, hst, d4, ?_⟩)
        rcases d5 with d5 | d5
        · left
          have h1 := stale_mono sh.st.allocated a3
          have h2 := stale_le_one sh.st.allocated p
          rw [a2] at d5
          omega
        · right
          exact d5


/-! ### all threads -/

theorem step_ev_none {α : Type} (g : Global α) (tid : Nat) (sp : Bool) (h : g.threads[tid]? = none) :
    (g.step tid sp).2 = none := by
  unfold Global.step
  simp only [h]

theorem step_ev_some {α : Type} (g : Global α) (tid : Nat) (sp : Bool) (p : Prog α) (h : g.threads[tid]? = some p) :
    (g.step tid sp).2.isSome = tev g.sh p sp := by
  unfold Global.step tev
  simp only [h]
  rcases hs : settle 100000 g.sh p [] with ⟨sh1, s, nas⟩
  rcases s with a | (s | _) | p1 <;> simp only []
  · rfl
  · rfl
  · rfl
  rcases ha : stepAccess sh1 p1 sp with (s | _) | ⟨sh2, p2, e⟩ <;> simp only []
  · rfl
  · rfl
  rcases hs2 : settle 100000 sh2 p2 [] with ⟨sh3, s, nas⟩
  rcases s with a | (s | _) | p3 <;> rfl

theorem run_cons {α : Type} (g : Global α) (tid : Nat) (sp : Bool) (rest : List (Nat × Bool)) :
    (g.run ((tid, sp) :: rest)).1 = ((g.step tid sp).1.run rest).1 ∧
    (g.run ((tid, sp) :: rest)).2 =
      (match (g.step tid sp).2 with | some e => [(tid, e)] | none => []) ++ ((g.step tid sp).1.run rest).2 := by
  simp only [Global.run]
  rcases (g.step tid sp).2 with _ | e <;> exact ⟨trivial, rfl⟩

/-- ghost state of a thread: step budget, write budget, allowance -/
structure Tk where
  m : Nat
  w : Nat
  f : Nat

abbrev Typed {α : Type} (F : Nat) (γ : Tk) (p : Prog α) : Prop := PT F (fun _ _ _ => True) γ.m γ.w γ.f p

/-- every thread is typed by its ghost state -/
def TInv {α : Type} (F : Nat) (g : Global α) (ghs : List Tk) : Prop := All2 (Typed F) ghs g.threads

/-- the spurious-failure flag of the step `(tid, sp)` is set and hits a weak CAS -/
def ghit {α : Type} (g : Global α) (tid : Nat) (sp : Bool) : Bool :=
  match g.threads[tid]? with
  | none => false
  | some p => thit g.sh p sp

theorem ghit_sp {α : Type} (g : Global α) (tid : Nat) (sp : Bool) (h : ghit g tid sp = true) : sp = true := by
  unfold ghit at h
  split at h
  · cases h
  · unfold thit at h
    simp only [Bool.and_eq_true] at h
    exact h.1

/-- one `Global.step` of a typed state -/
theorem gstep {α : Type} {F : Nat} {g : Global α} {ghs : List Tk} (h : TInv F g ghs) (tid : Nat) (sp : Bool)
    (p : Prog α) (hp : g.threads[tid]? = some p) :
    ∃ γ γ', ghs[tid]? = some γ ∧ TInv F (g.step tid sp).1 (ghs.set tid γ') ∧
      (g.step tid sp).1.threads = g.threads.set tid (tstep g.sh p sp).2 ∧
      StepCase F g.sh.st.allocated (g.step tid sp).1.sh.st.allocated (g.step tid sp).2.isSome (ghit g tid sp)
        γ.m γ.w γ.f (stale g.sh.st.allocated p) γ'.m γ'.w γ'.f
        (stale (g.step tid sp).1.sh.st.allocated (tstep g.sh p sp).2) := by
  obtain ⟨γ, hγ, hR⟩ := All2.get h hp
  obtain ⟨m', w', f', h1, h2⟩ := tstep_pt hR g.sh sp
  have hhit : ghit g tid sp = thit g.sh p sp := by unfold ghit; rw [hp]
  rw [step_ev_some g tid sp p hp, step_some g tid sp p hp, hhit]
  exact ⟨γ, ⟨m', w', f'⟩, hγ, All2.set h h1 tid, rfl, h2⟩


/-! ### counting -/

/-- number of atomic accesses performed by thread `t` in a trace -/
def evc (t : Nat) (es : List (Nat × Event)) : Nat := (es.filter (fun x => x.1 == t)).length

/-- number of steps of the run in which a thread OTHER than `t` changes the cursor -/
def interf {α : Type} (t : Nat) : Global α → List (Nat × Bool) → Nat
  | _, [] => 0
  | g, (tid, sp) :: rest =>
    (if tid ≠ t ∧ (g.step tid sp).1.sh.st.allocated ≠ g.sh.st.allocated then 1 else 0) + interf t (g.step tid sp).1 rest

/-- number of spurious failures suffered by thread `t` in the run (flag set and a weak CAS executed) -/
def hitsOf {α : Type} (t : Nat) : Global α → List (Nat × Bool) → Nat
  | _, [] => 0
  | g, (tid, sp) :: rest => (if tid = t ∧ ghit g tid sp = true then 1 else 0) + hitsOf t (g.step tid sp).1 rest

/-- number of spurious failures in the run -/
def hits {α : Type} : Global α → List (Nat × Bool) → Nat
  | _, [] => 0
  | g, (tid, sp) :: rest => (if ghit g tid sp = true then 1 else 0) + hits (g.step tid sp).1 rest

/-- number of schedule entries whose spurious-failure flag is set -/
def spc (sched : List (Nat × Bool)) : Nat := (sched.filter (fun x => x.2)).length

/-- number of schedule entries that grant a step to thread `t` -/
def grants (t : Nat) (sched : List (Nat × Bool)) : Nat := (sched.filter (fun x => x.1 == t)).length

theorem evc_run_cons {α : Type} (t : Nat) (g : Global α) (tid : Nat) (sp : Bool) (rest : List (Nat × Bool)) :
    evc t (g.run ((tid, sp) :: rest)).2 =
      (if tid = t ∧ (g.step tid sp).2.isSome = true then 1 else 0) + evc t ((g.step tid sp).1.run rest).2 := by
  rw [(run_cons g tid sp rest).2]
  unfold evc
  rw [List.filter_append, List.length_append]
  congr 1
  rcases (g.step tid sp).2 with _ | e
  · simp
  · by_cases h : tid = t
    · simp [h]
    · simp [h]

theorem getElem?_lt {β : Type} {l : List β} {i : Nat} {a : β} (h : l[i]? = some a) : i < l.length := by
  rcases Nat.lt_or_ge i l.length with h' | h'
  · exact h'
  · rw [List.getElem?_eq_none h'] at h; cases h

theorem stale_shift {α : Type} (cur cur' : Nat) (p : Prog α) :
    stale cur' p ≤ stale cur p + (if cur' ≠ cur then 1 else 0) := by
  by_cases h : cur' = cur
  · subst h; simp
  · have := stale_le_one cur' p
    rw [if_pos h]; omega

/-- (L1 + L2) the number of atomic accesses thread `t` performs in ANY run is at most its step budget (2 per
    operation), plus 1 if it is about to execute a doomed CAS, plus the number of times another thread changes the
    cursor during the run, plus the number of spurious failures it suffers -/
theorem thread_steps {α : Type} {F : Nat} (t : Nat) :
    ∀ (sched : List (Nat × Bool)) (g : Global α) (ghs : List Tk), TInv F g ghs →
      ∀ γ p, ghs[t]? = some γ → g.threads[t]? = some p →
        evc t (g.run sched).2 ≤ γ.m + stale g.sh.st.allocated p + interf t g sched + hitsOf t g sched
  | [], g, ghs, _, γ, p, _, _ => Nat.zero_le _
  | (tid, sp) :: rest, g, ghs, h, γ, p, hγ, hp => by
    rw [evc_run_cons]
    simp only [interf, hitsOf]
    rcases hq : g.threads[tid]? with _ | q
    · have e1 := step_none g tid sp hq
      have e2 := step_ev_none g tid sp hq
      have IH := thread_steps t rest g ghs h γ p hγ hp
      rw [e1, e2]
      simp only [Option.isSome_none, Bool.false_eq_true, and_false, if_false, ne_eq, not_true, Nat.zero_add]
      omega
    · obtain ⟨γq, γq', hγq, hinv, hth, hcase⟩ := gstep h tid sp q hq
      by_cases htid : tid = t
      · subst htid
        rw [hp] at hq; cases hq
        rw [hγ] at hγq; cases hγq
        have IH := thread_steps tid rest _ _ hinv γq' (tstep g.sh p sp).2
          (List.getElem?_set_self (getElem?_lt hγ)) (by rw [hth]; exact List.getElem?_set_self (getElem?_lt hp))
        simp only [ne_eq, not_true, false_and, if_false, true_and, Nat.zero_add]
        unfold StepCase at hcase
        generalize (g.step tid sp).1.sh.st.allocated = cur' at *
        generalize (g.step tid sp).2.isSome = ev at *
        generalize ghit g tid sp = ht at *
        rcases hcase with ⟨c1, c2, c3, c4, c5, c6⟩ | ⟨c1, c2, c3, c4, c5, c6⟩ | ⟨c1, c2, c3, c4, c5, c6, c7⟩
        · subst c1 c2
          simp only [Bool.false_eq_true, if_false]
          split <;> omega
        · subst c1
          simp only [if_true]
          split <;> omega
        · subst c1
          simp only [if_true]
          rcases c7 with c7 | c7
          · split <;> omega
          · rw [if_pos c7]; omega
      · have IH := thread_steps t rest _ _ hinv γ p
          (by rw [List.getElem?_set_ne htid]; exact hγ) (by rw [hth, List.getElem?_set_ne htid]; exact hp)
        have hsh := stale_shift g.sh.st.allocated (g.step tid sp).1.sh.st.allocated p
        simp only [htid, false_and, if_false, ne_eq, not_false_eq_true, true_and, Nat.zero_add]
        simp only [ne_eq] at hsh
        omega


theorem sum_set' {β : Type} (f : β → Nat) : ∀ (l : List β) (i : Nat) (a : β), l[i]? = some a →
    ∀ b, ((l.set i b).map f).sum + f a = (l.map f).sum + f b
  | [], i, a, h => by simp at h
  | x :: l, 0, a, h => by
    simp only [List.getElem?_cons_zero, Option.some.injEq] at h
    subst h
    intro b
    simp only [List.set_cons_zero, List.map_cons, List.sum_cons]
    omega
  | x :: l, i + 1, a, h => by
    simp only [List.getElem?_cons_succ] at h
    intro b
    have := sum_set' f l i a h b
    simp only [List.set_cons_succ, List.map_cons, List.sum_cons]
    omega

/-- total write budget -/
def Wsum (ghs : List Tk) : Nat := (ghs.map Tk.w).sum

/-- total step budget -/
def Msum (ghs : List Tk) : Nat := (ghs.map Tk.m).sum

/-- write budget of the threads other than `t` -/
def Wx (t : Nat) (ghs : List Tk) : Nat := Wsum (ghs.set t ⟨0, 0, 0⟩)

theorem Wx_set_self (t : Nat) (ghs : List Tk) (γ : Tk) : Wx t (ghs.set t γ) = Wx t ghs := by
  unfold Wx
  rw [List.set_set]

theorem Wx_set_ne {t j : Nat} (hne : j ≠ t) (ghs : List Tk) (γ γ' : Tk) (hγ : ghs[j]? = some γ) :
    Wx t (ghs.set j γ') + γ.w = Wx t ghs + γ'.w := by
  unfold Wx Wsum
  rw [List.set_comm _ _ hne]
  exact sum_set' Tk.w _ j γ (by rw [List.getElem?_set_ne (Ne.symm hne)]; exact hγ) γ'

theorem Wx_le (t : Nat) (ghs : List Tk) : Wx t ghs ≤ Wsum ghs := by
  unfold Wx Wsum
  rcases h : ghs[t]? with _ | γ
  · rw [List.set_eq_of_length_le]
    · exact Nat.le_refl _
    · rcases Nat.lt_or_ge t ghs.length with h' | h'
      · rw [List.getElem?_eq_getElem h'] at h; cases h
      · exact h'
  · have := sum_set' Tk.w ghs t γ h ⟨0, 0, 0⟩
    dsimp only at this
    omega

theorem Wx_add (t : Nat) (ghs : List Tk) (γ : Tk) (h : ghs[t]? = some γ) : Wx t ghs + γ.w = Wsum ghs := by
  unfold Wx Wsum
  have := sum_set' Tk.w ghs t γ h ⟨0, 0, 0⟩
  dsimp only at this
  omega

/-- the other threads change the cursor at most as often as their write budgets allow (once per operation) -/
theorem interf_le {α : Type} {F : Nat} (t : Nat) :
    ∀ (sched : List (Nat × Bool)) (g : Global α) (ghs : List Tk), TInv F g ghs → interf t g sched ≤ Wx t ghs
  | [], _, _, _ => Nat.zero_le _
  | (tid, sp) :: rest, g, ghs, h => by
    simp only [interf]
    rcases hq : g.threads[tid]? with _ | q
    · have e1 := step_none g tid sp hq
      have IH := interf_le t rest g ghs h
      rw [e1]
      simp only [ne_eq, not_true, and_false, if_false, Nat.zero_add]
      exact IH
    · obtain ⟨γq, γq', hγq, hinv, hth, hcase⟩ := gstep h tid sp q hq
      have IH := interf_le t rest _ _ hinv
      by_cases htid : tid = t
      · subst htid
        rw [Wx_set_self] at IH
        simp only [ne_eq, not_true, false_and, if_false, Nat.zero_add]
        exact IH
      · have hW := Wx_set_ne htid ghs γq γq' hγq
        unfold StepCase at hcase
        generalize (g.step tid sp).1.sh.st.allocated = cur' at *
        simp only [ne_eq, htid, not_false_eq_true, true_and]
        rcases hcase with ⟨c1, c2, c3, c4, c5, c6⟩ | ⟨c1, c2, c3, c4, c5, c6⟩ | ⟨c1, c2, c3, c4, c5, c6, c7⟩
        · rw [if_neg (by simp [c2])]; omega
        · split
          · rename_i hne
            have := c4 hne
            omega
          · omega
        · rw [if_neg (by simp [c2])]; omega


/-- number of threads that are about to execute a doomed weak cursor CAS -/
def Ssum {α : Type} (cur : Nat) (l : List (Prog α)) : Nat := (l.map (stale cur)).sum

theorem ssum_shift {α : Type} (cur cur' : Nat) : ∀ l : List (Prog α), Ssum cur' l ≤ Ssum cur l + l.length
  | [] => Nat.le_refl _
  | x :: l => by
    have h1 := ssum_shift cur cur' l
    have h2 := stale_le_one cur' x
    simp only [Ssum, List.map_cons, List.sum_cons, List.length_cons] at h1 ⊢
    omega

theorem ssum_set_bound {α : Type} (cur cur' : Nat) (p' : Prog α) : ∀ (l : List (Prog α)) (i : Nat) (q : Prog α),
    l[i]? = some q → Ssum cur' (l.set i p') + stale cur q ≤ Ssum cur l + stale cur' p' + (l.length - 1)
  | [], i, q, h => by simp at h
  | x :: l, 0, q, h => by
    simp only [List.getElem?_cons_zero, Option.some.injEq] at h
    subst h
    have h1 := ssum_shift cur cur' l
    simp only [Ssum, List.set_cons_zero, List.map_cons, List.sum_cons, List.length_cons] at h1 ⊢
    omega
  | x :: l, i + 1, q, h => by
    simp only [List.getElem?_cons_succ] at h
    have h1 := ssum_set_bound cur cur' p' l i q h
    have h2 := stale_le_one cur' x
    have h3 := getElem?_lt h
    simp only [Ssum, List.set_cons_succ, List.map_cons, List.sum_cons, List.length_cons] at h1 ⊢
    omega

/-- the potential: remaining step budgets, plus the doomed CASes, plus (number of threads − 1) × remaining write
    budgets (each change of the cursor dooms at most one CAS of every other thread) -/
def Phi {α : Type} (g : Global α) (ghs : List Tk) : Nat :=
  Msum ghs + Ssum g.sh.st.allocated g.threads + (ghs.length - 1) * Wsum ghs

theorem len_run_cons {α : Type} (g : Global α) (tid : Nat) (sp : Bool) (rest : List (Nat × Bool)) :
    (g.run ((tid, sp) :: rest)).2.length =
      (if (g.step tid sp).2.isSome = true then 1 else 0) + ((g.step tid sp).1.run rest).2.length := by
  rw [(run_cons g tid sp rest).2, List.length_append]
  congr 1
  rcases (g.step tid sp).2 with _ | e <;> simp

/-- (L3) every atomic access of the run decreases the potential, except the spurious failures -/
theorem total_steps {α : Type} {F : Nat} :
    ∀ (sched : List (Nat × Bool)) (g : Global α) (ghs : List Tk), TInv F g ghs →
      (g.run sched).2.length ≤ Phi g ghs + hits g sched
  | [], _, _, _ => Nat.zero_le _
  | (tid, sp) :: rest, g, ghs, h => by
    rw [len_run_cons]
    simp only [hits]
    rcases hq : g.threads[tid]? with _ | q
    · have e1 := step_none g tid sp hq
      have e2 := step_ev_none g tid sp hq
      have IH := total_steps rest g ghs h
      rw [e1, e2]
      simp only [Option.isSome_none, Bool.false_eq_true, if_false, Nat.zero_add]
      omega
    · obtain ⟨γq, γq', hγq, hinv, hth, hcase⟩ := gstep h tid sp q hq
      have IH := total_steps rest _ _ hinv
      have hM := sum_set' Tk.m ghs tid γq hγq γq'
      have hW := sum_set' Tk.w ghs tid γq hγq γq'
      have hlen : ghs.length = g.threads.length := All2.length_eq h
      have hS1 := sum_set' (stale g.sh.st.allocated) g.threads tid q hq (tstep g.sh q sp).2
      have hS2 := ssum_set_bound g.sh.st.allocated (g.step tid sp).1.sh.st.allocated (tstep g.sh q sp).2 g.threads tid q hq
      have hKW : (ghs.length - 1) * (List.map Tk.w (ghs.set tid γq')).sum + (ghs.length - 1) * γq.w =
          (ghs.length - 1) * (List.map Tk.w ghs).sum + (ghs.length - 1) * γq'.w := by
        rw [← Nat.mul_add, ← Nat.mul_add, hW]
      have hK1 : γq'.w ≤ γq.w → (ghs.length - 1) * γq'.w ≤ (ghs.length - 1) * γq.w :=
        fun hle => Nat.mul_le_mul_left _ hle
      have hK2 : γq'.w < γq.w → (ghs.length - 1) * γq'.w + (ghs.length - 1) ≤ (ghs.length - 1) * γq.w := by
        intro hlt
        have := Nat.mul_le_mul_left (ghs.length - 1) (Nat.succ_le_of_lt hlt)
        rw [Nat.mul_succ] at this
        exact this
      unfold Phi Msum Wsum Ssum at IH ⊢
      rw [hth, List.length_set] at IH
      unfold Ssum at hS2
      unfold StepCase at hcase
      generalize (g.step tid sp).1.sh.st.allocated = cur' at *
      generalize (g.step tid sp).2.isSome = ev at *
      generalize ghit g tid sp = ht at *
      generalize (ghs.length - 1) * (List.map Tk.w (ghs.set tid γq')).sum = KW' at *
      generalize (ghs.length - 1) * (List.map Tk.w ghs).sum = KW at *
      generalize (ghs.length - 1) * γq'.w = Kw' at *
      generalize (ghs.length - 1) * γq.w = Kw at *
      rcases hcase with ⟨c1, c2, c3, c4, c5, c6⟩ | ⟨c1, c2, c3, c4, c5, c6⟩ | ⟨c1, c2, c3, c4, c5, c6, c7⟩
      · subst c1 c2
        have := hK1 (by omega)
        simp only [Bool.false_eq_true, if_false]
        split <;> omega
      · subst c1
        simp only [if_true]
        by_cases hc : cur' = g.sh.st.allocated
        · subst hc
          have := hK1 c3
          split <;> omega
        · have := hK2 (c4 hc)
          split <;> omega
      · subst c1 c2
        have := hK1 (by omega)
        simp only [if_true]
        rcases c7 with c7 | c7
        · split <;> omega
        · rw [if_pos c7]; omega


/-! ### the loop fuel is never exhausted -/

/-- every thread can absorb more failures of its weak cursor CAS than can still happen: one per remaining cursor
    write of the other threads, one per remaining spurious-failure flag `S`, one if its CAS is doomed already -/
def FI {α : Type} (g : Global α) (ghs : List Tk) (S : Nat) : Prop :=
  ∀ t γ p, ghs[t]? = some γ → g.threads[t]? = some p → 1 + Wx t ghs + S + stale g.sh.st.allocated p ≤ γ.f

theorem spc_cons (tid : Nat) (sp : Bool) (rest : List (Nat × Bool)) :
    spc ((tid, sp) :: rest) = (if sp = true then 1 else 0) + spc rest := by
  unfold spc
  cases sp <;> simp <;> omega

theorem nodiv_run {α : Type} {F : Nat} :
    ∀ (sched : List (Nat × Bool)) (g : Global α) (ghs : List Tk), TInv F g ghs →
      Wsum ghs + spc sched + 1 ≤ F → FI g ghs (spc sched) →
      ∃ ghs', TInv F (g.run sched).1 ghs' ∧ FI (g.run sched).1 ghs' 0
  | [], g, ghs, h, _, hfi => ⟨ghs, h, hfi⟩
  | (tid, sp) :: rest, g, ghs, h, hF, hfi => by
    rw [(run_cons g tid sp rest).1]
    rw [spc_cons] at hF hfi
    rcases hq : g.threads[tid]? with _ | q
    · have e1 := step_none g tid sp hq
      rw [e1]
      refine nodiv_run rest g ghs h (by omega) (fun t γ p hγ hp => ?_)
      have := hfi t γ p hγ hp
      omega
    · obtain ⟨γq, γq', hγq, hinv, hth, hcase⟩ := gstep h tid sp q hq
      have hW := sum_set' Tk.w ghs tid γq hγq γq'
      have hold := hfi tid γq q hγq hq
      have hsp := ghit_sp g tid sp
      have hWx := Wx_le tid ghs
      unfold StepCase at hcase
      refine nodiv_run rest _ _ hinv ?_ (fun t γ p hγ hp => ?_)
      · unfold Wsum at hF ⊢
        rcases hcase with ⟨c1, c2, c3, c4, c5, c6⟩ | ⟨c1, c2, c3, c4, c5, c6⟩ | ⟨c1, c2, c3, c4, c5, c6, c7⟩ <;> omega
      · by_cases htid : tid = t
        · subst htid
          rw [List.getElem?_set_self (getElem?_lt hγq)] at hγ
          cases hγ
          rw [hth, List.getElem?_set_self (getElem?_lt hq)] at hp
          cases hp
          rw [Wx_set_self]
          unfold Wsum at hF
          generalize (g.step tid sp).1.sh.st.allocated = cur' at *
          generalize ghit g tid sp = ht at *
          rcases hcase with ⟨c1, c2, c3, c4, c5, c6⟩ | ⟨c1, c2, c3, c4, c5, c6⟩ | ⟨c1, c2, c3, c4, c5, c6, c7⟩
          · subst c2; omega
          · unfold Wsum at hWx; omega
          · rcases c7 with c7 | c7
            · omega
            · rw [if_pos (hsp c7)] at hold
              omega
        · rw [List.getElem?_set_ne htid] at hγ
          rw [hth, List.getElem?_set_ne htid] at hp
          have hold' := hfi t γ p hγ hp
          have hWx' := Wx_set_ne htid ghs γq γq' hγq
          have hsh := stale_shift g.sh.st.allocated (g.step tid sp).1.sh.st.allocated p
          generalize (g.step tid sp).1.sh.st.allocated = cur' at *
          rcases hcase with ⟨c1, c2, c3, c4, c5, c6⟩ | ⟨c1, c2, c3, c4, c5, c6⟩ | ⟨c1, c2, c3, c4, c5, c6, c7⟩
          · subst c2
            simp only [ne_eq, not_true, if_false] at hsh
            omega
          · by_cases hc : cur' = g.sh.st.allocated
            · subst hc
              simp only [ne_eq, not_true, if_false] at hsh
              omega
            · have := c4 hc
              rw [if_pos hc] at hsh
              omega
          · subst c2
            simp only [ne_eq, not_true, if_false] at hsh
            omega

theorem pt_diverge_f {α : Type} {F : Nat} {post : Nat → Nat → α → Prop} {m w f : Nat}
    (h : PT F post m w f .diverge) : f = 0 := by
  cases h
  rfl


/-! ### finished threads (facts about the machine, no typing needed) -/

/-- the thread has finished: it has returned, panicked (`trap`), or run out of loop fuel (`diverge`) -/
def isFin {α : Type} : Prog α → Bool
  | .ret _ => true
  | .trap _ => true
  | .diverge => true
  | _ => false

theorem settle_ret {α : Type} (f : Nat) (sh : Shared) (a : α) (nas : List NA) :
    settle (f + 1) sh (.ret a) nas = (sh, .done a, nas) := rfl
theorem settle_trap {α : Type} (f : Nat) (sh : Shared) (s : String) (nas : List NA) :
    settle (α := α) (f + 1) sh (.trap s) nas = (sh, .failed (.trap s), nas) := rfl
theorem settle_diverge {α : Type} (f : Nat) (sh : Shared) (nas : List NA) :
    settle (α := α) (f + 1) sh .diverge nas = (sh, .failed .diverge, nas) := rfl

/-- a finished thread is left alone -/
theorem tstep_fin {α : Type} (sh : Shared) (p : Prog α) (sp : Bool) (h : isFin p = true) :
    tstep sh p sp = (sh, p) ∧ tev sh p sp = false := by
  unfold tstep tev
  rw [fuel_eq2]
  cases p with
  | ret a => rw [settle_ret]; exact ⟨rfl, rfl⟩
  | trap s => rw [settle_trap]; exact ⟨rfl, rfl⟩
  | diverge => rw [settle_diverge]; exact ⟨rfl, rfl⟩
  | _ => cases h

/-- a granted step that performs no atomic access leaves the thread finished -/
theorem tev_false_fin {α : Type} (sh : Shared) (p : Prog α) (sp : Bool) (h : tev sh p sp = false) :
    isFin (tstep sh p sp).2 = true := by
  unfold tev at h
  unfold tstep
  rcases hs : settle 100000 sh p [] with ⟨sh1, s, n1⟩
  rw [hs] at h
  rcases s with a | (s | _) | p1
  · rfl
  · rfl
  · rfl
  · dsimp only at h ⊢
    rcases ha : stepAccess sh1 p1 sp with (s | _) | ⟨sh2, p2, e⟩
    · rfl
    · rfl
    · rw [ha] at h
      cases h

theorem step_length {α : Type} (g : Global α) (tid : Nat) (sp : Bool) :
    (g.step tid sp).1.threads.length = g.threads.length := by
  rcases hq : g.threads[tid]? with _ | q
  · rw [step_none g tid sp hq]
  · rw [step_some g tid sp q hq]
    exact List.length_set

theorem run_length {α : Type} : ∀ (sched : List (Nat × Bool)) (g : Global α),
    (g.run sched).1.threads.length = g.threads.length
  | [], _ => rfl
  | (tid, sp) :: rest, g => by
    rw [(run_cons g tid sp rest).1, run_length rest, step_length]

theorem step_other {α : Type} (g : Global α) (tid : Nat) (sp : Bool) (t : Nat) (h : tid ≠ t) :
    (g.step tid sp).1.threads[t]? = g.threads[t]? := by
  rcases hq : g.threads[tid]? with _ | q
  · rw [step_none g tid sp hq]
  · rw [step_some g tid sp q hq]
    exact List.getElem?_set_ne h

/-- a finished thread stays as it is -/
theorem run_fin {α : Type} (t : Nat) (q : Prog α) (hfin : isFin q = true) :
    ∀ (sched : List (Nat × Bool)) (g : Global α), g.threads[t]? = some q → (g.run sched).1.threads[t]? = some q
  | [], _, h => h
  | (tid, sp) :: rest, g, h => by
    rw [(run_cons g tid sp rest).1]
    refine run_fin t q hfin rest _ ?_
    by_cases htid : tid = t
    · subst htid
      rw [step_some g tid sp q h, (tstep_fin g.sh q sp hfin).1]
      exact List.getElem?_set_self (getElem?_lt h)
    · rw [step_other g tid sp t htid]
      exact h

theorem grants_cons (t tid : Nat) (sp : Bool) (rest : List (Nat × Bool)) :
    grants t ((tid, sp) :: rest) = (if tid = t then 1 else 0) + grants t rest := by
  unfold grants
  by_cases h : tid = t
  · simp [h]; omega
  · simp [h]

/-- as long as thread `t` has not finished, every step granted to it performs an atomic access -/
theorem grants_le_evc {α : Type} (t : Nat) :
    ∀ (sched : List (Nat × Bool)) (g : Global α),
      (∃ p, (g.run sched).1.threads[t]? = some p ∧ isFin p = false) → grants t sched ≤ evc t (g.run sched).2
  | [], _, _ => Nat.zero_le _
  | (tid, sp) :: rest, g, h => by
    rw [(run_cons g tid sp rest).1] at h
    have IH := grants_le_evc t rest _ h
    rw [grants_cons, evc_run_cons]
    by_cases htid : tid = t
    · subst htid
      simp only [if_true, true_and]
      rcases hq : g.threads[tid]? with _ | q
      · exfalso
        obtain ⟨p, hp, _⟩ := h
        have h1 := getElem?_lt hp
        rw [run_length, step_length] at h1
        rw [List.getElem?_eq_getElem h1] at hq
        cases hq
      · rw [step_ev_some g tid sp q hq]
        rcases hev : tev g.sh q sp with _ | _
        · exfalso
          have hfin := tev_false_fin g.sh q sp hev
          have h1 : (g.step tid sp).1.threads[tid]? = some (tstep g.sh q sp).2 := by
            rw [step_some g tid sp q hq]
            exact List.getElem?_set_self (getElem?_lt hq)
          have h2 := run_fin tid _ hfin rest _ h1
          obtain ⟨p, hp, hnf⟩ := h
          rw [h2] at hp
          cases hp
          rw [hfin] at hnf
          cases hnf
        · simp only [if_true]
          omega
    · simp only [htid, false_and, if_false, Nat.zero_add]
      exact IH

theorem hitsOf_le_spc {α : Type} (t : Nat) : ∀ (sched : List (Nat × Bool)) (g : Global α), hitsOf t g sched ≤ spc sched
  | [], _ => Nat.le_refl _
  | (tid, sp) :: rest, g => by
    have IH := hitsOf_le_spc t rest (g.step tid sp).1
    have hsp := ghit_sp g tid sp
    rw [spc_cons]
    simp only [hitsOf]
    split
    · rename_i hc
      rw [if_pos (hsp hc.2)]
      omega
    · omega

theorem hits_le_spc {α : Type} : ∀ (sched : List (Nat × Bool)) (g : Global α), hits g sched ≤ spc sched
  | [], _ => Nat.le_refl _
  | (tid, sp) :: rest, g => by
    have IH := hits_le_spc rest (g.step tid sp).1
    have hsp := ghit_sp g tid sp
    rw [spc_cons]
    simp only [hits]
    split
    · rename_i hc
      rw [if_pos (hsp hc)]
      omega
    · omega


/-! ### the initial state -/

/-- total number of operations of all thread programs -/
def nops (progs : List (List NOp)) : Nat := (progs.map List.length).sum

/-- initial ghost state of a thread: two steps and one cursor write per operation, full allowance -/
def tk0 (fuel : Nat) (ops : List NOp) : Tk := ⟨2 * ops.length, ops.length, fuel⟩

/-- the initial state of `Proofs/ConcNone.lean`: thread `i` is about to run `progs[i]` and holds no handle -/
def initG (c : Cfg) (sh : Shared) (fuel : Nat) (progs : List (List NOp)) : Global (List Meta) :=
  { sh := sh, threads := progs.map (fun ops => noneProg c sh.st.cap fuel ops []) }

theorem init_tinv (c : Cfg) (hk : c.kind = .none) (hro : c.ro = false) (cap fuel : Nat) :
    ∀ progs : List (List NOp),
      All2 (Typed fuel) (progs.map (tk0 fuel)) (progs.map (fun ops => noneProg c cap fuel ops []))
  | [] => .nil
  | ops :: rest =>
    .cons ((pt_noneProg c hk hro cap fuel ops [] _ _ (Nat.le_refl _) (Nat.le_refl _)).1 fuel)
      (init_tinv c hk hro cap fuel rest)

theorem init_msum (fuel : Nat) : ∀ progs : List (List NOp), Msum (progs.map (tk0 fuel)) = 2 * nops progs
  | [] => rfl
  | ops :: rest => by
    have := init_msum fuel rest
    simp only [Msum, nops, List.map_cons, List.sum_cons, tk0] at this ⊢
    omega

theorem init_wsum (fuel : Nat) : ∀ progs : List (List NOp), Wsum (progs.map (tk0 fuel)) = nops progs
  | [] => rfl
  | ops :: rest => by
    have := init_wsum fuel rest
    simp only [Wsum, nops, List.map_cons, List.sum_cons, tk0] at this ⊢
    omega

theorem stale_calm {α : Type} {p : Prog α} (h : Calm p) (cur : Nat) : stale cur p = 0 := by
  unfold stale
  rw [calm_wcExp h]

theorem init_ssum (c : Cfg) (hk : c.kind = .none) (hro : c.ro = false) (cap fuel cur : Nat) :
    ∀ progs : List (List NOp), Ssum cur (progs.map (fun ops => noneProg c cap fuel ops [])) = 0
  | [] => rfl
  | ops :: rest => by
    have h1 := init_ssum c hk hro cap fuel cur rest
    have h2 := stale_calm (pt_noneProg c hk hro cap fuel ops [] _ _ (Nat.le_refl _) (Nat.le_refl _)).2 cur
    simp only [Ssum, List.map_cons, List.sum_cons] at h1 ⊢
    omega

theorem init_phi (c : Cfg) (hk : c.kind = .none) (hro : c.ro = false) (sh : Shared) (fuel : Nat)
    (progs : List (List NOp)) :
    Phi (initG c sh fuel progs) (progs.map (tk0 fuel)) = 2 * nops progs + (progs.length - 1) * nops progs := by
  unfold Phi initG
  dsimp only
  rw [init_msum, init_wsum, init_ssum c hk hro, List.length_map]
  omega

/-! ### the theorems -/

/-- (L3, global bound) In ANY run of ANY number of threads executing ANY programs of allocations and releases on an
    arena with `Freelist::None`, the number of atomic accesses performed (= the number of schedule entries granted to
    a thread that has not finished) is at most `2·N + (T−1)·N` plus the number of spurious failures of the weak CAS,
    where `N` is the total number of operations and `T` the number of threads: an operation costs two accesses, and
    each of the at most `N` changes of the cursor makes at most one CAS of every other thread fail. -/
theorem none_steps_bounded (c : Cfg) (hk : c.kind = .none) (hro : c.ro = false) (sh : Shared) (fuel : Nat)
    (progs : List (List NOp)) (sched : List (Nat × Bool)) :
    ((initG c sh fuel progs).run sched).2.length ≤
      2 * nops progs + (progs.length - 1) * nops progs + hits (initG c sh fuel progs) sched := by
  have h := total_steps sched (initG c sh fuel progs) (progs.map (tk0 fuel)) (init_tinv c hk hro sh.st.cap fuel progs)
  rw [init_phi c hk hro] at h
  exact h

/-- the same with the closed bound `(T+1)·N + (number of schedule entries with the spurious flag set)` -/
theorem none_steps_bounded' (c : Cfg) (hk : c.kind = .none) (hro : c.ro = false) (sh : Shared) (fuel : Nat)
    (progs : List (List NOp)) (sched : List (Nat × Bool)) :
    ((initG c sh fuel progs).run sched).2.length ≤ (progs.length + 1) * nops progs + spc sched := by
  have h1 := none_steps_bounded c hk hro sh fuel progs sched
  have h2 := hits_le_spc sched (initG c sh fuel progs)
  have h3 : 2 * nops progs + (progs.length - 1) * nops progs ≤ (progs.length + 1) * nops progs := by
    rcases progs with _ | ⟨ops, rest⟩
    · simp [nops]
    · simp only [List.length_cons, Nat.add_sub_cancel]
      rw [Nat.add_mul, Nat.add_mul]
      omega
  omega

/-- (L1 + L2, per thread) In any run, thread `t` performs at most `2·(its number of operations)` atomic accesses, plus
    one per change of the cursor by ANOTHER thread during the run, plus one per spurious failure it suffers; and the
    other threads change the cursor at most once per operation of theirs. -/
theorem none_thread_steps (c : Cfg) (hk : c.kind = .none) (hro : c.ro = false) (sh : Shared) (fuel : Nat)
    (progs : List (List NOp)) (sched : List (Nat × Bool)) (t : Nat) (ops : List NOp) (ht : progs[t]? = some ops) :
    evc t ((initG c sh fuel progs).run sched).2 ≤
      2 * ops.length + interf t (initG c sh fuel progs) sched + hitsOf t (initG c sh fuel progs) sched ∧
    interf t (initG c sh fuel progs) sched + ops.length ≤ nops progs := by
  have hinv : TInv fuel (initG c sh fuel progs) (progs.map (tk0 fuel)) := init_tinv c hk hro sh.st.cap fuel progs
  have hγ : (progs.map (tk0 fuel))[t]? = some (tk0 fuel ops) := by rw [List.getElem?_map, ht]; rfl
  have hp : (initG c sh fuel progs).threads[t]? = some (noneProg c sh.st.cap fuel ops []) := by
    unfold initG; dsimp only; rw [List.getElem?_map, ht]; rfl
  have h1 := thread_steps t sched _ _ hinv _ _ hγ hp
  have h2 := interf_le t sched _ _ hinv
  have h3 := Wx_add t _ _ hγ
  rw [init_wsum] at h3
  have h4 := stale_calm (pt_noneProg c hk hro sh.st.cap fuel ops [] _ _ (Nat.le_refl _) (Nat.le_refl _)).2
    (initG c sh fuel progs).sh.st.allocated
  rw [h4] at h1
  simp only [tk0] at h1 h3
  constructor <;> omega


theorem interf_solo {α : Type} (t : Nat) : ∀ (sched : List (Nat × Bool)) (g : Global α),
    (∀ x ∈ sched, x.1 = t) → interf t g sched = 0
  | [], _, _ => rfl
  | (tid, sp) :: rest, g, h => by
    have h1 : tid = t := h (tid, sp) List.mem_cons_self
    subst h1
    have IH := interf_solo tid rest (g.step tid sp).1 (fun x hx => h x (List.mem_cons_of_mem _ hx))
    simp only [interf, ne_eq, not_true, false_and, if_false, Nat.zero_add]
    exact IH

theorem hitsOf_nospur {α : Type} (t : Nat) : ∀ (sched : List (Nat × Bool)) (g : Global α),
    (∀ x ∈ sched, x.2 = false) → hitsOf t g sched = 0 := by
  intro sched g h
  have h1 := hitsOf_le_spc t sched g
  have h2 : spc sched = 0 := by
    unfold spc
    rw [List.length_eq_zero_iff, List.filter_eq_nil_iff]
    intro x hx
    rw [h x hx]
    exact Bool.false_ne_true
  omega

/-- obstruction freedom from the initial state: thread `t` alone needs at most `2·|ops|` accesses -/
theorem none_solo_steps (c : Cfg) (hk : c.kind = .none) (hro : c.ro = false) (sh : Shared) (fuel : Nat)
    (progs : List (List NOp)) (solo : List (Nat × Bool)) (t : Nat) (ops : List NOp) (ht : progs[t]? = some ops)
    (hsolo : ∀ x ∈ solo, x = (t, false)) :
    evc t ((initG c sh fuel progs).run solo).2 ≤ 2 * ops.length := by
  have h1 := (none_thread_steps c hk hro sh fuel progs solo t ops ht).1
  rw [interf_solo t solo _ (fun x hx => by rw [hsolo x hx]),
    hitsOf_nospur t solo _ (fun x hx => by rw [hsolo x hx])] at h1
  exact h1

/-- the typing invariant holds in every reachable state, and step budgets never grow -/
theorem tinv_run {α : Type} {F : Nat} : ∀ (sched : List (Nat × Bool)) (g : Global α) (ghs : List Tk),
    TInv F g ghs → ∃ ghs', TInv F (g.run sched).1 ghs' ∧
      ∀ (t : Nat) (γ' : Tk), ghs'[t]? = some γ' → ∃ γ : Tk, ghs[t]? = some γ ∧ γ'.m ≤ γ.m
  | [], _, ghs, h => ⟨ghs, h, fun t γ' h' => ⟨γ', h', Nat.le_refl _⟩⟩
  | (tid, sp) :: rest, g, ghs, h => by
    rw [(run_cons g tid sp rest).1]
    rcases hq : g.threads[tid]? with _ | q
    · rw [step_none g tid sp hq]
      exact tinv_run rest g ghs h
    · obtain ⟨γq, γq', hγq, hinv, _, hcase⟩ := gstep h tid sp q hq
      obtain ⟨ghs', h1, h2⟩ := tinv_run rest _ _ hinv
      refine ⟨ghs', h1, fun t γ' h' => ?_⟩
      obtain ⟨γ1, h3, h4⟩ := h2 t γ' h'
      by_cases htid : tid = t
      · subst htid
        rw [List.getElem?_set_self (getElem?_lt hγq)] at h3
        cases h3
        refine ⟨γq, hγq, ?_⟩
        unfold StepCase at hcase
        rcases hcase with ⟨c1, c2, c3, c4, c5, c6⟩ | ⟨c1, c2, c3, c4, c5, c6⟩ | ⟨c1, c2, c3, c4, c5, c6, c7⟩ <;> omega
      · rw [List.getElem?_set_ne htid] at h3
        exact ⟨γ1, h3, h4⟩

/-- (L1, obstruction freedom) from ANY reachable state (after any schedule `pre`, wherever the other threads were
    stopped): while only thread `t` is scheduled and no weak CAS fails spuriously, it performs at most
    `2·|ops t| + 1` further atomic accesses (the `+ 1` is the CAS that an earlier cursor change has doomed already) -/
theorem none_obstruction_free (c : Cfg) (hk : c.kind = .none) (hro : c.ro = false) (sh : Shared) (fuel : Nat)
    (progs : List (List NOp)) (pre solo : List (Nat × Bool)) (t : Nat) (ops : List NOp) (ht : progs[t]? = some ops)
    (hsolo : ∀ x ∈ solo, x = (t, false)) :
    evc t ((((initG c sh fuel progs).run pre).1).run solo).2 ≤ 2 * ops.length + 1 := by
  have hinv : TInv fuel (initG c sh fuel progs) (progs.map (tk0 fuel)) := init_tinv c hk hro sh.st.cap fuel progs
  obtain ⟨ghs, h1, h2⟩ := tinv_run pre _ _ hinv
  have hlt : t < ((initG c sh fuel progs).run pre).1.threads.length := by
    rw [run_length]
    unfold initG
    dsimp only
    rw [List.length_map]
    exact getElem?_lt ht
  have hlt' : t < ghs.length := by rw [All2.length_eq h1]; exact hlt
  obtain ⟨γ0, h3, h4⟩ := h2 t _ (List.getElem?_eq_getElem hlt')
  rw [List.getElem?_map, ht] at h3
  cases h3
  have h5 := thread_steps t solo _ ghs h1 _ _ (List.getElem?_eq_getElem hlt') (List.getElem?_eq_getElem hlt)
  rw [interf_solo t solo _ (fun x hx => by rw [hsolo x hx]),
    hitsOf_nospur t solo _ (fun x hx => by rw [hsolo x hx])] at h5
  have h6 := stale_le_one ((initG c sh fuel progs).run pre).1.sh.st.allocated
    ((initG c sh fuel progs).run pre).1.threads[t]
  simp only [tk0] at h4
  omega

/-- (no hang) if the loop fuel of the model exceeds the total number of operations plus the number of spurious-failure
    flags of the schedule, no thread ever runs out of fuel: `diverge` — the model's representation of a loop that
    does not terminate — is unreachable. -/
theorem none_no_diverge (c : Cfg) (hk : c.kind = .none) (hro : c.ro = false) (sh : Shared) (fuel : Nat)
    (progs : List (List NOp)) (sched : List (Nat × Bool)) (hfuel : nops progs + spc sched + 1 ≤ fuel) :
    ∀ p ∈ ((initG c sh fuel progs).run sched).1.threads, p ≠ .diverge := by
  have hinv : TInv fuel (initG c sh fuel progs) (progs.map (tk0 fuel)) := init_tinv c hk hro sh.st.cap fuel progs
  have hfi : FI (initG c sh fuel progs) (progs.map (tk0 fuel)) (spc sched) := by
    intro t γ p hγ hp
    rw [List.getElem?_map] at hγ
    rcases hops : progs[t]? with _ | ops
    · rw [hops] at hγ; cases hγ
    · rw [hops] at hγ
      cases hγ
      have h1 := Wx_le t (progs.map (tk0 fuel))
      rw [init_wsum] at h1
      have hp' : p = noneProg c sh.st.cap fuel ops [] := by
        unfold initG at hp; dsimp only at hp
        rw [List.getElem?_map, hops] at hp
        cases hp; rfl
      have h2 := stale_calm (pt_noneProg c hk hro sh.st.cap fuel ops [] _ _ (Nat.le_refl _) (Nat.le_refl _)).2
        (initG c sh fuel progs).sh.st.allocated
      rw [hp', h2]
      simp only [tk0]
      omega
  obtain ⟨ghs', h1, h2⟩ := nodiv_run sched _ _ hinv (by rw [init_wsum]; exact hfuel) hfi
  intro p hp hdiv
  obtain ⟨i, hi⟩ := List.mem_iff_getElem?.mp hp
  obtain ⟨γ, hγ, hR⟩ := All2.get h1 hi
  have h3 := h2 i γ p hγ hi
  subst hdiv
  have h4 := pt_diverge_f hR
  omega

/-- (every operation finishes, per thread — precise form) once the schedule has granted thread `t` more than
    `2·|ops t| + (changes of the cursor by other threads) + (spurious failures suffered by t)` steps, thread `t` has
    finished ALL its operations. -/
theorem none_thread_finishes_precise (c : Cfg) (hk : c.kind = .none) (hro : c.ro = false) (sh : Shared) (fuel : Nat)
    (progs : List (List NOp)) (sched : List (Nat × Bool)) (t : Nat) (ops : List NOp) (ht : progs[t]? = some ops)
    (hgr : 2 * ops.length + interf t (initG c sh fuel progs) sched + hitsOf t (initG c sh fuel progs) sched <
      grants t sched) :
    ∃ p, ((initG c sh fuel progs).run sched).1.threads[t]? = some p ∧ isFin p = true := by
  have hlt : t < ((initG c sh fuel progs).run sched).1.threads.length := by
    rw [run_length]
    unfold initG
    dsimp only
    rw [List.length_map]
    exact getElem?_lt ht
  refine ⟨_, List.getElem?_eq_getElem hlt, ?_⟩
  rcases hfin : isFin ((initG c sh fuel progs).run sched).1.threads[t] with _ | _
  · exfalso
    have h1 := grants_le_evc t sched (initG c sh fuel progs) ⟨_, List.getElem?_eq_getElem hlt, hfin⟩
    obtain ⟨h2, h3⟩ := none_thread_steps c hk hro sh fuel progs sched t ops ht
    omega
  · rfl

/-- (every operation finishes, per thread — a-priori form) once the schedule has granted thread `t` more than
    `2·|ops t| + (N − |ops t|) + (number of spurious flags)` steps, thread `t` has finished ALL its operations, whatever
    the other threads do and however the steps are interleaved. In particular, in an infinite schedule with finitely
    many spurious failures every thread that is scheduled infinitely often finishes. -/
theorem none_thread_finishes (c : Cfg) (hk : c.kind = .none) (hro : c.ro = false) (sh : Shared) (fuel : Nat)
    (progs : List (List NOp)) (sched : List (Nat × Bool)) (t : Nat) (ops : List NOp) (ht : progs[t]? = some ops)
    (hgr : 2 * ops.length + (nops progs - ops.length) + spc sched < grants t sched) :
    ∃ p, ((initG c sh fuel progs).run sched).1.threads[t]? = some p ∧ isFin p = true := by
  refine none_thread_finishes_precise c hk hro sh fuel progs sched t ops ht ?_
  obtain ⟨_, h3⟩ := none_thread_steps c hk hro sh fuel progs sched t ops ht
  have h4 := hitsOf_le_spc t sched (initG c sh fuel progs)
  omega

/-- the same, with enough loop fuel: thread `t` has RETURNED (or panicked on an arithmetic overflow / out-of-bounds
    zero-fill, `trap`); it does not hang -/
theorem none_thread_returns (c : Cfg) (hk : c.kind = .none) (hro : c.ro = false) (sh : Shared) (fuel : Nat)
    (progs : List (List NOp)) (sched : List (Nat × Bool)) (t : Nat) (ops : List NOp) (ht : progs[t]? = some ops)
    (hfuel : nops progs + spc sched + 1 ≤ fuel)
    (hgr : 2 * ops.length + (nops progs - ops.length) + spc sched < grants t sched) :
    (∃ r, ((initG c sh fuel progs).run sched).1.threads[t]? = some (.ret r)) ∨
    (∃ s, ((initG c sh fuel progs).run sched).1.threads[t]? = some (.trap s)) := by
  obtain ⟨p, hp, hfin⟩ := none_thread_finishes c hk hro sh fuel progs sched t ops ht hgr
  have hnd := none_no_diverge c hk hro sh fuel progs sched hfuel p (List.mem_of_getElem? hp)
  cases p with
  | ret r => exact .inl ⟨r, hp⟩
  | trap s => exact .inr ⟨s, hp⟩
  | diverge => exact absurd rfl hnd
  | _ => cases hfin

/-- (every operation finishes, all threads) if every thread has been granted more steps than its bound, ALL threads
    have finished; with enough loop fuel none of them hangs -/
theorem none_all_finish (c : Cfg) (hk : c.kind = .none) (hro : c.ro = false) (sh : Shared) (fuel : Nat)
    (progs : List (List NOp)) (sched : List (Nat × Bool))
    (hgr : ∀ t ops, progs[t]? = some ops → 2 * ops.length + (nops progs - ops.length) + spc sched < grants t sched) :
    (∀ p ∈ ((initG c sh fuel progs).run sched).1.threads, isFin p = true) ∧
    (nops progs + spc sched + 1 ≤ fuel →
      ∀ p ∈ ((initG c sh fuel progs).run sched).1.threads, (∃ r, p = .ret r) ∨ (∃ s, p = .trap s)) := by
  have hall : ∀ p ∈ ((initG c sh fuel progs).run sched).1.threads, isFin p = true := by
    intro p hp
    obtain ⟨i, hi⟩ := List.mem_iff_getElem?.mp hp
    have hlt := getElem?_lt hi
    rw [run_length] at hlt
    unfold initG at hlt
    dsimp only at hlt
    rw [List.length_map] at hlt
    obtain ⟨q, hq, hfin⟩ := none_thread_finishes c hk hro sh fuel progs sched i progs[i]
      (List.getElem?_eq_getElem hlt) (hgr i _ (List.getElem?_eq_getElem hlt))
    rw [hi] at hq
    cases hq
    exact hfin
  refine ⟨hall, fun hfuel p hp => ?_⟩
  have hnd := none_no_diverge c hk hro sh fuel progs sched hfuel p hp
  have hfin := hall p hp
  cases p with
  | ret r => exact .inl ⟨r, rfl⟩
  | trap s => exact .inr ⟨s, rfl⟩
  | diverge => exact absurd rfl hnd
  | _ => cases hfin


/-! ### the trace length IS the number of steps granted to unfinished threads -/

/-- the head is an atomic access -/
def isAcc {α : Type} : Prog α → Bool
  | .load _ _ _ => true
  | .store _ _ _ _ => true
  | .cas _ _ _ _ _ _ => true
  | .rmw _ _ _ _ _ => true
  | _ => false

theorem settle_blocked {α : Type} : ∀ (fuel : Nat) (sh : Shared) (p : Prog α) (nas : List NA) (sh1 : Shared)
    (p1 : Prog α) (n1 : List NA), settle fuel sh p nas = (sh1, .blocked p1, n1) → isAcc p1 = true
  | 0, _, _, _, _, _, _, h => by cases h
  | f + 1, sh, p, nas, sh1, p1, n1, h => by
    cases p with
    | na e k =>
      rw [settle_na_eq] at h
      rcases ha : sh.applyNA e with fl | sh'
      · rw [ha] at h; cases h
      · rw [ha] at h
        exact settle_blocked f sh' (k ()) _ sh1 p1 n1 h
    | ret a => cases h
    | trap s => cases h
    | diverge => cases h
    | load l s k => cases h; rfl
    | store l v s k => cases h; rfl
    | cas l e n w s k => cases h; rfl
    | rmw l v sb s k => cases h; rfl

theorem settle_acc {α : Type} (f : Nat) (sh : Shared) (p : Prog α) (nas : List NA) (h : isAcc p = true) :
    settle (f + 1) sh p nas = (sh, .blocked p, nas) := by
  cases p <;> first | rfl | cases h

theorem settle_toProg_notNA {α : Type} : ∀ (fuel : Nat) (sh : Shared) (p : Prog α) (nas : List NA),
    NotNA (settle fuel sh p nas).2.1.toProg
  | 0, _, _, _ => trivial
  | f + 1, sh, p, nas => by
    cases p with
    | na e k =>
      rw [settle_na_eq]
      rcases ha : sh.applyNA e with fl | sh'
      · rcases fl with s | _ <;> trivial
      · exact settle_toProg_notNA f sh' (k ()) _
    | _ => trivial

theorem tstep_notNA {α : Type} (sh : Shared) (p : Prog α) (sp : Bool) : NotNA (tstep sh p sp).2 := by
  unfold tstep
  have h1 := settle_toProg_notNA 100000 sh p []
  rcases hs : settle 100000 sh p [] with ⟨sh1, s, n1⟩
  rw [hs] at h1
  rcases s with a | fl | p1
  · exact h1
  · exact h1
  · dsimp only
    rcases ha : stepAccess sh1 p1 sp with (s | _) | ⟨sh2, p2, e⟩
    · trivial
    · trivial
    · dsimp only
      have h2 := settle_toProg_notNA 100000 sh2 p2 []
      rcases hs2 : settle 100000 sh2 p2 [] with ⟨sh3, s3, n3⟩
      rw [hs2] at h2
      exact h2

theorem pt_isAcc {α : Type} {F : Nat} {post : Nat → Nat → α → Prop} {m w f : Nat} {p : Prog α}
    (h : PT F post m w f p) (hn : NotNA p) (hf : isFin p = false) : isAcc p = true := by
  cases h with
  | ret _ => cases hf
  | trap => cases hf
  | diverge => cases hf
  | na _ _ => exact hn.elim
  | _ => rfl

theorem stepAccess_ok {α : Type} {F : Nat} {post : Nat → Nat → α → Prop} {m w f : Nat} {p : Prog α}
    (h : PT F post m w f p) (hacc : isAcc p = true) (sh : Shared) (sp : Bool) :
    ∃ r, stepAccess sh p sp = .ok r := by
  cases h with
  | ret _ => cases hacc
  | trap => cases hacc
  | diverge => cases hacc
  | na _ _ => cases hacc
  | load _ _ _ =>
    simp only [stepAccess, Shared.read, bind, Except.bind, pure, Except.pure]
    exact ⟨_, rfl⟩
  | casA _ _ _ _ _ _ =>
    simp only [stepAccess, Shared.read, Shared.write, bind, Except.bind, pure, Except.pure]
    split
    · exact ⟨_, rfl⟩
    · split <;> exact ⟨_, rfl⟩
  | casR _ _ _ _ =>
    simp only [stepAccess, Shared.read, Shared.write, bind, Except.bind, pure, Except.pure]
    split
    · exact ⟨_, rfl⟩
    · split <;> exact ⟨_, rfl⟩
  | faa _ _ _ =>
    simp only [stepAccess, Shared.read, Shared.write, bind, Except.bind, pure, Except.pure]
    exact ⟨_, rfl⟩

/-- a step granted to an unfinished typed thread performs an atomic access -/
theorem tev_true {α : Type} {F : Nat} {post : Nat → Nat → α → Prop} {m w f : Nat} {p : Prog α}
    (h : PT F post m w f p) (hn : NotNA p) (hf : isFin p = false) (sh : Shared) (sp : Bool) : tev sh p sp = true := by
  unfold tev
  rw [fuel_eq2, settle_acc _ _ _ _ (pt_isAcc h hn hf)]
  dsimp only
  obtain ⟨r, hr⟩ := stepAccess_ok h (pt_isAcc h hn hf) sh sp
  rw [hr]

/-- thread `tid` exists and has not finished -/
def active {α : Type} (g : Global α) (tid : Nat) : Bool :=
  match g.threads[tid]? with
  | some p => !isFin p
  | none => false

/-- number of schedule entries that are granted to a thread that has not finished -/
def realSteps {α : Type} : Global α → List (Nat × Bool) → Nat
  | _, [] => 0
  | g, (tid, sp) :: rest => (if active g tid = true then 1 else 0) + realSteps (g.step tid sp).1 rest

theorem realSteps_eq {α : Type} {F : Nat} : ∀ (sched : List (Nat × Bool)) (g : Global α) (ghs : List Tk),
    TInv F g ghs → (∀ p ∈ g.threads, NotNA p) → realSteps g sched = (g.run sched).2.length
  | [], _, _, _, _ => rfl
  | (tid, sp) :: rest, g, ghs, h, hn => by
    rw [len_run_cons]
    simp only [realSteps]
    rcases hq : g.threads[tid]? with _ | q
    · have e1 := step_none g tid sp hq
      have e2 := step_ev_none g tid sp hq
      have IH := realSteps_eq rest g ghs h hn
      have ha : active g tid = false := by unfold active; rw [hq]
      rw [e1, e2, ha, IH]
      rfl
    · obtain ⟨γq, γq', hγq, hinv, hth, _⟩ := gstep h tid sp q hq
      have hn' : ∀ p ∈ (g.step tid sp).1.threads, NotNA p := by
        intro p hp
        rw [hth] at hp
        rcases List.mem_or_eq_of_mem_set hp with hp | rfl
        · exact hn p hp
        · exact tstep_notNA _ _ _
      have IH := realSteps_eq rest _ _ hinv hn'
      have ha : active g tid = !isFin q := by unfold active; rw [hq]
      rw [IH, ha, step_ev_some g tid sp q hq]
      rcases hf : isFin q with _ | _
      · obtain ⟨γ, hγ, hR⟩ := All2.get h hq
        rw [tev_true hR (hn q (List.mem_of_getElem? hq)) hf]
        rfl
      · rw [(tstep_fin g.sh q sp hf).2]
        rfl

/-- `initG` is the initial state of the theorems of `Proofs/ConcNone.lean` -/
theorem initG_eq (c : Cfg) (sh : Shared) (fuel : Nat) (progs : List (List NOp)) :
    initG c sh fuel progs = { sh := sh, threads := progs.map (fun ops => noneProg c sh.st.cap fuel ops []) } := rfl

/-- the global bound in the form of the theorems of `Proofs/ConcNone.lean` -/
theorem none_progress (c : Cfg) (hk : c.kind = .none) (hro : c.ro = false) (sh : Shared) (fuel : Nat)
    (progs : List (List NOp)) (sched : List (Nat × Bool)) :
    let g0 : Global (List Meta) := { sh := sh, threads := progs.map (fun ops => noneProg c sh.st.cap fuel ops []) }
    (g0.run sched).2.length ≤ (progs.length + 1) * (progs.map List.length).sum + (sched.filter (fun x => x.2)).length :=
  none_steps_bounded' c hk hro sh fuel progs sched

/-- (L3 in the requested form) the number of schedule entries granted to an unfinished thread is at most
    `(T+1)·N` plus the number of spurious failures (flag set AND a weak CAS hit) -/
theorem none_real_steps_bounded (c : Cfg) (hk : c.kind = .none) (hro : c.ro = false) (sh : Shared) (fuel : Nat)
    (progs : List (List NOp)) (sched : List (Nat × Bool)) :
    realSteps (initG c sh fuel progs) sched ≤
      2 * nops progs + (progs.length - 1) * nops progs + hits (initG c sh fuel progs) sched ∧
    realSteps (initG c sh fuel progs) sched = ((initG c sh fuel progs).run sched).2.length := by
  have hinv : TInv fuel (initG c sh fuel progs) (progs.map (tk0 fuel)) := init_tinv c hk hro sh.st.cap fuel progs
  have hn : ∀ p ∈ (initG c sh fuel progs).threads, NotNA p := by
    intro p hp
    unfold initG at hp
    dsimp only at hp
    obtain ⟨ops, _, rfl⟩ := List.mem_map.mp hp
    exact calm_notNA (pt_noneProg c hk hro sh.st.cap fuel ops [] _ _ (Nat.le_refl _) (Nat.le_refl _)).2
  have h1 := realSteps_eq sched _ _ hinv hn
  rw [h1]
  exact ⟨none_steps_bounded c hk hro sh fuel progs sched, rfl⟩

/-! ### no panic: with a capacity below 2^32 and requests whose size and alignment fit `u32`, no thread traps -/

/-- "no-trap type" of a thread program on an arena of capacity `cap` (every value read from the cursor is `≤ cap`) -/
inductive NT {α : Type} (cap : Nat) (post : α → Prop) : Prog α → Prop where
  | ret {a} : post a → NT cap post (.ret a)
  | diverge : NT cap post .diverge
  | load {s k} : (∀ v, v ≤ cap → NT cap post (k v)) → NT cap post (.load .alloc s k)
  | cas {e n w s k} : n ≤ cap → (∀ obs, obs ≤ cap → NT cap post (k (obs, false))) → NT cap post (k (e, true)) →
      NT cap post (.cas .alloc e n w s k)
  | faa {v s k} : (∀ old, NT cap post (k old)) → NT cap post (.rmw .disc v false s k)
  | na {off len k} : off + len ≤ cap → NT cap post (k ()) → NT cap post (.na (.zero off len) k)

theorem NT.bind {α β : Type} {cap : Nat} {post : α → Prop} {post' : β → Prop} {p : Prog α} {g : α → Prog β}
    (h : NT cap post p) (hg : ∀ a, post a → NT cap post' (g a)) : NT cap post' (p.bind g) := by
  induction h with
  | ret h => exact hg _ h
  | diverge => exact .diverge
  | load _ ih => exact .load ih
  | cas h1 _ _ ih1 ih2 => exact .cas h1 ih1 ih2
  | faa _ ih => exact .faa ih
  | na h1 _ ih => exact .na h1 ih

/-- the cursor loop: `want` does not trap on cursor values `≤ cap`, and what it asks for is `≤ cap` -/
theorem nt_bumpLoop {β : Type} (cap : Nat) (post : β → Prop) (fn : String) (want : Nat → M (Option Nat))
    (cont : Option (Nat × Nat) → Prog β) (Q : Nat → Nat → Prop)
    (hw : ∀ a, a ≤ cap → want a = .ok none ∨ ∃ wnt, want a = .ok (some wnt) ∧ wnt ≤ cap ∧ Q a wnt)
    (hnone : NT cap post (cont none)) (hsome : ∀ a wnt, Q a wnt → wnt ≤ cap → NT cap post (cont (some (a, wnt)))) :
    ∀ fuel a, a ≤ cap → NT cap post ((bumpLoopC fn want fuel a).bind cont)
  | 0, _, _ => .diverge
  | f + 1, a, ha => by
    unfold bumpLoopC
    rw [bind_eq]
    rcases hw a ha with hwa | ⟨wnt, hwa, hle, hq⟩
    · rw [hwa]
      exact hnone
    · rw [hwa]
      simp only [liftM', bind_eq, casw, Prog.bind]
      refine .cas hle (fun obs hobs => ?_) ?_
      · exact nt_bumpLoop cap post fn want cont Q hw hnone hsome f obs hobs
      · exact hsome a wnt hq hle

/-- requests whose alignment is not 0 and whose size and alignment fit `u32` above the capacity (as they do for every
    Rust type on an arena of at most 2^32 bytes that can hold them) -/
def Fits (cap : Nat) : NOp → Prop
  | .allocAligned ts ta _ => 0 < ta ∧ cap + ta + ts ≤ TWO32
  | .allocT ts ta => 0 < ta ∧ cap + ta + ts ≤ TWO32
  | _ => True

/-- the handle lies inside the arena -/
def InCap (cap : Nat) (m : Meta) : Prop := m.memOff + m.memSize ≤ cap

abbrev ntPost (cap : Nat) : Except Err (Option Meta) → Prop := fun r => ∀ m, r = .ok (some m) → InCap cap m

theorem nt_loadRet {β : Type} (cap : Nat) (post : β → Prop) (s : Site) (r : β) (hr : post r) :
    NT cap post (.load .alloc s (fun _ => .ret r)) := .load (fun _ _ => .ret hr)

theorem nt_allocBytes (c : Cfg) (hk : c.kind = .none) (hro : c.ro = false) (cap size fuel : Nat) :
    NT cap (ntPost cap) (allocBytesC c cap size fuel) := by
  unfold allocBytesC
  rw [hro]
  simp only [Bool.false_eq_true, if_false]
  split
  · exact .ret (fun m h => by cases h)
  · rename_i hs
    simp only [bind_eq, load, Prog.bind]
    refine .load (fun a0 ha0 => ?_)
    refine nt_bumpLoop cap _ _ _ _ (fun a w => w = a + size) (fun a _ => ?_) ?_ ?_ fuel a0 ha0
    · rcases hopt : (checkedAddU32 a size).filter (· ≤ cap) with _ | w
      · exact .inl rfl
      · have h : (pure ((checkedAddU32 a size).filter (· ≤ cap)) : M (Option Nat)) = .ok (some w) := by rw [hopt]; rfl
        obtain ⟨h1, _, h3⟩ := want_bytes hs h
        exact .inr ⟨w, rfl, h3, h1⟩
    · have h := retryLoop_none c hk size fuel pure 299 0
      dsimp only
      rw [h]
      exact nt_loadRet _ _ _ _ (fun m h => by cases h)
    · intro a wnt hq hle
      simp only [na, Prog.bind, pure_eq]
      refine .na ?_ (.ret (fun m h => ?_))
      · simp only [Meta.new]; omega
      · cases h
        simp only [InCap, Meta.new]; omega

theorem alignOffset_ok {a x : Nat} (ha : 0 < a) (h : x + a ≤ TWO32) :
    alignOffset a x = .ok ((x + a - 1) / a * a) ∧ (x + a - 1) / a * a ≤ x + a - 1 ∧ x ≤ (x + a - 1) / a * a := by
  have h1 : alignOffset a x = .ok ((x + a - 1) / a * a) := by
    unfold alignOffset
    rw [if_pos (by omega)]
    rfl
  exact ⟨h1, Nat.div_mul_le_self _ _, align_ge ha h1⟩

theorem nt_allocT (c : Cfg) (hk : c.kind = .none) (hro : c.ro = false) (cap tsize talign fuel : Nat)
    (hta : 0 < talign) (hfit : cap + talign + tsize ≤ TWO32) :
    NT cap (ntPost cap) (allocTC c cap tsize talign fuel) := by
  unfold allocTC
  rw [hro]
  simp only [Bool.false_eq_true, if_false]
  split
  · exact .ret (fun m h => by cases h)
  · simp only [bind_eq, load, Prog.bind]
    refine .load (fun a0 ha0 => ?_)
    refine nt_bumpLoop cap _ _ _ _ (fun a w => ∃ o, alignOffset talign a = .ok o ∧ w = o + tsize ∧ a ≤ o)
      (fun a ha => ?_) ?_ ?_ fuel a0 ha0
    · obtain ⟨h1, h2, h3⟩ := alignOffset_ok (a := talign) (x := a) hta (by omega)
      rw [h1]
      simp only [bind, Except.bind, addU32]
      rw [if_pos (by omega)]
      simp only [pure, Except.pure]
      split
      · rename_i hle
        exact .inr ⟨_, rfl, hle, _, rfl, rfl, h3⟩
      · exact .inl rfl
    · have h := retryLoop_none c hk (pad tsize talign) fuel (fun m => m.alignTo talign tsize) 299 0
      dsimp only
      rw [h]
      exact nt_loadRet _ _ _ _ (fun m h => by cases h)
    · rintro a wnt ⟨o, h1, h2, h3⟩ hle
      dsimp only
      have hm : (Meta.new a (wnt - a)).alignTo talign tsize = .ok ⟨a, wnt - a, o, tsize⟩ := by
        simp only [Meta.alignTo, Meta.new, h1, bind, Except.bind, pure, Except.pure]
      rw [hm]
      simp only [liftM', na, Prog.bind, pure_eq]
      refine .na (by omega) (.ret (fun m h => ?_))
      cases h
      simp only [InCap]; omega


theorem filter_checked {x y cap w : Nat} (h : (checkedAddU32 x y).filter (· ≤ cap) = some w) :
    w = x + y ∧ w ≤ cap := by
  unfold checkedAddU32 at h
  split at h
  · simp only [Option.filter_some] at h
    split at h
    · rename_i h'
      simp only [Option.some.injEq] at h
      subst h
      exact ⟨rfl, by simpa using h'⟩
    · cases h
  · cases h

theorem nt_allocAligned (c : Cfg) (hk : c.kind = .none) (hro : c.ro = false) (cap tsize talign extra fuel : Nat)
    (hta : 0 < talign) (hfit : cap + talign + tsize ≤ TWO32) :
    NT cap (ntPost cap) (allocAlignedC c cap tsize talign extra fuel) := by
  unfold allocAlignedC
  rw [hro]
  simp only [Bool.false_eq_true, if_false]
  split
  · exact nt_allocBytes c hk hro cap extra fuel
  · simp only [bind_eq, load, Prog.bind]
    refine .load (fun a0 ha0 => ?_)
    refine nt_bumpLoop cap _ _ _ _ (fun a w => ∃ o, alignOffset talign a = .ok o ∧ w = o + tsize + extra ∧ a ≤ o)
      (fun a ha => ?_) ?_ ?_ fuel a0 ha0
    · obtain ⟨h1, h2, h3⟩ := alignOffset_ok (a := talign) (x := a) hta (by omega)
      rw [h1]
      simp only [bind, Except.bind, addU32]
      rw [if_pos (by omega)]
      simp only [pure, Except.pure]
      rcases hopt : (checkedAddU32 ((a + talign - 1) / talign * talign + tsize) extra).filter (· ≤ cap) with _ | w
      · exact .inl rfl
      · obtain ⟨e1, e2⟩ := filter_checked hopt
        exact .inr ⟨w, rfl, e2, _, rfl, e1, h3⟩
    · dsimp only
      rcases checkedAddU32 (pad tsize talign) extra with _ | padded
      · simp only [remainingC, load, bind_eq, Prog.bind, pure_eq]
        exact nt_loadRet _ _ _ _ (fun m h => by cases h)
      · have h := retryLoop_none c hk padded fuel (fun m => m.alignBytesTo talign) 299 0
        dsimp only
        rw [h]
        exact nt_loadRet _ _ _ _ (fun m h => by cases h)
    · rintro a wnt ⟨o, h1, h2, h3⟩ hle
      dsimp only
      have e1 : addU32 "align_bytes_to:end" (Meta.new a (wnt - a)).ptrOff (Meta.new a (wnt - a)).ptrSize =
          .ok (a + (wnt - a)) := by
        show addU32 _ a (wnt - a) = _
        unfold addU32
        rw [if_pos (by omega)]
        rfl
      have e2 : alignOffset talign (Meta.new a (wnt - a)).ptrOff = .ok o := h1
      have e3 : subU "align_bytes_to:size" (a + (wnt - a)) o = .ok (a + (wnt - a) - o) := by
        unfold subU
        rw [if_pos (by omega)]
        rfl
      have hm : (Meta.new a (wnt - a)).alignBytesTo talign = .ok ⟨a, wnt - a, o, a + (wnt - a) - o⟩ := by
        simp only [Meta.alignBytesTo, e1, e2, e3, bind, Except.bind, pure, Except.pure]
        rfl
      rw [hm]
      simp only [liftM', Prog.bind, pure_eq]
      refine .ret (fun m h => ?_)
      cases h
      simp only [InCap]; omega

/-- `Drop` of a handle that lies inside the arena -/
theorem nt_dealloc (c : Cfg) (hk : c.kind = .none) (hro : c.ro = false) (cap off size fuel : Nat)
    (hcap : cap < TWO32) (h : off + size ≤ cap) : NT cap (fun _ => True) (deallocC c off size fuel) := by
  unfold deallocC
  rw [bind_eq]
  have hadd : addU32 "dealloc:offset+size" off size = .ok (off + size) := by
    unfold addU32
    rw [if_pos (by omega)]
    rfl
  rw [hadd]
  simp only [liftM', bind_eq, cas, Prog.bind]
  refine .cas (by omega) (fun obs _ => ?_) (.ret trivial)
  simp only [hk, incDiscardedC, hro, Bool.false_eq_true, if_false, bind_eq, faa, Prog.bind, pure_eq]
  exact .faa (fun _ => .ret trivial)

theorem keep_inCap {cap : Nat} {held : List Meta} {r : Except Err (Option Meta)}
    (hh : ∀ m ∈ held, InCap cap m) (hr : ntPost cap r) : ∀ m ∈ keep held r, InCap cap m := by
  intro m hm
  rcases r with e | (_ | m')
  · exact hh m hm
  · exact hh m hm
  · simp only [keep, List.mem_append, List.mem_singleton] at hm
    rcases hm with hm | rfl
    · exact hh m hm
    · exact hr _ rfl

theorem nt_noneProg (c : Cfg) (hk : c.kind = .none) (hro : c.ro = false) (cap fuel : Nat) (hcap : cap < TWO32) :
    ∀ (ops : List NOp), (∀ op ∈ ops, Fits cap op) → ∀ held : List Meta, (∀ m ∈ held, InCap cap m) →
      NT cap (fun _ => True) (noneProg c cap fuel ops held)
  | [], _, held, _ => .ret trivial
  | op :: rest, hfit, held, hh => by
    have hrest : ∀ op ∈ rest, Fits cap op := fun o ho => hfit o (List.mem_cons_of_mem _ ho)
    have hop : Fits cap op := hfit op List.mem_cons_self
    have hcont : ∀ r, ntPost cap r → NT cap (fun _ => True) (noneProg c cap fuel rest (keep held r)) :=
      fun r hr => nt_noneProg c hk hro cap fuel hcap rest hrest _ (keep_inCap hh hr)
    cases op with
    | allocBytes n =>
      unfold noneProg
      rw [bind_eq]
      exact (nt_allocBytes c hk hro cap n fuel).bind hcont
    | allocAligned ts ta ex =>
      unfold noneProg
      rw [bind_eq]
      exact (nt_allocAligned c hk hro cap ts ta ex fuel hop.1 hop.2).bind hcont
    | allocT ts ta =>
      unfold noneProg
      rw [bind_eq]
      exact (nt_allocT c hk hro cap ts ta fuel hop.1 hop.2).bind hcont
    | release i =>
      unfold noneProg
      rcases hi : held[i]? with _ | mm
      · exact nt_noneProg c hk hro cap fuel hcap rest hrest held hh
      · dsimp only
        rw [bind_eq]
        refine (nt_dealloc c hk hro cap mm.memOff mm.memSize fuel hcap (hh mm (List.mem_of_getElem? hi))).bind
          (fun _ _ => ?_)
        exact nt_noneProg c hk hro cap fuel hcap rest hrest _
          (fun m hm => hh m ((List.eraseIdx_sublist held i).subset hm))


theorem settle_nt {α : Type} {cap : Nat} {post : α → Prop} :
    ∀ (fuel : Nat) (sh : Shared) (p : Prog α) (nas : List NA), NT cap post p → sh.st.mem.size = cap →
      NT cap post (settle fuel sh p nas).2.1.toProg ∧
      (settle fuel sh p nas).1.st.allocated = sh.st.allocated ∧ (settle fuel sh p nas).1.st.mem.size = cap
  | 0, _, _, _, _, hc => ⟨.diverge, rfl, hc⟩
  | f + 1, sh, p, nas, h, hc => by
    cases h with
    | ret hp => exact ⟨.ret hp, rfl, hc⟩
    | diverge => exact ⟨.diverge, rfl, hc⟩
    | load h1 => exact ⟨.load h1, rfl, hc⟩
    | cas h1 h2 h3 => exact ⟨.cas h1 h2 h3, rfl, hc⟩
    | faa h1 => exact ⟨.faa h1, rfl, hc⟩
    | @na off len k h1 h2 =>
      rw [settle_na_eq]
      have hz : sh.st.mem.zero? off len = .ok (sh.st.mem.zero off len) := by
        unfold Mem.zero?
        rw [if_pos (by omega)]
        rfl
      have ha : sh.applyNA (.zero off len) = .ok { sh with st := { sh.st with mem := sh.st.mem.zero off len } } := by
        simp only [Shared.applyNA, hz, bind, Except.bind, pure, Except.pure]
      rw [ha]
      dsimp only
      have hc' : ({ sh with st := { sh.st with mem := sh.st.mem.zero off len } } : Shared).st.mem.size = cap := by
        dsimp only
        rw [Mem.size_zero]
        exact hc
      obtain ⟨a1, a2, a3⟩ := settle_nt f _ (k ()) (nas ++ [.zero off len]) h2 hc'
      exact ⟨a1, a2, a3⟩

theorem stepAccess_nt {α : Type} {cap : Nat} {post : α → Prop} {p : Prog α} (h : NT cap post p)
    (hacc : isAcc p = true) (sh : Shared) (sp : Bool) (hcur : sh.st.allocated ≤ cap) :
    ∃ sh2 p2 ev, stepAccess sh p sp = .ok (sh2, p2, ev) ∧ NT cap post p2 ∧ sh2.st.allocated ≤ cap ∧
      sh2.st.mem.size = sh.st.mem.size := by
  cases h with
  | ret _ => cases hacc
  | diverge => cases hacc
  | na _ _ => cases hacc
  | load h1 =>
    simp only [stepAccess, Shared.read, bind, Except.bind, pure, Except.pure]
    exact ⟨_, _, _, rfl, h1 _ hcur, hcur, rfl⟩
  | cas h1 h2 h3 =>
    simp only [stepAccess, Shared.read, bind, Except.bind, pure, Except.pure]
    split
    · exact ⟨_, _, _, rfl, h2 _ hcur, hcur, rfl⟩
    · split
      · rename_i he
        simp only [Shared.write, pure, Except.pure]
        subst he
        exact ⟨_, _, _, rfl, h3, h1, rfl⟩
      · exact ⟨_, _, _, rfl, h2 _ hcur, hcur, rfl⟩
  | faa h1 =>
    simp only [stepAccess, Shared.read, Shared.write, bind, Except.bind, pure, Except.pure]
    exact ⟨_, _, _, rfl, h1 _, hcur, rfl⟩

theorem tstep_nt {α : Type} {cap : Nat} {post : α → Prop} {p : Prog α} (h : NT cap post p) (sh : Shared) (sp : Bool)
    (hcur : sh.st.allocated ≤ cap) (hc : sh.st.mem.size = cap) :
    NT cap post (tstep sh p sp).2 ∧ (tstep sh p sp).1.st.allocated ≤ cap ∧ (tstep sh p sp).1.st.mem.size = cap := by
  unfold tstep
  obtain ⟨a1, a2, a3⟩ := settle_nt 100000 sh p [] h hc
  rcases hs : settle 100000 sh p [] with ⟨sh1, s, n1⟩
  rw [hs] at a1 a2 a3
  dsimp only at a1 a2 a3
  rcases s with a | fl | p1
  · exact ⟨a1, by rw [a2]; exact hcur, a3⟩
  · exact ⟨a1, by rw [a2]; exact hcur, a3⟩
  · dsimp only [Settled.toProg] at a1 ⊢
    have hacc := settle_blocked _ _ _ _ _ _ _ hs
    obtain ⟨sh2, p2, ev, b1, b2, b3, b4⟩ := stepAccess_nt a1 hacc sh1 sp (by rw [a2]; exact hcur)
    rw [b1]
    dsimp only
    obtain ⟨c1, c2, c3⟩ := settle_nt 100000 sh2 p2 [] b2 (b4.trans a3)
    rcases hs2 : settle 100000 sh2 p2 [] with ⟨sh3, s3, n3⟩
    rw [hs2] at c1 c2 c3
    dsimp only at c1 c2 c3 ⊢
    exact ⟨c1, by rw [c2]; exact b3, c3⟩

/-- invariant: every thread has the no-trap type, the cursor is within the capacity, the capacity is `cap` -/
def NInvT (cap : Nat) (g : Global (List Meta)) : Prop :=
  (∀ p ∈ g.threads, NT cap (fun _ => True) p) ∧ g.sh.st.allocated ≤ cap ∧ g.sh.st.mem.size = cap

theorem NInvT.step {cap : Nat} {g : Global (List Meta)} (h : NInvT cap g) (tid : Nat) (sp : Bool) :
    NInvT cap (g.step tid sp).1 := by
  rcases hq : g.threads[tid]? with _ | q
  · rw [step_none g tid sp hq]; exact h
  · rw [step_some g tid sp q hq]
    obtain ⟨h1, h2, h3⟩ := tstep_nt (h.1 q (List.mem_of_getElem? hq)) g.sh sp h.2.1 h.2.2
    refine ⟨fun p hp => ?_, h2, h3⟩
    rcases List.mem_or_eq_of_mem_set hp with hp | rfl
    · exact h.1 p hp
    · exact h1

theorem NInvT.run {cap : Nat} : ∀ (sched : List (Nat × Bool)) {g : Global (List Meta)}, NInvT cap g →
    NInvT cap (g.run sched).1
  | [], _, h => h
  | (tid, sp) :: rest, g, h => by
    rw [(run_cons g tid sp rest).1]
    exact NInvT.run rest (h.step tid sp)

/-- (no panic) on an arena of capacity below 2^32 whose cursor is within the capacity, threads whose typed/aligned
    requests fit `u32` (`Fits`) never trap: no arithmetic overflow, no out-of-bounds zero-fill -/
theorem none_no_trap (c : Cfg) (hk : c.kind = .none) (hro : c.ro = false) (sh : Shared) (fuel : Nat)
    (hcap : sh.st.cap < TWO32) (hhi : sh.st.allocated ≤ sh.st.cap)
    (progs : List (List NOp)) (hfit : ∀ ops ∈ progs, ∀ op ∈ ops, Fits sh.st.cap op) (sched : List (Nat × Bool)) :
    ∀ p ∈ ((initG c sh fuel progs).run sched).1.threads, ∀ s, p ≠ .trap s := by
  have h0 : NInvT sh.st.cap (initG c sh fuel progs) := by
    refine ⟨fun p hp => ?_, hhi, rfl⟩
    unfold initG at hp
    dsimp only at hp
    obtain ⟨ops, hops, rfl⟩ := List.mem_map.mp hp
    exact nt_noneProg c hk hro sh.st.cap fuel hcap ops (hfit ops hops) [] (fun m hm => by cases hm)
  have h1 := NInvT.run sched h0
  intro p hp s hs
  subst hs
  have := h1.1 _ hp
  cases this

/-- (every operation RETURNS) capacity below 2^32, requests that fit, loop fuel above `N + #spurious flags`: once
    thread `t` has been granted more than `2·|ops t| + (N − |ops t|) + #spurious flags` steps, it has returned -/
theorem none_thread_returns_ok (c : Cfg) (hk : c.kind = .none) (hro : c.ro = false) (sh : Shared) (fuel : Nat)
    (hcap : sh.st.cap < TWO32) (hhi : sh.st.allocated ≤ sh.st.cap)
    (progs : List (List NOp)) (hfit : ∀ ops ∈ progs, ∀ op ∈ ops, Fits sh.st.cap op) (sched : List (Nat × Bool))
    (t : Nat) (ops : List NOp) (ht : progs[t]? = some ops)
    (hfuel : nops progs + spc sched + 1 ≤ fuel)
    (hgr : 2 * ops.length + (nops progs - ops.length) + spc sched < grants t sched) :
    ∃ r, ((initG c sh fuel progs).run sched).1.threads[t]? = some (.ret r) := by
  rcases none_thread_returns c hk hro sh fuel progs sched t ops ht hfuel hgr with h | ⟨s, h⟩
  · exact h
  · exact absurd rfl (none_no_trap c hk hro sh fuel hcap hhi progs hfit sched _ (List.mem_of_getElem? h) s)

/-- (every operation returns, all threads) if every thread has been granted more steps than its bound, every thread
    has returned the handles it still holds -/
theorem none_all_return (c : Cfg) (hk : c.kind = .none) (hro : c.ro = false) (sh : Shared) (fuel : Nat)
    (hcap : sh.st.cap < TWO32) (hhi : sh.st.allocated ≤ sh.st.cap)
    (progs : List (List NOp)) (hfit : ∀ ops ∈ progs, ∀ op ∈ ops, Fits sh.st.cap op) (sched : List (Nat × Bool))
    (hfuel : nops progs + spc sched + 1 ≤ fuel)
    (hgr : ∀ t ops, progs[t]? = some ops → 2 * ops.length + (nops progs - ops.length) + spc sched < grants t sched) :
    ∀ p ∈ ((initG c sh fuel progs).run sched).1.threads, ∃ r, p = .ret r := by
  intro p hp
  rcases (none_all_finish c hk hro sh fuel progs sched hgr).2 hfuel p hp with h | ⟨s, h⟩
  · exact h
  · exact absurd h (none_no_trap c hk hro sh fuel hcap hhi progs hfit sched p hp s)

/-! ### non-vacuity: the 256-byte arena of `Proofs/ConcNone.lean`, cursor at 40, two threads, loop fuel 50 -/

/-- thread 0 allocates 16 bytes, thread 1 allocates 8 bytes. Both read the cursor (40); the first CAS of thread 1
    fails SPURIOUSLY, its second CAS succeeds (cursor 48); the CAS of thread 0 (expecting 40) FAILS because the cursor
    changed, it retries with the observed value and succeeds (cursor 64). -/
def exSched : List (Nat × Bool) := [(0, false), (1, false), (1, true), (1, false), (0, false), (0, false)]

theorem exSh_cap : exSh.st.cap = 256 := by decide +kernel

theorem exG_eq (a b : List NOp) : exG a b = initG exC exSh 50 [a, b] := by
  unfold exG initG
  rw [exSh_cap]

/-- six atomic accesses are performed, one of them is a spurious failure; both threads have returned -/
example : ((exG [.allocBytes 16] [.allocBytes 8]).run exSched).2.length = 6 ∧
    hits (exG [.allocBytes 16] [.allocBytes 8]) exSched = 1 ∧ spc exSched = 1 ∧
    exView ((exG [.allocBytes 16] [.allocBytes 8]).run exSched).1 = ([some [(48, 16)], some [(40, 8)]], 64, 0) := by
  decide +kernel

/-- the failed CASes are there: the trace contains exactly two weak CASes with `ok = false` -/
example : (((exG [.allocBytes 16] [.allocBytes 8]).run exSched).2.filter
    (fun x => x.2.kind == .casw && !x.2.ok)).length = 2 := by
  decide +kernel

/-- the global bound `2·N + (T−1)·N + hits = 4 + 2 + 1 = 7` on this run (6 accesses) -/
example : ((exG [.allocBytes 16] [.allocBytes 8]).run exSched).2.length ≤ 2 * 2 + (2 - 1) * 2 + 1 := by
  have h := none_steps_bounded exC rfl rfl exSh 50 [[.allocBytes 16], [.allocBytes 8]] exSched
  have h2 : hits (exG [.allocBytes 16] [.allocBytes 8]) exSched = 1 := by decide +kernel
  rw [← exG_eq, h2] at h
  exact h

/-- the per-thread bound is TIGHT for thread 0: 3 accesses = 2·1 + 1 interfering cursor change + 0 spurious failures;
    thread 1: 3 accesses ≤ 2·1 + 1 + 1 -/
example : evc 0 ((exG [.allocBytes 16] [.allocBytes 8]).run exSched).2 = 3 ∧
    interf 0 (exG [.allocBytes 16] [.allocBytes 8]) exSched = 1 ∧
    hitsOf 0 (exG [.allocBytes 16] [.allocBytes 8]) exSched = 0 ∧
    evc 1 ((exG [.allocBytes 16] [.allocBytes 8]).run exSched).2 = 3 ∧
    interf 1 (exG [.allocBytes 16] [.allocBytes 8]) exSched = 1 ∧
    hitsOf 1 (exG [.allocBytes 16] [.allocBytes 8]) exSched = 1 := by
  decide +kernel

/-- with loop fuel 1 (< N + spurious flags + 1 = 4) thread 1 DOES run out of fuel on the same schedule prefix:
    the fuel hypothesis of `none_no_diverge` is needed -/
example : ((initG exC exSh 1 [[.allocBytes 16], [.allocBytes 8]]).run [(1, false), (1, true)]).1.threads.map
      (fun p => match p with | .diverge => true | _ => false) = [false, true] := by
  decide +kernel


/-- the hypotheses of `none_thread_returns_ok` are satisfiable on this arena: capacity 256 < 2^32, cursor 40 ≤ 256,
    and typical requests fit -/
example : exSh.st.cap < TWO32 ∧ exSh.st.allocated ≤ exSh.st.cap ∧
    (∀ ops ∈ [[NOp.allocT 8 8, .allocAligned 4 4 3, .release 0], [.allocBytes 3, .allocT 4 4]], ∀ op ∈ ops,
      Fits exSh.st.cap op) := by
  refine ⟨by decide +kernel, by decide +kernel, ?_⟩
  rw [exSh_cap]
  intro ops hops op hop
  simp only [List.mem_cons, List.not_mem_nil, or_false] at hops
  rcases hops with rfl | rfl <;> simp only [List.mem_cons, List.not_mem_nil, or_false] at hop <;>
    rcases hop with rfl | rfl | rfl <;> simp only [Fits, TWO32] <;> omega

/-- `none_thread_returns_ok` applied: 4 grants to thread 0 exceed `2·1 + (2 − 1) + 0`, so on EVERY schedule without
    spurious flags that grants thread 0 at least 4 steps, thread 0 has returned — e.g. this one -/
example : ∃ r, ((initG exC exSh 50 [[.allocBytes 16], [.allocBytes 8]]).run
    [(0, false), (1, false), (1, false), (0, false), (0, false), (0, false)]).1.threads[0]? = some (.ret r) := by
  refine none_thread_returns_ok exC rfl rfl exSh 50 (by decide +kernel) (by decide +kernel) _ ?_ _ 0 [.allocBytes 16] rfl
    (by decide) (by decide)
  intro ops hops op hop
  simp only [List.mem_cons, List.not_mem_nil, or_false] at hops
  rcases hops with rfl | rfl <;> simp only [List.mem_cons, List.not_mem_nil, or_false] at hop <;>
    subst hop <;> trivial

/- OPEN (not proved here):
   * A per-OPERATION form of L2: "between the first access of one operation of thread `t` and its return, `t` performs
     at most `2 + (changes of the cursor by other threads in that window) + (spurious failures of t in that window)`
     accesses". Proved here is the per-thread aggregate `none_thread_steps`
       `evc t trace ≤ 2·|ops t| + interf t g0 sched + hitsOf t g0 sched`
     (the coefficient of the interference is 1, not 2) and obstruction freedom from any reachable state
     (`none_obstruction_free`, with `+ 1` for an already doomed CAS); operation boundaries are not tracked.
   * Infinite schedules / fairness are not formalised; every statement is about all finite prefixes. The bounds contain
     the spurious failures (`hits`, `hitsOf`, or the number of flags `spc`): a schedule that makes every weak CAS fail
     spuriously prevents termination, as `compare_exchange_weak` allows.
   * `none_no_diverge` needs `fuel > N + #spurious flags`; the loop of `sync.rs` has no fuel, the hypothesis only says
     that the model's fuel parameter is not the reason for a `diverge` (see the last-but-two example: with fuel 1 it is).
   * `Fits` (for `none_no_trap`) asks `cap + align + size ≤ 2^32` for typed/aligned requests; requests beyond that
     make `align_offset`'s unchecked `u32` addition overflow (a `trap` of the model), which also finishes the operation.
   * Only `kind = none`, `ro = false`, and the programs of `Proofs/ConcNone.lean`; the free-list kinds (`opt`, `pess`),
     whose loops are lock-free but not bounded per thread, are outside this file.
-/

end Rarena.Conc.NoneTerm
