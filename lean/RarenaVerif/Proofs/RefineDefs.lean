/-
  Proofs.RefineDefs — the concrete invariant `CInv` relating a `Core` state to its abstract free list,
  and the frame predicates used by the refinement theorems (definitions only).
-/
import RarenaVerif.Proofs.Chain
import RarenaVerif.Model.Layout

namespace Rarena

/-- the concrete state `s` represents the abstract state `s.abs free` -/
structure CInv (c : Cfg) (s : St) (free : List Seg) (lives : List Ext) : Prop where
  wf : WF c (s.abs free) lives
  chain : Chain s.mem free
  sent : s.sentinel = enc MAXU32 (hd free)
  /-- guard for the unchecked addition inside `align_offset` (see DESIGN.md, C04) -/
  capGuard : s.cap + 8192 ≤ TWO32
  minSegLt : s.minSeg < TWO32
  retriesOK : c.sync = true → c.retries ≤ 255

/-- bytes inside every extent of `lives` are the same in `s'` as in `s` -/
def LiveIntact (s s' : St) (lives : List Ext) : Prop :=
  ∀ e ∈ lives, ∀ i, e.1 ≤ i → i < e.2 → s'.mem.rd i = s.mem.rd i

/-- the reserved prefix and the header area `[0, dataOffset)` are untouched -/
def PrefixIntact (c : Cfg) (s s' : St) : Prop := ∀ i, i < c.dataOffset → s'.mem.rd i = s.mem.rd i

/-- the accessible range of `m` reads as zero -/
def Zeroed (s : St) (m : Meta) : Prop := ∀ i, m.ptrOff ≤ i → i < m.ptrOff + m.ptrSize → s.mem.rd i = 0

/-- typed requests of the API: alignment 1..16, size a multiple of it and at most a page -/
def TyOK (tsize talign : Nat) : Prop := okAlignment talign ∧ tsize % talign = 0 ∧ tsize ≤ 4096

/-- what a refinement step guarantees besides the result: the abstract state is tracked, memory size is
    unchanged, live bytes and the prefix are intact -/
structure StepOK (c : Cfg) (s s' : St) (a' : A) (lives : List Ext) : Prop where
  abs : s'.abs a'.free = a'
  size : s'.mem.size = s.mem.size
  live : LiveIntact s s' lives
  pre : PrefixIntact c s s'

end Rarena
