/-
  Proofs.ConcDisc — accounting of the header counter `discarded` of `sync::Arena` under EVERY interleaving: for
  every free-list kind (None / Optimistic / Pessimistic — the configuration is arbitrary everywhere), any number of
  threads, any schedule (including spurious failures of the weak CAS), any fuel, over all operations of `sync.rs`
  that `Model.Conc` has.

  1. `DiscFaaOnly p` (inductive, syntactic): every access of `p` to `ALoc.disc` is a load or an `rmw` with
     `sub = false` (a `fetch_add`) — no store, no CAS, no `fetch_sub` on `.disc`; other locations and `na` effects are
     unrestricted. `DiscFaaOnly.bind` / `dfo_bind`: closed under `Prog.bind` / `>>=`.
  2. `dfo_incDiscarded`, `dfo_dealloc`, `dfo_freelistDealloc`, `dfo_allocBytes`, `dfo_allocAligned`, `dfo_allocT`,
     `dfo_discardFreelist`, `dfo_clone`, `dfo_dropArena`, `dfo_remaining` (and the loops `dfo_findPositionC`,
     `dfo_findPrevNextC`, `dfo_insertLoop`, `dfo_slowOpt`, `dfo_slowPess`, `dfo_retryLoop`, `dfo_bumpLoop`,
     `dfo_discardLoop`, by induction over their fuel): every operation program satisfies the predicate, for every
     `Cfg` and every fuel. `DOp` / `DOp.run` name the operations; `discProg` is a thread running a fixed list of
     them, `clientProg` an ADAPTIVE client whose next operation is any function of the results obtained so far;
     `dfo_discProg`, `dfo_clientProg`.
  3. `step_dfo` (per step): one `Global.step` keeps all threads in the predicate and satisfies `StepDisc`: either
     `st.discarded` is unchanged (and the event, if it is on `.disc`, is a load), or the event is a `.faa` on `.disc`
     with `old` = value before, `new = (old + v) % 2^32` = value after. `step_faa_arg` (no hypothesis on the
     programs): that `v` is the argument of the `rmw .disc v false` node the thread executed.
     `discarded_accounting` (main theorem, by induction over the schedule, `run_dfo`): for `(g, evs) = run sched`,
     `g.discarded % 2^32 = (initial + Σ_{e ∈ evs} discDelta e) % 2^32` where `discDelta e = (e.new + 2^32 - e.old % 2^32)
     % 2^32` for the `.faa` events on `.disc` and 0 otherwise (`discSum_eq_filter`: the same sum with a filter); every
     event on `.disc` is `.faa` or `.ld`; every such `.faa` has `new = (old + v) % 2^32`. `discarded_exact`: if the
     initial value is < 2^32 so is the final one and the equation holds without the outer `%`.
     `discarded_accounting_ops` / `_clients`: the instances for `discProg` / `clientProg` threads.
  4. `discarded_nowrap`: initial < 2^32 and initial + Σ increments < 2^32 → final = initial + Σ increments ≥ initial.
     `discarded_prefix_mono` (with `run_append`): under the same hypothesis for `s1 ++ s2`,
     initial ≤ value after `s1` ≤ value after `s1 ++ s2`.
  5. `Example`: two concrete machines evaluated by `decide` (kind None without wrap, kind Optimistic with wrap).
-/
import RarenaVerif.Model.Conc

namespace Rarena.Conc.Disc
open Rarena Rarena.Conc

/-! ### 1. the syntactic predicate -/

/-- every access of the program to `ALoc.disc` is a load or a `fetch_add` (`rmw` with `sub = false`): no store,
    no CAS, no `fetch_sub` on `.disc`. Accesses to other locations and non-atomic effects are unrestricted. -/
inductive DiscFaaOnly {α : Type} : Prog α → Prop where
  | ret (a : α) : DiscFaaOnly (.ret a)
  | trap (s : String) : DiscFaaOnly (.trap s)
  | diverge : DiscFaaOnly .diverge
  | load {l s k} : (∀ v, DiscFaaOnly (k v)) → DiscFaaOnly (.load l s k)
  | store {l v s k} : l ≠ .disc → (∀ u, DiscFaaOnly (k u)) → DiscFaaOnly (.store l v s k)
  | cas {l e n w s k} : l ≠ .disc → (∀ r, DiscFaaOnly (k r)) → DiscFaaOnly (.cas l e n w s k)
  | rmw {l v sub s k} : (l = .disc → sub = false) → (∀ r, DiscFaaOnly (k r)) → DiscFaaOnly (.rmw l v sub s k)
  | na {e k} : (∀ u, DiscFaaOnly (k u)) → DiscFaaOnly (.na e k)

theorem DiscFaaOnly.bind {α β : Type} {p : Prog α} {f : α → Prog β} (h : DiscFaaOnly p)
    (hf : ∀ a, DiscFaaOnly (f a)) : DiscFaaOnly (p.bind f) := by
  induction h with
  | ret a => exact hf a
  | trap s => exact .trap s
  | diverge => exact .diverge
  | load _ ih => exact .load ih
  | store h _ ih => exact .store h ih
  | cas h _ ih => exact .cas h ih
  | rmw h _ ih => exact .rmw h ih
  | na _ ih => exact .na ih

/-- the same for the `>>=` of the `Monad Prog` instance (what `do` blocks elaborate to) -/
theorem dfo_bind {α β : Type} {p : Prog α} {f : α → Prog β} (h : DiscFaaOnly p)
    (hf : ∀ a, DiscFaaOnly (f a)) : DiscFaaOnly (p >>= f) := h.bind hf

theorem dfo_pure {α : Type} (a : α) : DiscFaaOnly (pure a : Prog α) := .ret a

/-- the predicate does exclude something: a store, a CAS (strong or weak) and a `fetch_sub` on `.disc` violate it -/
example : ¬ DiscFaaOnly (store .disc 0 "f" 0) := fun h => by cases h; contradiction
example : ¬ DiscFaaOnly (cas .disc 0 1 "f" 0) := fun h => by cases h; contradiction
example : ¬ DiscFaaOnly (casw .disc 0 1 "f" 0) := fun h => by cases h; contradiction
example : ¬ DiscFaaOnly (fas .disc 1 "f" 0) := fun h => by
  cases h with
  | rmw h1 _ => exact absurd (h1 rfl) (by decide)

/-! ### 2. every operation program of the model satisfies it -/

theorem locOf_ne_disc (l : Loc) : locOf l ≠ .disc := by cases l <;> nofun

theorem dfo_load (l : ALoc) (fn : String) (idx : Nat) : DiscFaaOnly (load l fn idx) := .load (fun v => .ret v)
theorem dfo_store {l : ALoc} (h : l ≠ .disc) (v : Nat) (fn : String) (idx : Nat) : DiscFaaOnly (store l v fn idx) :=
  .store h (fun u => .ret u)
theorem dfo_cas {l : ALoc} (h : l ≠ .disc) (e n : Nat) (fn : String) (idx : Nat) : DiscFaaOnly (cas l e n fn idx) :=
  .cas h (fun r => .ret r)
theorem dfo_casw {l : ALoc} (h : l ≠ .disc) (e n : Nat) (fn : String) (idx : Nat) : DiscFaaOnly (casw l e n fn idx) :=
  .cas h (fun r => .ret r)
theorem dfo_faa (l : ALoc) (v : Nat) (fn : String) (idx : Nat) : DiscFaaOnly (faa l v fn idx) :=
  .rmw (fun _ => rfl) (fun r => .ret r)
theorem dfo_fas {l : ALoc} (h : l ≠ .disc) (v : Nat) (fn : String) (idx : Nat) : DiscFaaOnly (fas l v fn idx) :=
  .rmw (fun hl => absurd hl h) (fun r => .ret r)
theorem dfo_na (e : NA) : DiscFaaOnly (na e) := .na (fun u => .ret u)
theorem dfo_liftM' {α : Type} (x : M α) : DiscFaaOnly (liftM' x) := by
  rcases x with (_ | _) | a
  · exact .trap _
  · exact .diverge
  · exact .ret a

/-- side conditions `l ≠ .disc` -/
macro "dfo_side" : tactic => `(tactic| first | exact locOf_ne_disc _ | nofun)

/-- extensible list of leaves (one `macro_rules` per proved program) -/
syntax "dfo_leaf" : tactic
macro_rules | `(tactic| dfo_leaf) => `(tactic| first
  | exact dfo_load _ _ _
  | exact dfo_faa _ _ _ _
  | exact dfo_na _
  | exact dfo_liftM' _
  | exact dfo_store (by dfo_side) _ _ _
  | exact dfo_cas (by dfo_side) _ _ _ _
  | exact dfo_casw (by dfo_side) _ _ _ _
  | exact dfo_fas (by dfo_side) _ _ _)

/-- walk through a `do` block: leaves, `>>=`, `if`/`match`, `let`; `ih` is the induction hypothesis of a loop -/
macro "dfo_ih " ih:term : tactic => `(tactic| repeat (first
  | exact DiscFaaOnly.ret _
  | exact DiscFaaOnly.trap _
  | exact DiscFaaOnly.diverge
  | apply $ih
  | dfo_leaf
  | apply dfo_bind
  | intro _
  | split
  | dsimp only))

macro "dfo" : tactic => `(tactic| dfo_ih DiscFaaOnly.diverge)

theorem dfo_remaining : DiscFaaOnly remainingC := by unfold remainingC; dfo
macro_rules | `(tactic| dfo_leaf) => `(tactic| exact dfo_remaining)

theorem dfo_incDiscarded (c : Cfg) (n : Nat) : DiscFaaOnly (incDiscardedC c n) := by unfold incDiscardedC; dfo
macro_rules | `(tactic| dfo_leaf) => `(tactic| exact dfo_incDiscarded _ _)

theorem dfo_findPositionC (val : Nat) (cmp : Nat → Nat → Bool) :
    ∀ (fuel : Nat) (loc : Loc) (cur : Nat), DiscFaaOnly (findPositionC val cmp fuel loc cur) := by
  intro fuel
  induction fuel with
  | zero => intro loc cur; exact .diverge
  | succ f ih => intro loc cur; unfold findPositionC; dfo_ih ih
macro_rules | `(tactic| dfo_leaf) => `(tactic| exact dfo_findPositionC _ _ _ _ _)

theorem dfo_findPositionTop (val : Nat) (cmp : Nat → Nat → Bool) (fuel : Nat) :
    DiscFaaOnly (findPositionTop val cmp fuel) := by unfold findPositionTop; dfo
macro_rules | `(tactic| dfo_leaf) => `(tactic| exact dfo_findPositionTop _ _ _)

theorem dfo_findPrevNextC (val : Nat) (cmp : Nat → Nat → Bool) :
    ∀ (fuel : Nat) (loc : Loc) (cur : Nat), DiscFaaOnly (findPrevNextC val cmp fuel loc cur) := by
  intro fuel
  induction fuel with
  | zero => intro loc cur; exact .diverge
  | succ f ih => intro loc cur; unfold findPrevNextC; dfo_ih ih
macro_rules | `(tactic| dfo_leaf) => `(tactic| exact dfo_findPrevNextC _ _ _ _ _)

theorem dfo_findPrevNextTop (val : Nat) (cmp : Nat → Nat → Bool) (fuel : Nat) :
    DiscFaaOnly (findPrevNextTop val cmp fuel) := by unfold findPrevNextTop; dfo
macro_rules | `(tactic| dfo_leaf) => `(tactic| exact dfo_findPrevNextTop _ _ _)

theorem dfo_validateSegment (offset size : Nat) : DiscFaaOnly (validateSegmentC offset size) := by
  unfold validateSegmentC; dfo
macro_rules | `(tactic| dfo_leaf) => `(tactic| exact dfo_validateSegment _ _)

theorem dfo_tryNewSegment (c : Cfg) (offset size : Nat) : DiscFaaOnly (tryNewSegmentC c offset size) := by
  unfold tryNewSegmentC; dfo
macro_rules | `(tactic| dfo_leaf) => `(tactic| exact dfo_tryNewSegment _ _ _)

theorem dfo_insertLoop (c : Cfg) (seg : SegRef) (fuel : Nat) :
    ∀ tries : Nat, DiscFaaOnly (insertLoopC c seg fuel tries) := by
  intro tries
  induction tries with
  | zero => exact .diverge
  | succ t ih => unfold insertLoopC; dfo_ih ih
macro_rules | `(tactic| dfo_leaf) => `(tactic| exact dfo_insertLoop _ _ _ _)

theorem dfo_freelistDealloc (c : Cfg) (offset size fuel : Nat) : DiscFaaOnly (freelistDeallocC c offset size fuel) := by
  unfold freelistDeallocC; dfo
macro_rules | `(tactic| dfo_leaf) => `(tactic| exact dfo_freelistDealloc _ _ _ _)

theorem dfo_dealloc (c : Cfg) (offset size fuel : Nat) : DiscFaaOnly (deallocC c offset size fuel) := by
  unfold deallocC; dfo
macro_rules | `(tactic| dfo_leaf) => `(tactic| exact dfo_dealloc _ _ _ _)

theorem dfo_finishSlow (c : Cfg) (off nodeSize size fuel : Nat) : DiscFaaOnly (finishSlowC c off nodeSize size fuel) := by
  unfold finishSlowC; dfo
macro_rules | `(tactic| dfo_leaf) => `(tactic| exact dfo_finishSlow _ _ _ _ _)

theorem dfo_slowOpt (c : Cfg) (size fuel : Nat) : ∀ tries : Nat, DiscFaaOnly (slowOptC c size fuel tries) := by
  intro tries
  induction tries with
  | zero => exact .diverge
  | succ t ih => unfold slowOptC; dfo_ih ih
macro_rules | `(tactic| dfo_leaf) => `(tactic| exact dfo_slowOpt _ _ _ _)

theorem dfo_slowPess (c : Cfg) (size fuel : Nat) : ∀ tries : Nat, DiscFaaOnly (slowPessC c size fuel tries) := by
  intro tries
  induction tries with
  | zero => exact .diverge
  | succ t ih => unfold slowPessC; dfo_ih ih
macro_rules | `(tactic| dfo_leaf) => `(tactic| exact dfo_slowPess _ _ _ _)

theorem dfo_slowPath (c : Cfg) (size fuel : Nat) : DiscFaaOnly (slowPathC c size fuel) := by
  unfold slowPathC; dfo
macro_rules | `(tactic| dfo_leaf) => `(tactic| exact dfo_slowPath _ _ _)

theorem dfo_retryLoop (c : Cfg) (size fuel : Nat) (post : Meta → M Meta) :
    ∀ n i : Nat, DiscFaaOnly (retryLoopC c size fuel post n i) := by
  intro n
  induction n with
  | zero => intro i; exact .diverge
  | succ n ih => intro i; unfold retryLoopC; dfo_ih ih
macro_rules | `(tactic| dfo_leaf) => `(tactic| exact dfo_retryLoop _ _ _ _ _ _)

theorem dfo_bumpLoop (fn : String) (want : Nat → M (Option Nat)) :
    ∀ fuel allocated : Nat, DiscFaaOnly (bumpLoopC fn want fuel allocated) := by
  intro fuel
  induction fuel with
  | zero => intro a; exact .diverge
  | succ f ih => intro a; unfold bumpLoopC; dfo_ih ih
macro_rules | `(tactic| dfo_leaf) => `(tactic| exact dfo_bumpLoop _ _ _ _)

theorem dfo_allocBytes (c : Cfg) (cap size fuel : Nat) : DiscFaaOnly (allocBytesC c cap size fuel) := by
  unfold allocBytesC; dfo
macro_rules | `(tactic| dfo_leaf) => `(tactic| exact dfo_allocBytes _ _ _ _)

theorem dfo_allocAligned (c : Cfg) (cap tsize talign extra fuel : Nat) :
    DiscFaaOnly (allocAlignedC c cap tsize talign extra fuel) := by
  unfold allocAlignedC; dfo
macro_rules | `(tactic| dfo_leaf) => `(tactic| exact dfo_allocAligned _ _ _ _ _ _)

theorem dfo_allocT (c : Cfg) (cap tsize talign fuel : Nat) : DiscFaaOnly (allocTC c cap tsize talign fuel) := by
  unfold allocTC; dfo
macro_rules | `(tactic| dfo_leaf) => `(tactic| exact dfo_allocT _ _ _ _ _)

theorem dfo_discardLoop (c : Cfg) : ∀ fuel acc : Nat, DiscFaaOnly (discardLoopC c fuel acc) := by
  intro fuel
  induction fuel with
  | zero => intro a; exact .diverge
  | succ f ih => intro a; unfold discardLoopC; dfo_ih ih
macro_rules | `(tactic| dfo_leaf) => `(tactic| exact dfo_discardLoop _ _ _)

theorem dfo_discardFreelist (c : Cfg) (fuel : Nat) : DiscFaaOnly (discardFreelistC c fuel) := by
  unfold discardFreelistC; dfo
macro_rules | `(tactic| dfo_leaf) => `(tactic| exact dfo_discardFreelist _ _)

theorem dfo_clone : DiscFaaOnly cloneC := by unfold cloneC; dfo
macro_rules | `(tactic| dfo_leaf) => `(tactic| exact dfo_clone)

theorem dfo_dropArena : DiscFaaOnly dropArenaC := by unfold dropArenaC; dfo
macro_rules | `(tactic| dfo_leaf) => `(tactic| exact dfo_dropArena)

/-! ### 2b. client threads: any sequence of operations, fixed or adaptive -/

/-- the operations of `sync.rs` that the model has (plus the client's own non-atomic reads / writes) -/
inductive DOp where
  | allocBytes (n : Nat)
  | allocAligned (tsize talign extra : Nat)
  | allocT (tsize talign : Nat)
  | dealloc (off size : Nat)
  | discardFreelist
  | incDiscarded (n : Nat)
  | clone
  | dropArena
  | remaining
  | fill (off len : Nat) (b : UInt8)
  | verify (off len : Nat)

/-- what an operation returns to the client -/
inductive DRes where
  | unit
  | alloc (r : Except Err (Option Meta))
  | dealloc (b : Bool)
  | discard (r : Except Err Nat)

/-- the program of one operation -/
def DOp.run (c : Cfg) (cap fuel : Nat) : DOp → Prog DRes
  | .allocBytes n => do let r ← allocBytesC c cap n fuel; pure (.alloc r)
  | .allocAligned tsize talign extra => do let r ← allocAlignedC c cap tsize talign extra fuel; pure (.alloc r)
  | .allocT tsize talign => do let r ← allocTC c cap tsize talign fuel; pure (.alloc r)
  | .dealloc off size => do let b ← deallocC c off size fuel; pure (.dealloc b)
  | .discardFreelist => do let r ← discardFreelistC c fuel; pure (.discard r)
  | .incDiscarded n => do incDiscardedC c n; pure .unit
  | .clone => do cloneC; pure .unit
  | .dropArena => do dropArenaC; pure .unit
  | .remaining => do remainingC; pure .unit
  | .fill off len b => do na (.fill off len b); pure .unit
  | .verify off len => do na (.verify off len); pure .unit

theorem dfo_op (c : Cfg) (cap fuel : Nat) (op : DOp) : DiscFaaOnly (op.run c cap fuel) := by
  cases op <;> (unfold DOp.run; dfo)
macro_rules | `(tactic| dfo_leaf) => `(tactic| exact dfo_op _ _ _ _)

/-- a thread that performs a fixed list of operations one after the other and returns their results -/
def discProg (c : Cfg) (cap fuel : Nat) : List DOp → Prog (List DRes)
  | [] => pure []
  | op :: rest => do
    let r ← op.run c cap fuel
    let rs ← discProg c cap fuel rest
    pure (r :: rs)

theorem dfo_discProg (c : Cfg) (cap fuel : Nat) : ∀ ops : List DOp, DiscFaaOnly (discProg c cap fuel ops) := by
  intro ops
  induction ops with
  | nil => exact .ret _
  | cons op rest ih => unfold discProg; dfo_ih ih

/-- an ADAPTIVE client: `next` chooses the next operation (or stops) from the results obtained so far, e.g.
    deallocates the very handle a previous allocation returned; at most `n` operations -/
def clientProg (c : Cfg) (cap fuel : Nat) (next : List DRes → Option DOp) : Nat → List DRes → Prog (List DRes)
  | 0, acc => pure acc
  | n + 1, acc =>
    match next acc with
    | none => pure acc
    | some op => do
      let r ← op.run c cap fuel
      clientProg c cap fuel next n (acc ++ [r])

theorem dfo_clientProg (c : Cfg) (cap fuel : Nat) (next : List DRes → Option DOp) :
    ∀ (n : Nat) (acc : List DRes), DiscFaaOnly (clientProg c cap fuel next n acc) := by
  intro n
  induction n with
  | zero => intro acc; exact .ret _
  | succ n ih => intro acc; unfold clientProg; dfo_ih ih

/-! ### 3. the machine -/

theorem applyNA_disc (sh sh' : Shared) (e : NA) (h : sh.applyNA e = .ok sh') :
    sh'.st.discarded = sh.st.discarded := by
  cases e with
  | zero off len =>
    simp only [Shared.applyNA, bind, Except.bind, pure, Except.pure] at h
    split at h
    · cases h
    · cases h; rfl
  | fill off len b => simp only [Shared.applyNA, pure, Except.pure] at h; cases h; rfl
  | verify off len => simp only [Shared.applyNA, pure, Except.pure] at h; cases h; rfl
  | unmount => simp only [Shared.applyNA, pure, Except.pure] at h; cases h; rfl

def toProg {α : Type} : Settled α → Prog α
  | .done a => .ret a
  | .failed (.trap s) => .trap s
  | .failed .diverge => .diverge
  | .blocked p => p

/-- running a non-atomic prefix never changes the counter (no hypothesis on the program) -/
theorem settle_disc {α : Type} : ∀ (fuel : Nat) (sh : Shared) (p : Prog α) (nas : List NA),
    (settle fuel sh p nas).1.st.discarded = sh.st.discarded
  | 0, _, _, _ => rfl
  | f + 1, sh, p, nas => by
    cases p with
    | na e k =>
      simp only [settle]
      rcases ha : sh.applyNA e with fl | sh'
      · rfl
      · exact (settle_disc f sh' (k ()) (nas ++ [e])).trans (applyNA_disc sh sh' e ha)
    | _ => rfl

theorem settle_dfo {α : Type} : ∀ (fuel : Nat) (sh : Shared) (p : Prog α) (nas : List NA), DiscFaaOnly p →
    DiscFaaOnly (toProg (settle fuel sh p nas).2.1)
  | 0, _, _, _, _ => .diverge
  | f + 1, sh, p, nas, h => by
    cases h with
    | ret a => exact .ret a
    | trap s => exact .trap s
    | diverge => exact .diverge
    | load h => exact .load h
    | store h1 h2 => exact .store h1 h2
    | cas h1 h2 => exact .cas h1 h2
    | rmw h1 h2 => exact .rmw h1 h2
    | @na e k h =>
      simp only [settle]
      rcases ha : sh.applyNA e with fl | sh'
      · rcases fl with s | _
        · exact .trap s
        · exact .diverge
      · exact settle_dfo f sh' (k ()) (nas ++ [e]) (h ())

theorem write_ne_disc {sh sh' : Shared} {l : ALoc} {v : Nat} (hl : l ≠ .disc) (h : sh.write l v = .ok sh') :
    sh'.st.discarded = sh.st.discarded := by
  cases l with
  | disc => exact absurd rfl hl
  | node off =>
    simp only [Shared.write, bind, Except.bind, pure, Except.pure] at h
    split at h
    · cases h
    · cases h; rfl
  | _ => simp only [Shared.write, pure, Except.pure] at h; cases h; rfl

/-- what one step may do to the counter (`d` before, `d'` after, the reported event): nothing, and then the
    event, if it is on `.disc`, is a load; or the event is a `fetch_add` on `.disc` that read `d` and wrote
    `d' = (d + v) % 2^32` -/
def StepDisc (d d' : Nat) : Option Event → Prop
  | none => d' = d
  | some e =>
    ((e.loc = .disc → e.kind = .ld) ∧ d' = d) ∨
    (e.loc = .disc ∧ e.kind = .faa ∧ e.old = d ∧ d' = e.new ∧ ∃ v, e.new = (d + v) % TWO32)

theorem stepAccess_dfo {α : Type} {sh sh2 : Shared} {p p2 : Prog α} {sp : Bool} {ev : Event}
    (h : DiscFaaOnly p) (hs : stepAccess sh p sp = .ok (sh2, p2, ev)) :
    DiscFaaOnly p2 ∧ StepDisc sh.st.discarded sh2.st.discarded (some ev) := by
  cases h with
  | ret a => simp [stepAccess, throw, throwThe, MonadExceptOf.throw] at hs
  | trap s => simp [stepAccess, throw, throwThe, MonadExceptOf.throw] at hs
  | diverge => simp [stepAccess, throw, throwThe, MonadExceptOf.throw] at hs
  | na h => simp [stepAccess, throw, throwThe, MonadExceptOf.throw] at hs
  | @load l s k h =>
    simp only [stepAccess, bind, Except.bind, pure, Except.pure] at hs
    split at hs
    · cases hs
    · cases hs; exact ⟨h _, .inl ⟨fun _ => rfl, rfl⟩⟩
  | @store l v s k h1 h2 =>
    simp only [stepAccess, bind, Except.bind, pure, Except.pure] at hs
    split at hs
    · cases hs
    · split at hs
      · cases hs
      · rename_i sh' hw
        cases hs
        exact ⟨h2 _, .inl ⟨fun hl => absurd hl h1, write_ne_disc h1 hw⟩⟩
  | @cas l e n w s k h1 h2 =>
    simp only [stepAccess, bind, Except.bind, pure, Except.pure] at hs
    split at hs
    · cases hs
    · split at hs
      · cases hs; exact ⟨h2 _, .inl ⟨fun hl => absurd hl h1, rfl⟩⟩
      · split at hs
        · split at hs
          · cases hs
          · rename_i sh' hw
            cases hs
            exact ⟨h2 _, .inl ⟨fun hl => absurd hl h1, write_ne_disc h1 hw⟩⟩
        · cases hs; exact ⟨h2 _, .inl ⟨fun hl => absurd hl h1, rfl⟩⟩
  | @rmw l v sub s k h1 h2 =>
    by_cases hl : l = .disc
    · subst hl
      have := h1 rfl
      subst this
      simp only [stepAccess, Shared.read, Shared.write, ALoc.modulus, bind, Except.bind, pure, Except.pure,
        Bool.false_eq_true, if_false] at hs
      cases hs
      exact ⟨h2 _, .inr ⟨rfl, rfl, rfl, rfl, v, rfl⟩⟩
    · simp only [stepAccess, bind, Except.bind, pure, Except.pure] at hs
      split at hs
      · cases hs
      · split at hs
        · cases hs
        · rename_i sh' hw
          cases hs
          exact ⟨h2 _, .inl ⟨fun h => absurd h hl, write_ne_disc hl hw⟩⟩

/-- the part of `Global.step` that concerns the stepping thread: new shared state, new program, event -/
def tstepE {α : Type} (sh : Shared) (p : Prog α) (sp : Bool) : Shared × Prog α × Option Event :=
  match settle 100000 sh p [] with
  | (sh1, .blocked p1, _) =>
    match stepAccess sh1 p1 sp with
    | .ok (sh2, p2, e) =>
      match settle 100000 sh2 p2 [] with
      | (sh3, s, _) => (sh3, toProg s, some e)
    | .error (.trap s) => (sh1, .trap s, none)
    | .error .diverge => (sh1, .diverge, none)
  | (sh1, s, _) => (sh1, toProg s, none)

theorem step_none {α : Type} (g : Global α) (tid : Nat) (sp : Bool) (h : g.threads[tid]? = none) :
    g.step tid sp = (g, none) := by
  unfold Global.step
  simp only [h]

theorem step_some {α : Type} (g : Global α) (tid : Nat) (sp : Bool) (p : Prog α) (h : g.threads[tid]? = some p) :
    g.step tid sp = ({ sh := (tstepE g.sh p sp).1, threads := g.threads.set tid (tstepE g.sh p sp).2.1 },
      (tstepE g.sh p sp).2.2) := by
  unfold Global.step tstepE
  simp only [h]
  rcases hs : settle 100000 g.sh p [] with ⟨sh1, s, nas⟩
  rcases s with a | (s | _) | p1 <;> simp only [toProg]
  rcases ha : stepAccess sh1 p1 sp with (s | _) | ⟨sh2, p2, e⟩ <;> simp only []
  rcases hs2 : settle 100000 sh2 p2 [] with ⟨sh3, s, nas⟩
  rcases s with a | (s | _) | p3 <;> simp only []

theorem tstepE_dfo {α : Type} (sh : Shared) (p : Prog α) (sp : Bool) (h : DiscFaaOnly p) :
    DiscFaaOnly (tstepE sh p sp).2.1 ∧
    StepDisc sh.st.discarded (tstepE sh p sp).1.st.discarded (tstepE sh p sp).2.2 := by
  unfold tstepE
  have h1 := settle_disc 100000 sh p []
  have h2 := settle_dfo 100000 sh p [] h
  rcases hs : settle 100000 sh p [] with ⟨sh1, s, nas⟩
  rw [hs] at h1 h2
  rcases s with a | fl | p1
  · exact ⟨h2, h1⟩
  · exact ⟨h2, h1⟩
  · dsimp only
    rcases ha : stepAccess sh1 p1 sp with (s | _) | ⟨sh2, p2, e⟩
    · exact ⟨.trap s, h1⟩
    · exact ⟨.diverge, h1⟩
    · obtain ⟨h3, h4⟩ := stepAccess_dfo h2 ha
      have h5 := settle_disc 100000 sh2 p2 []
      have h6 := settle_dfo 100000 sh2 p2 [] h3
      dsimp only at h1 ⊢
      rw [h1] at h4
      exact ⟨h6, by rw [h5]; exact h4⟩

/-- all threads satisfy the predicate -/
def AllDfo {α : Type} (ts : List (Prog α)) : Prop := ∀ p ∈ ts, DiscFaaOnly p

/-- PER-STEP THEOREM: one `Global.step` keeps all threads inside the predicate and either leaves `st.discarded`
    unchanged (and the event, if on `.disc`, is a load) or reports a `.faa` event on `.disc` with
    `old` = the value before, `new = (old + v) % 2^32` = the value after -/
theorem step_dfo {α : Type} (g : Global α) (tid : Nat) (sp : Bool) (h : AllDfo g.threads) :
    AllDfo (g.step tid sp).1.threads ∧
    StepDisc g.sh.st.discarded (g.step tid sp).1.sh.st.discarded (g.step tid sp).2 := by
  rcases hp : g.threads[tid]? with _ | p
  · rw [step_none g tid sp hp]; exact ⟨h, rfl⟩
  · rw [step_some g tid sp p hp]
    obtain ⟨h1, h2⟩ := tstepE_dfo g.sh p sp (h p (List.mem_of_getElem? hp))
    refine ⟨fun q hq => ?_, h2⟩
    rcases List.mem_or_eq_of_mem_set hq with hq | rfl
    · exact h q hq
    · exact h1

/-- an access that reports a `.faa` event on `.disc` is the execution of a node `rmw .disc v false ..`; it read the
    counter and wrote `(old + v) % 2^32` (no hypothesis on the program) -/
theorem stepAccess_faa_disc {α : Type} {sh sh2 : Shared} {p p2 : Prog α} {sp : Bool} {ev : Event}
    (hs : stepAccess sh p sp = .ok (sh2, p2, ev)) (hl : ev.loc = .disc) (hk : ev.kind = .faa) :
    ∃ v s k, p = .rmw .disc v false s k ∧ ev.old = sh.st.discarded ∧
      ev.new = (sh.st.discarded + v) % TWO32 ∧ sh2.st.discarded = ev.new := by
  cases p with
  | ret a => simp [stepAccess, throw, throwThe, MonadExceptOf.throw] at hs
  | trap s => simp [stepAccess, throw, throwThe, MonadExceptOf.throw] at hs
  | diverge => simp [stepAccess, throw, throwThe, MonadExceptOf.throw] at hs
  | na e k => simp [stepAccess, throw, throwThe, MonadExceptOf.throw] at hs
  | load l s k =>
    simp only [stepAccess, bind, Except.bind, pure, Except.pure] at hs
    split at hs
    · cases hs
    · cases hs; cases hk
  | store l v s k =>
    simp only [stepAccess, bind, Except.bind, pure, Except.pure] at hs
    split at hs
    · cases hs
    · split at hs
      · cases hs
      · cases hs; cases hk
  | cas l e n w s k =>
    simp only [stepAccess, bind, Except.bind, pure, Except.pure] at hs
    split at hs
    · cases hs
    · split at hs
      · cases hs; cases hk
      · split at hs
        · split at hs
          · cases hs
          · cases hs; cases w <;> cases hk
        · cases hs; cases w <;> cases hk
  | rmw l v sub s k =>
    have hl' : l = .disc := by
      simp only [stepAccess, bind, Except.bind, pure, Except.pure] at hs
      split at hs
      · cases hs
      · split at hs
        · cases hs
        · cases hs; exact hl
    subst hl'
    cases sub with
    | true =>
      simp only [stepAccess, Shared.read, Shared.write, bind, Except.bind, pure, Except.pure] at hs
      cases hs; cases hk
    | false =>
      simp only [stepAccess, Shared.read, Shared.write, ALoc.modulus, bind, Except.bind, pure, Except.pure,
        Bool.false_eq_true, if_false] at hs
      cases hs
      exact ⟨v, s, k, rfl, rfl, rfl, rfl⟩

theorem tstepE_faa_arg {α : Type} (sh : Shared) (p : Prog α) (sp : Bool) (e : Event)
    (he : (tstepE sh p sp).2.2 = some e) (hl : e.loc = .disc) (hk : e.kind = .faa) :
    ∃ sh1 v s k nas, settle 100000 sh p [] = (sh1, .blocked (.rmw .disc v false s k), nas) ∧
      e.old = sh.st.discarded ∧ e.new = (sh.st.discarded + v) % TWO32 ∧
      (tstepE sh p sp).1.st.discarded = e.new := by
  have h1 := settle_disc 100000 sh p []
  unfold tstepE at he ⊢
  revert he h1
  rcases settle 100000 sh p [] with ⟨sh1, st, nas⟩
  intro he h1
  rcases st with a | fl | p1
  · cases he
  · cases he
  · dsimp only at he h1 ⊢
    revert he
    rcases ha : stepAccess sh1 p1 sp with (s | _) | ⟨sh2, p2, e'⟩ <;> intro he
    · cases he
    · cases he
    · dsimp only at he ⊢
      cases he
      obtain ⟨v, s, k, rfl, h2, h3, h4⟩ := stepAccess_faa_disc ha hl hk
      have h5 := settle_disc 100000 sh2 p2 []
      exact ⟨sh1, v, s, k, nas, rfl, by rw [h2, h1], by rw [h3, h1], by rw [h5, h4]⟩

/-- the `v` of the per-step theorem is the argument of the `rmw` node that was executed. No hypothesis on the
    programs: whenever a step reports a `.faa` event on `.disc`, the stepping thread's program, after its pending
    non-atomic prefix, was `rmw .disc v false ..`; the event read the counter, and the counter afterwards is
    `(old + v) % 2^32` -/
theorem step_faa_arg {α : Type} (g : Global α) (tid : Nat) (sp : Bool) (e : Event)
    (he : (g.step tid sp).2 = some e) (hl : e.loc = .disc) (hk : e.kind = .faa) :
    ∃ p sh1 v s k nas, g.threads[tid]? = some p ∧
      settle 100000 g.sh p [] = (sh1, .blocked (.rmw .disc v false s k), nas) ∧
      e.old = g.sh.st.discarded ∧ e.new = (g.sh.st.discarded + v) % TWO32 ∧
      (g.step tid sp).1.sh.st.discarded = e.new := by
  rcases hp : g.threads[tid]? with _ | p
  · rw [step_none g tid sp hp] at he; cases he
  · rw [step_some g tid sp p hp] at he ⊢
    obtain ⟨sh1, v, s, k, nas, h1, h2, h3, h4⟩ := tstepE_faa_arg g.sh p sp e he hl hk
    exact ⟨p, sh1, v, s, k, nas, rfl, h1, h2, h3, h4⟩

/-! ### the run -/

/-- the increment of a `fetch_add` event on `.disc`, read off its `old` / `new` fields; `0` for other events -/
def discDelta (e : Event) : Nat :=
  if e.loc = .disc ∧ e.kind = .faa then (e.new + TWO32 - e.old % TWO32) % TWO32 else 0

/-- sum of the increments of a trace -/
def discSum (evs : List (Nat × Event)) : Nat := (evs.map (fun x => discDelta x.2)).sum

theorem discSum_nil : discSum [] = 0 := rfl
theorem discSum_cons (x : Nat × Event) (evs : List (Nat × Event)) : discSum (x :: evs) = discDelta x.2 + discSum evs := rfl

/-- is the event a `fetch_add` on `.disc` -/
def isDiscFaa (x : Nat × Event) : Bool := decide (x.2.loc = .disc ∧ x.2.kind = .faa)

/-- the same sum written with a filter: the `fetch_add` events on `.disc`, each with `(new + 2^32 - old) % 2^32` -/
theorem discSum_eq_filter (evs : List (Nat × Event)) :
    discSum evs = ((evs.filter isDiscFaa).map (fun x => (x.2.new + TWO32 - x.2.old % TWO32) % TWO32)).sum := by
  induction evs with
  | nil => exact discSum_nil
  | cons x rest ih =>
    rw [discSum_cons, ih]
    by_cases hx : x.2.loc = .disc ∧ x.2.kind = .faa
    · have hp : isDiscFaa x = true := decide_eq_true hx
      rw [List.filter_cons_of_pos (p := isDiscFaa) hp]
      simp only [List.map_cons, List.sum_cons, discDelta, if_pos hx]
    · have hp : ¬ isDiscFaa x = true := by
        simp only [isDiscFaa, decide_eq_true_eq]; exact hx
      rw [List.filter_cons_of_neg (p := isDiscFaa) hp]
      simp only [discDelta, if_neg hx, Nat.zero_add]

theorem discSum_append (a b : List (Nat × Event)) : discSum (a ++ b) = discSum a + discSum b := by
  simp only [discSum, List.map_append, List.sum_append]

/-- `Global.run` over a concatenated schedule -/
theorem run_append {α : Type} : ∀ (s1 s2 : List (Nat × Bool)) (g : Global α),
    g.run (s1 ++ s2) = (((g.run s1).1.run s2).1, (g.run s1).2 ++ ((g.run s1).1.run s2).2)
  | [], _, _ => rfl
  | (tid, sp) :: r, s2, g => by
    simp only [List.cons_append, Global.run, run_append r s2]
    cases (g.step tid sp).2 <;> rfl

/-- the increment reported by a step -/
def optDelta : Option Event → Nat
  | some e => discDelta e
  | none => 0

/-- a step accounts for its change of the counter (mod 2^32), and keeps it below 2^32 -/
theorem StepDisc.delta {d d' : Nat} {oe : Option Event} (h : StepDisc d d' oe) :
    d' % TWO32 = (d + optDelta oe) % TWO32 ∧ (d < TWO32 → d' < TWO32) ∧
    (∀ e, oe = some e → e.loc = .disc → (e.kind = .faa ∨ e.kind = .ld) ∧
      (e.kind = .faa → e.old = d ∧ d' = e.new ∧ ∃ v, e.new = (e.old + v) % TWO32)) := by
  cases oe with
  | none => cases h; exact ⟨rfl, id, fun e he => by cases he⟩
  | some e =>
    rcases h with ⟨h1, h2⟩ | ⟨h1, h2, h3, h4, v, h5⟩
    · subst h2
      refine ⟨?_, id, fun e' he hl => ?_⟩
      · have : discDelta e = 0 := by
          unfold discDelta
          split
          · rename_i hc; have := h1 hc.1; rw [hc.2] at this; cases this
          · rfl
        simp only [optDelta, this, Nat.add_zero]
      · cases he
        have := h1 hl
        exact ⟨.inr this, fun hk => by rw [hk] at this; cases this⟩
    · refine ⟨?_, fun _ => ?_, fun e' he hl => ?_⟩
      · have : discDelta e = (e.new + TWO32 - e.old % TWO32) % TWO32 := by
          unfold discDelta; rw [if_pos ⟨h1, h2⟩]
        simp only [optDelta, this]
        rw [h4, h3, h5]
        unfold TWO32
        omega
      · rw [h4, h5]; exact Nat.mod_lt _ (by decide)
      · cases he
        exact ⟨.inl h2, fun _ => ⟨h3, h4, v, by rw [h3]; exact h5⟩⟩

/-- the invariant and the accounting along a run -/
theorem run_dfo {α : Type} : ∀ (sched : List (Nat × Bool)) (g : Global α), AllDfo g.threads →
    AllDfo (g.run sched).1.threads ∧
    (g.run sched).1.sh.st.discarded % TWO32 = (g.sh.st.discarded + discSum (g.run sched).2) % TWO32 ∧
    (g.sh.st.discarded < TWO32 → (g.run sched).1.sh.st.discarded < TWO32) ∧
    (∀ x ∈ (g.run sched).2, x.2.loc = .disc → (x.2.kind = .faa ∨ x.2.kind = .ld) ∧
      (x.2.kind = .faa → ∃ v, x.2.new = (x.2.old + v) % TWO32))
  | [], g, h => ⟨h, by simp only [Global.run, discSum_nil, Nat.add_zero], id, fun x hx => by cases hx⟩
  | (tid, sp) :: rest, g, h => by
    obtain ⟨a1, a2⟩ := step_dfo g tid sp h
    obtain ⟨b1, b2, b3, b4⟩ := run_dfo rest (g.step tid sp).1 a1
    obtain ⟨c1, c2, c3⟩ := a2.delta
    simp only [Global.run]
    refine ⟨b1, ?_, fun hd => b3 (c2 hd), ?_⟩
    · rcases he : (g.step tid sp).2 with _ | e <;> rw [he] at c1 <;> simp only [optDelta] at c1 <;> dsimp only
      · unfold TWO32 at *; omega
      · rw [discSum_cons]; dsimp only; unfold TWO32 at *; omega
    · rcases he : (g.step tid sp).2 with _ | e <;> dsimp only
      · exact b4
      · intro x hx
        rcases List.mem_cons.mp hx with rfl | hx
        · intro hl
          have := c3 e he hl
          exact ⟨this.1, fun hk => (this.2 hk).2.2⟩
        · exact b4 x hx

/-! ### 3. the main theorem -/

/-- MAIN THEOREM. Any initial shared state, any number of threads whose programs satisfy `DiscFaaOnly`, any
    schedule (with any spurious weak-CAS failures): the final counter is, modulo 2^32, the initial counter plus the
    sum of the increments of the `fetch_add` events on `.disc` of the trace (no increase is lost); every event on
    `.disc` is a `fetch_add` or a load (nothing else changes it); every such `fetch_add` wrote
    `new = (old + v) % 2^32`; and the threads still satisfy the predicate afterwards. -/
theorem discarded_accounting {α : Type} (sh : Shared) (threads : List (Prog α))
    (hall : ∀ p ∈ threads, DiscFaaOnly p) (sched : List (Nat × Bool)) :
    let r := Global.run ⟨sh, threads⟩ sched
    r.1.sh.st.discarded % TWO32 = (sh.st.discarded + discSum r.2) % TWO32 ∧
    (∀ x ∈ r.2, x.2.loc = .disc → x.2.kind = .faa ∨ x.2.kind = .ld) ∧
    (∀ x ∈ r.2, x.2.loc = .disc → x.2.kind = .faa → ∃ v, x.2.new = (x.2.old + v) % TWO32) ∧
    (∀ p ∈ r.1.threads, DiscFaaOnly p) := by
  intro r
  obtain ⟨h1, h2, _, h4⟩ := run_dfo sched ⟨sh, threads⟩ hall
  exact ⟨h2, fun x hx hl => (h4 x hx hl).1, fun x hx hl => (h4 x hx hl).2, h1⟩

/-- if the counter starts below 2^32 (it is a `u32`) it stays below, so the accounting is an equation between
    the value itself and `(initial + Σ increments) % 2^32` -/
theorem discarded_exact {α : Type} (g : Global α) (hall : AllDfo g.threads) (hlt : g.sh.st.discarded < TWO32)
    (sched : List (Nat × Bool)) :
    (g.run sched).1.sh.st.discarded < TWO32 ∧
    (g.run sched).1.sh.st.discarded = (g.sh.st.discarded + discSum (g.run sched).2) % TWO32 := by
  obtain ⟨_, h2, h3, _⟩ := run_dfo sched g hall
  have := h3 hlt
  exact ⟨this, by rw [← h2]; exact (Nat.mod_eq_of_lt this).symm⟩

/-- the main theorem for threads that run fixed lists of operations of `sync.rs` -/
theorem discarded_accounting_ops (c : Cfg) (cap fuel : Nat) (sh : Shared) (progs : List (List DOp))
    (sched : List (Nat × Bool)) :
    let r := Global.run ⟨sh, progs.map (discProg c cap fuel)⟩ sched
    r.1.sh.st.discarded % TWO32 = (sh.st.discarded + discSum r.2) % TWO32 ∧
    (∀ x ∈ r.2, x.2.loc = .disc → x.2.kind = .faa ∨ x.2.kind = .ld) ∧
    (∀ x ∈ r.2, x.2.loc = .disc → x.2.kind = .faa → ∃ v, x.2.new = (x.2.old + v) % TWO32) := by
  intro r
  obtain ⟨h1, h2, h3, _⟩ := discarded_accounting sh (progs.map (discProg c cap fuel)) (fun p hp => by
    obtain ⟨ops, _, rfl⟩ := List.mem_map.mp hp
    exact dfo_discProg c cap fuel ops) sched
  exact ⟨h1, h2, h3⟩

/-- the main theorem for adaptive clients (each thread: a strategy and a bound on the number of operations) -/
theorem discarded_accounting_clients (c : Cfg) (cap fuel : Nat) (sh : Shared)
    (clients : List ((List DRes → Option DOp) × Nat)) (sched : List (Nat × Bool)) :
    let r := Global.run ⟨sh, clients.map (fun cl => clientProg c cap fuel cl.1 cl.2 [])⟩ sched
    r.1.sh.st.discarded % TWO32 = (sh.st.discarded + discSum r.2) % TWO32 ∧
    (∀ x ∈ r.2, x.2.loc = .disc → x.2.kind = .faa ∨ x.2.kind = .ld) ∧
    (∀ x ∈ r.2, x.2.loc = .disc → x.2.kind = .faa → ∃ v, x.2.new = (x.2.old + v) % TWO32) := by
  intro r
  obtain ⟨h1, h2, h3, _⟩ := discarded_accounting sh
    (clients.map (fun cl => clientProg c cap fuel cl.1 cl.2 [])) (fun p hp => by
      obtain ⟨cl, _, rfl⟩ := List.mem_map.mp hp
      exact dfo_clientProg c cap fuel cl.1 cl.2 []) sched
  exact ⟨h1, h2, h3⟩

/-! ### 4. monotone up to wrap -/

/-- no wrap: if the initial value (< 2^32) plus all increments of the run stays below 2^32, the final value is
    exactly the sum, in particular it is at least the initial value -/
theorem discarded_nowrap {α : Type} (g : Global α) (hall : AllDfo g.threads) (hlt : g.sh.st.discarded < TWO32)
    (sched : List (Nat × Bool)) (hnw : g.sh.st.discarded + discSum (g.run sched).2 < TWO32) :
    (g.run sched).1.sh.st.discarded = g.sh.st.discarded + discSum (g.run sched).2 ∧
    g.sh.st.discarded ≤ (g.run sched).1.sh.st.discarded := by
  have h := (discarded_exact g hall hlt sched).2
  rw [Nat.mod_eq_of_lt hnw] at h
  exact ⟨h, by omega⟩

/-- prefix monotonicity: under the no-wrap hypothesis for the whole schedule `s1 ++ s2`, the value after the
    prefix `s1` lies between the initial value and the value after the whole schedule -/
theorem discarded_prefix_mono {α : Type} (g : Global α) (hall : AllDfo g.threads) (hlt : g.sh.st.discarded < TWO32)
    (s1 s2 : List (Nat × Bool)) (hnw : g.sh.st.discarded + discSum (g.run (s1 ++ s2)).2 < TWO32) :
    g.sh.st.discarded ≤ (g.run s1).1.sh.st.discarded ∧
    (g.run s1).1.sh.st.discarded ≤ (g.run (s1 ++ s2)).1.sh.st.discarded ∧
    (g.run s1).1.sh.st.discarded = g.sh.st.discarded + discSum (g.run s1).2 ∧
    (g.run (s1 ++ s2)).1.sh.st.discarded = (g.run s1).1.sh.st.discarded + discSum ((g.run s1).1.run s2).2 := by
  have h12 := discarded_nowrap g hall hlt (s1 ++ s2) hnw
  rw [run_append] at hnw h12
  dsimp only at hnw h12
  rw [discSum_append] at hnw h12
  have h1 := discarded_nowrap g hall hlt s1 (by omega)
  rw [run_append]
  dsimp only
  omega

/-! ### 5. non-vacuity -/

namespace Example

def cfg : Cfg := { sync := true, kind := .none, ro := false, retries := 0, dataOffset := 8, reserved := 0, unify := false }
def sh0 : Shared := { st := { mem := Array.replicate 64 0, sentinel := 0, allocated := 40, minSeg := 0, discarded := 5 },
                      refs := 1 }
/-- each thread: `increase_discarded(3)`, then a `dealloc(16, 8)` that loses the race for the cursor (the cursor is
    at 40, not at 24), so that with `Freelist::None` the 8 bytes are counted as discarded -/
def ops : List DOp := [.incDiscarded 3, .dealloc 16 8]
def g0 : Global (List DRes) := ⟨sh0, [discProg cfg 64 4 ops, discProg cfg 64 4 ops]⟩
/-- the two threads alternate (thread 1 is asked to fail spuriously, which has no effect on a strong CAS) -/
def sched : List (Nat × Bool) := [(0, false), (1, true), (0, false), (1, true), (0, false), (1, true)]

/-- the hypothesis of the main theorem holds for these threads -/
theorem all : AllDfo g0.threads := fun p hp => by
  obtain ⟨o, _, rfl⟩ := List.mem_map.mp (show p ∈ [ops, ops].map (discProg cfg 64 4) from hp)
  exact dfo_discProg cfg 64 4 o

/-- "the thread has finished, and its `dealloc` returned `true`" -/
def okRes : Option (List DRes) → Bool
  | some [.unit, .dealloc true] => true
  | _ => false

/-- what the machine computes: four `fetch_add`s on `.disc` (3, 3, 8, 8), final counter 5 + 22, both threads done
    with `dealloc` returning `true` -/
example : (g0.run sched).1.sh.st.discarded = 27 ∧ discSum (g0.run sched).2 = 22 ∧
    ((g0.run sched).2.filter isDiscFaa).length = 4 ∧
    (g0.run sched).1.results.map okRes = [true, true] := by decide

/-- and what the theorems say about it -/
example : (g0.run sched).1.sh.st.discarded = 5 + discSum (g0.run sched).2 :=
  (discarded_nowrap g0 all (by decide) sched (by decide)).1

/-! a second instance: `Freelist::Optimistic`, the counter close to 2^32. Thread 0's `dealloc(16, 24)` loses the race
    for the cursor and links the segment into the free list (store of the node word, CAS on the sentinel), then
    counts the 8 header bytes as discarded; thread 1's `increase_discarded(3)` comes in between. The counter wraps:
    `(4294967290 + 3 + 8) % 2^32 = 5`. -/

def cfgO : Cfg := { cfg with kind := .opt }
def shO : Shared :=
  { st := { mem := Array.replicate 64 0, sentinel := SENTINEL_WORD, allocated := 48, minSeg := 0, discarded := 4294967290 },
    refs := 1 }
def gO : Global (List DRes) := ⟨shO, [discProg cfgO 64 4 [.dealloc 16 24], discProg cfgO 64 4 [.incDiscarded 3]]⟩
def schedO : List (Nat × Bool) :=
  [(0, false), (0, false), (0, false), (1, false), (0, false), (0, false), (0, false)]

example : (gO.run schedO).1.sh.st.discarded = 5 ∧ discSum (gO.run schedO).2 = 11 ∧
    ((gO.run schedO).2.filter isDiscFaa).length = 2 ∧
    (gO.run schedO).1.results.map Option.isSome = [true, true] := by decide

example : (gO.run schedO).1.sh.st.discarded % TWO32 = (4294967290 + discSum (gO.run schedO).2) % TWO32 :=
  (discarded_accounting_ops cfgO 64 4 shO [[.dealloc 16 24], [.incDiscarded 3]] schedO).1

end Example

end Rarena.Conc.Disc
