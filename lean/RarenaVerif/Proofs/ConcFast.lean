/-
  Proofs.ConcFast — the bump-cursor fast path under EVERY interleaving and any number of threads: threads that
  only call `alloc_bytes` on an arena whose free list is empty obtain pairwise disjoint ranges inside the arena,
  whatever the schedule (including spurious failures of the weak CAS).

  Proof architecture (rely/guarantee with a ghost partition):
  * `Good cap post own p` is a "safety type" of thread programs: `p` only loads, performs NA effects, and CASes
    the cursor from `e` to `n` with `e ≤ n ≤ cap` (a successful CAS adds the handle `[e, n)` to the ghost list
    `own`); a load of the sentinel may assume it reads `SENTINEL_WORD`; when `p` returns `a`, `post own a` holds.
    `Good.bind` is the sequencing rule; `good_allocAll` types `allocAllC` with post "result = owned handles".
  * `tstep_good`: one `Global.step` of a `Good` thread leaves sentinel and cursor alone, or moves the cursor
    from `a` to `n` and adds `[a, n)` to `own`.
  * `GInv`: sentinel empty, `init ≤ cursor ≤ cap`, all owned handles pairwise disjoint and below the cursor;
    preserved by every step (`GInv.step`), hence by every schedule (`GInv.run`).
-/
import RarenaVerif.Model.Conc
import RarenaVerif.Model.Inv

namespace Rarena.Conc

open Rarena

theorem bind_eq {α β : Type} (p : Prog α) (f : α → Prog β) : (p >>= f) = p.bind f := rfl
theorem pure_eq {α : Type} (a : α) : (pure a : Prog α) = .ret a := rfl

/-- "safety type" of a thread program -/
inductive Good {α : Type} (cap : Nat) (post : List Meta → α → Prop) : List Meta → Prog α → Prop where
  | ret {own a} : post own a → Good cap post own (.ret a)
  | trap {own s} : Good cap post own (.trap s)
  | diverge {own} : Good cap post own .diverge
  | load {own l s k} : (∀ v, (l = .sent → v = SENTINEL_WORD) → Good cap post own (k v)) →
      Good cap post own (.load l s k)
  | cas {own e n w s k} : e ≤ n → n ≤ cap → (∀ obs, Good cap post own (k (obs, false))) →
      Good cap post (own ++ [Meta.new e (n - e)]) (k (e, true)) → Good cap post own (.cas .alloc e n w s k)
  | na {own e k} : Good cap post own (k ()) → Good cap post own (.na e k)

theorem Good.bind {α β : Type} {cap : Nat} {post : List Meta → α → Prop} {post' : List Meta → β → Prop}
    {own : List Meta} {p : Prog α} {f : α → Prog β} (h : Good cap post own p)
    (hf : ∀ own' a, post own' a → Good cap post' own' (f a)) : Good cap post' own (p.bind f) := by
  induction h with
  | ret h => exact hf _ _ h
  | trap => exact .trap
  | diverge => exact .diverge
  | load _ ih => exact .load (fun v hv => ih v hv)
  | cas h1 h2 _ _ ih1 ih2 => exact .cas h1 h2 ih1 ih2
  | na _ ih => exact .na ih

theorem Good.mono {α : Type} {cap : Nat} {post post' : List Meta → α → Prop}
    {own : List Meta} {p : Prog α} (h : Good cap post own p)
    (hf : ∀ own' a, post own' a → post' own' a) : Good cap post' own p := by
  induction h with
  | ret h => exact .ret (hf _ _ h)
  | trap => exact .trap
  | diverge => exact .diverge
  | load _ ih => exact .load (fun v hv => ih v hv)
  | cas h1 h2 _ _ ih1 ih2 => exact .cas h1 h2 ih1 ih2
  | na _ ih => exact .na ih

theorem wsize_sent : wsize SENTINEL_WORD = MAXU32 := by decide
theorem wnext_sent : wnext SENTINEL_WORD = MAXU32 := by decide

theorem good_liftM' {α : Type} (cap : Nat) (own : List Meta) (x : M α) :
    Good cap (fun o (_ : α) => o = own) own (liftM' x) := by
  rcases x with (_ | _) | a
  · exact .trap
  · exact .diverge
  · exact .ret rfl

theorem good_remaining (cap : Nat) (own : List Meta) :
    Good cap (fun o (_ : Unit) => o = own) own remainingC := by
  unfold remainingC load
  simp only [bind_eq, pure_eq, Prog.bind]
  exact .load (fun v _ => .ret rfl)

/-- post-condition of the parts that cannot claim anything: nothing new is owned and the answer is an error -/
abbrev failPost {β : Type} (own : List Meta) : List Meta → Except Err β → Prop :=
  fun o r => o = own ∧ ∃ e, r = .error e

theorem good_slowOpt (cap : Nat) (c : Cfg) (size fuel : Nat) (own : List Meta) :
    ∀ tries, Good cap (failPost own) own (slowOptC c size fuel tries)
  | 0 => .diverge
  | t + 1 => by
    unfold slowOptC
    split
    · exact .ret ⟨rfl, _, rfl⟩
    · simp only [bind_eq, load, Prog.bind]
      refine .load (fun v hv => ?_)
      have := hv rfl; subst this
      rw [if_pos ⟨wsize_sent, wnext_sent⟩]
      exact (good_remaining cap own).bind (fun o _ ho => .ret ⟨ho, _, rfl⟩)

theorem good_findPrevNextC (cap val : Nat) (cmp : Nat → Nat → Bool) (loc : Loc) (own : List Meta) :
    ∀ fuel, Good cap (fun o (r : PrevNext) => o = own ∧ r = none) own (findPrevNextC val cmp fuel loc SENTINEL_WORD)
  | 0 => .diverge
  | f + 1 => by
    unfold findPrevNextC
    rw [if_pos ⟨wsize_sent, wnext_sent⟩]
    exact .ret ⟨rfl, rfl⟩

theorem good_findPrevNextTop (cap val : Nat) (cmp : Nat → Nat → Bool) (fuel : Nat) (own : List Meta) :
    Good cap (fun o (r : PrevNext) => o = own ∧ r = none) own (findPrevNextTop val cmp fuel) := by
  unfold findPrevNextTop load
  simp only [bind_eq, Prog.bind]
  refine .load (fun v hv => ?_)
  have := hv rfl; subst this
  exact good_findPrevNextC cap val cmp .hdr own fuel

theorem good_slowPess (cap : Nat) (c : Cfg) (size fuel : Nat) (own : List Meta) :
    ∀ tries, Good cap (failPost own) own (slowPessC c size fuel tries)
  | 0 => .diverge
  | t + 1 => by
    unfold slowPessC
    split
    · exact .ret ⟨rfl, _, rfl⟩
    · rw [bind_eq]
      refine (good_findPrevNextTop cap _ _ fuel own).bind (fun o r ⟨ho, hr⟩ => ?_)
      subst ho hr
      exact (good_remaining cap _).bind (fun o _ ho => .ret ⟨ho, _, rfl⟩)

theorem good_slowPath (cap : Nat) (c : Cfg) (size fuel : Nat) (own : List Meta) :
    Good cap (failPost own) own (slowPathC c size fuel) := by
  unfold slowPathC
  split
  · exact (good_remaining cap _).bind (fun o _ ho => .ret ⟨ho, _, rfl⟩)
  · exact good_slowOpt ..
  · exact good_slowPess ..

theorem good_retryLoop (cap : Nat) (c : Cfg) (size fuel : Nat) (post : Meta → M Meta) (own : List Meta) :
    ∀ n i, Good cap (failPost own) own (retryLoopC c size fuel post n i)
  | 0, _ => .diverge
  | n + 1, i => by
    unfold retryLoopC
    rw [bind_eq]
    refine (good_slowPath cap c size fuel own).bind (fun o r ⟨ho, e, hr⟩ => ?_)
    subst ho hr
    dsimp only
    split
    · exact .ret ⟨rfl, _, rfl⟩
    · split
      · exact .ret ⟨rfl, _, rfl⟩
      · split
        · exact good_retryLoop cap c size fuel post _ n (i + 1)
        · exact .trap

theorem good_bumpLoop (cap size : Nat) (fn : String) (own : List Meta) :
    ∀ fuel a, Good cap (fun o (r : Option (Nat × Nat)) => (r = none ∧ o = own) ∨
        ∃ off wnt, r = some (off, wnt) ∧ o = own ++ [Meta.new off size]) own
      (bumpLoopC fn (fun a => pure ((checkedAddU32 a size).filter (· ≤ cap))) fuel a)
  | 0, _ => .diverge
  | f + 1, a => by
    unfold bumpLoopC
    rw [bind_eq]
    show Good _ _ _ (Prog.bind (Prog.ret _) _)
    simp only [Prog.bind]
    rcases hw : (checkedAddU32 a size).filter (· ≤ cap) with _ | wnt
    · exact .ret (.inl ⟨rfl, rfl⟩)
    · dsimp only
      have h1 : wnt = a + size ∧ wnt ≤ cap := by
        unfold checkedAddU32 at hw
        split at hw
        · simp only [Option.filter_some] at hw
          split at hw
          · rename_i h; simp only [Option.some.injEq] at hw; subst hw; exact ⟨rfl, by simpa using h⟩
          · cases hw
        · cases hw
      obtain ⟨h1, h2⟩ := h1
      simp only [bind_eq, casw, Prog.bind]
      refine .cas (by omega) h2 (fun obs => ?_) ?_
      · exact good_bumpLoop cap size fn own f obs
      · refine .ret (.inr ⟨a, wnt, rfl, ?_⟩)
        have : wnt - a = size := by omega
        rw [this]

theorem good_allocBytes (cap : Nat) (c : Cfg) (size fuel : Nat) (own : List Meta) :
    Good cap (fun o (r : Except Err (Option Meta)) => (∃ m, r = .ok (some m) ∧ o = own ++ [m]) ∨
        ((∀ m, r ≠ .ok (some m)) ∧ o = own)) own (allocBytesC c cap size fuel) := by
  unfold allocBytesC
  split
  · exact .ret (.inr ⟨(by intro m h; cases h), rfl⟩)
  split
  · exact .ret (.inr ⟨(by intro m h; cases h), rfl⟩)
  simp only [bind_eq, load, Prog.bind]
  refine .load (fun a0 _ => ?_)
  refine (good_bumpLoop cap size _ own fuel a0).bind (fun o r hr => ?_)
  rcases hr with ⟨hr, ho⟩ | ⟨off, wnt, hr, ho⟩
  · subst hr ho
    dsimp only
    refine (good_retryLoop cap c size fuel pure _ 300 0).mono (fun o r ⟨ho, e, hr⟩ => ?_)
    subst hr ho
    exact .inr ⟨(by intro m h; cases h), rfl⟩
  · subst hr ho
    simp only [na, Prog.bind, pure_eq]
    exact .na (.ret (.inl ⟨_, rfl, rfl⟩))

theorem good_allocAll (cap : Nat) (c : Cfg) (fuel : Nat) :
    ∀ (sizes : List Nat) (own : List Meta),
      Good cap (fun o (r : List Meta) => o = own ++ r) own (allocAllC c cap fuel sizes)
  | [], own => .ret (by simp)
  | n :: rest, own => by
    unfold allocAllC
    rw [bind_eq]
    refine (good_allocBytes cap c n fuel own).bind (fun o r hr => ?_)
    rw [bind_eq]
    refine (good_allocAll cap c fuel rest o).bind (fun o' ms ho' => ?_)
    rcases hr with ⟨m, hr, ho⟩ | ⟨hr, ho⟩
    · subst hr ho ho'
      exact .ret (by simp)
    · subst ho ho'
      split
      · exact absurd rfl (hr _)
      · exact .ret rfl

/-! ### one thread step -/

def Settled.toProg {α : Type} : Settled α → Prog α
  | .done a => .ret a
  | .failed (.trap s) => .trap s
  | .failed .diverge => .diverge
  | .blocked p => p

/-- the part of `Global.step` that concerns the stepping thread -/
def tstep {α : Type} (sh : Shared) (p : Prog α) (sp : Bool) : Shared × Prog α :=
  match settle 100000 sh p [] with
  | (sh1, .blocked p1, _) =>
    match stepAccess sh1 p1 sp with
    | .ok (sh2, p2, _) =>
      match settle 100000 sh2 p2 [] with
      | (sh3, s, _) => (sh3, s.toProg)
    | .error (.trap s) => (sh1, .trap s)
    | .error .diverge => (sh1, .diverge)
  | (sh1, s, _) => (sh1, s.toProg)

theorem step_none {α : Type} (g : Global α) (tid : Nat) (sp : Bool) (h : g.threads[tid]? = none) :
    (g.step tid sp).1 = g := by
  unfold Global.step
  simp only [h]

theorem step_some {α : Type} (g : Global α) (tid : Nat) (sp : Bool) (p : Prog α) (h : g.threads[tid]? = some p) :
    (g.step tid sp).1 = { sh := (tstep g.sh p sp).1, threads := g.threads.set tid (tstep g.sh p sp).2 } := by
  unfold Global.step tstep
  simp only [h]
  rcases hs : settle 100000 g.sh p [] with ⟨sh1, s, nas⟩
  rcases s with a | (s | _) | p1 <;> simp only [Settled.toProg]
  rcases ha : stepAccess sh1 p1 sp with (s | _) | ⟨sh2, p2, e⟩ <;> simp only []
  rcases hs2 : settle 100000 sh2 p2 [] with ⟨sh3, s, nas⟩
  rcases s with a | (s | _) | p3 <;> simp only []

/-- the cursor and the sentinel are untouched -/
def Frame (sh sh' : Shared) : Prop :=
  sh'.st.allocated = sh.st.allocated ∧ sh'.st.sentinel = sh.st.sentinel

theorem applyNA_frame (sh sh' : Shared) (e : NA) (h : sh.applyNA e = .ok sh') : Frame sh sh' := by
  cases e with
  | zero off len =>
    simp only [Shared.applyNA, bind, Except.bind, pure, Except.pure] at h
    split at h
    · cases h
    · cases h; exact ⟨rfl, rfl⟩
  | fill off len b => simp only [Shared.applyNA, pure, Except.pure] at h; cases h; exact ⟨rfl, rfl⟩
  | verify off len => simp only [Shared.applyNA, pure, Except.pure] at h; cases h; exact ⟨rfl, rfl⟩
  | unmount => simp only [Shared.applyNA, pure, Except.pure] at h; cases h; exact ⟨rfl, rfl⟩

theorem settle_good {α : Type} {cap : Nat} {post : List Meta → α → Prop} :
    ∀ (fuel : Nat) (sh : Shared) (p : Prog α) (nas : List NA) (own : List Meta), Good cap post own p →
      Frame sh (settle fuel sh p nas).1 ∧ Good cap post own (settle fuel sh p nas).2.1.toProg
  | 0, sh, p, nas, own, _ => ⟨⟨rfl, rfl⟩, .diverge⟩
  | f + 1, sh, p, nas, own, h => by
    cases h with
    | ret h => exact ⟨⟨rfl, rfl⟩, .ret h⟩
    | trap => exact ⟨⟨rfl, rfl⟩, .trap⟩
    | diverge => exact ⟨⟨rfl, rfl⟩, .diverge⟩
    | load h => exact ⟨⟨rfl, rfl⟩, .load h⟩
    | cas h1 h2 h3 h4 => exact ⟨⟨rfl, rfl⟩, .cas h1 h2 h3 h4⟩
    | @na _ e k h =>
      simp only [settle]
      rcases ha : sh.applyNA e with fl | sh'
      · rcases fl with s | _
        · exact ⟨⟨rfl, rfl⟩, .trap⟩
        · exact ⟨⟨rfl, rfl⟩, .diverge⟩
      · have h1 := applyNA_frame sh sh' e ha
        have h2 := settle_good f sh' (k ()) (nas ++ [e]) own h
        exact ⟨⟨h2.1.1.trans h1.1, h2.1.2.trans h1.2⟩, h2.2⟩

/-- effect of a step of a thread that owns `own` and continues as `p'`: either the cursor is unchanged and
    nothing new is owned, or the cursor went from `a` to `n` and the thread now also owns `[a, n)` -/
def StepOK {α : Type} (cap : Nat) (post : List Meta → α → Prop) (own : List Meta) (sh sh' : Shared)
    (p' : Prog α) : Prop :=
  sh'.st.sentinel = sh.st.sentinel ∧
  ((sh'.st.allocated = sh.st.allocated ∧ Good cap post own p') ∨
   (∃ n, sh.st.allocated ≤ n ∧ n ≤ cap ∧ sh'.st.allocated = n ∧
      Good cap post (own ++ [Meta.new sh.st.allocated (n - sh.st.allocated)]) p'))

theorem StepOK.same {α : Type} {cap : Nat} {post : List Meta → α → Prop} {own : List Meta} {sh sh' : Shared}
    {p' : Prog α} (hf : Frame sh sh') (h : Good cap post own p') : StepOK cap post own sh sh' p' :=
  ⟨hf.2, .inl ⟨hf.1, h⟩⟩

theorem StepOK.settle {α : Type} {cap : Nat} {post : List Meta → α → Prop} {own : List Meta} {sh sh2 : Shared}
    {p2 : Prog α} (h : StepOK cap post own sh sh2 p2) (f : Nat) (nas : List NA) :
    StepOK cap post own sh (settle f sh2 p2 nas).1 (settle f sh2 p2 nas).2.1.toProg := by
  obtain ⟨hs, h | ⟨n, h1, h2, h3, h4⟩⟩ := h
  · have := settle_good f sh2 p2 nas own h.2
    exact ⟨this.1.2.trans hs, .inl ⟨this.1.1.trans h.1, this.2⟩⟩
  · have := settle_good f sh2 p2 nas _ h4
    exact ⟨this.1.2.trans hs, .inr ⟨n, h1, h2, this.1.1.trans h3, this.2⟩⟩

theorem StepOK.pre {α : Type} {cap : Nat} {post : List Meta → α → Prop} {own : List Meta} {sh sh1 sh2 : Shared}
    {p2 : Prog α} (hf : Frame sh sh1) (h : StepOK cap post own sh1 sh2 p2) : StepOK cap post own sh sh2 p2 := by
  unfold StepOK at *
  rw [← hf.1, ← hf.2]
  exact h

theorem stepAccess_good {α : Type} {cap : Nat} {post : List Meta → α → Prop} {own : List Meta} {sh sh2 : Shared}
    {p p2 : Prog α} {sp : Bool} {ev : Event} (h : Good cap post own p)
    (hsent : sh.st.sentinel = SENTINEL_WORD) (hs : stepAccess sh p sp = .ok (sh2, p2, ev)) :
    StepOK cap post own sh sh2 p2 := by
  cases h with
  | ret h => simp [stepAccess, throw, throwThe, MonadExceptOf.throw] at hs
  | trap => simp [stepAccess, throw, throwThe, MonadExceptOf.throw] at hs
  | diverge => simp [stepAccess, throw, throwThe, MonadExceptOf.throw] at hs
  | na h => simp [stepAccess, throw, throwThe, MonadExceptOf.throw] at hs
  | @load _ l s k h =>
    simp only [stepAccess, bind, Except.bind, pure, Except.pure] at hs
    split at hs
    · cases hs
    · rename_i v hv
      cases hs
      refine .same ⟨rfl, rfl⟩ (h v ?_)
      intro hl; subst hl
      simp only [Shared.read, pure, Except.pure] at hv
      cases hv; exact hsent
  | @cas _ e n w s k h1 h2 h3 h4 =>
    simp only [stepAccess, Shared.read, bind, Except.bind, pure, Except.pure] at hs
    split at hs
    · cases hs; exact .same ⟨rfl, rfl⟩ (h3 _)
    · split at hs
      · rename_i he
        simp only [Shared.write, pure, Except.pure] at hs
        cases hs
        subst he
        exact ⟨rfl, .inr ⟨n, h1, h2, rfl, h4⟩⟩
      · cases hs; exact .same ⟨rfl, rfl⟩ (h3 _)

theorem tstep_good {α : Type} {cap : Nat} {post : List Meta → α → Prop} {own : List Meta} {sh : Shared}
    {p : Prog α} (sp : Bool) (h : Good cap post own p) (hsent : sh.st.sentinel = SENTINEL_WORD) :
    StepOK cap post own sh (tstep sh p sp).1 (tstep sh p sp).2 := by
  unfold tstep
  have h1 := settle_good 100000 sh p [] own h
  rcases hs : settle 100000 sh p [] with ⟨sh1, s, nas⟩
  rw [hs] at h1
  have hdef : StepOK cap post own sh sh1 s.toProg := .same h1.1 h1.2
  rcases s with a | fl | p1
  · exact hdef
  · exact hdef
  · dsimp only
    rcases ha : stepAccess sh1 p1 sp with (s | _) | ⟨sh2, p2, e⟩
    · exact .same h1.1 .trap
    · exact .same h1.1 .diverge
    · have h2 := stepAccess_good h1.2 (h1.1.2.trans hsent) ha
      exact (h2.settle 100000 []).pre h1.1

/-! ### all threads -/

inductive All2 {α β : Type} (R : α → β → Prop) : List α → List β → Prop where
  | nil : All2 R [] []
  | cons {a b as bs} : R a b → All2 R as bs → All2 R (a :: as) (b :: bs)

theorem All2.step {β : Type} {R : List Meta → β → Prop} {owns : List (List Meta)} {ts : List β}
    (h : All2 R owns ts) : ∀ {i : Nat} {p : β}, ts[i]? = some p →
      ∃ own, R own p ∧ ∀ (ext : List Meta) (p' : β), R (own ++ ext) p' →
        ∃ owns', All2 R owns' (ts.set i p') ∧ owns'.flatten.Perm (ext ++ owns.flatten) := by
  induction h with
  | nil => intro i p hp; simp at hp
  | @cons a b as bs hab _ ih =>
    intro i p hp
    cases i with
    | zero =>
      simp only [List.getElem?_cons_zero, Option.some.injEq] at hp
      subst hp
      refine ⟨a, hab, fun ext p' hp' => ⟨(a ++ ext) :: as, .cons hp' ‹_›, ?_⟩⟩
      simp only [List.flatten_cons, List.append_assoc]
      exact List.perm_append_comm_assoc _ _ _
    | succ i =>
      simp only [List.getElem?_cons_succ] at hp
      obtain ⟨own, ho, hstep⟩ := ih hp
      refine ⟨own, ho, fun ext p' hp' => ?_⟩
      obtain ⟨owns', h1, h2⟩ := hstep ext p' hp'
      refine ⟨a :: owns', .cons hab h1, ?_⟩
      simp only [List.flatten_cons]
      exact (List.Perm.append_left a h2).trans (List.perm_append_comm_assoc _ _ _)

abbrev D (a b : Meta) : Prop := disj a.access b.access

theorem D_symm {a b : Meta} (h : D a b) : D b a := Or.symm h

/-- a handle lies inside `[init, top)` and is a plain bump handle -/
def HOK (init top : Nat) (m : Meta) : Prop :=
  init ≤ m.ptrOff ∧ m.ptrOff + m.ptrSize ≤ top ∧ m.memOff = m.ptrOff ∧ m.memSize = m.ptrSize

structure GInv (cap init : Nat) (g : Global (List Meta)) : Prop where
  sent : g.sh.st.sentinel = SENTINEL_WORD
  lo : init ≤ g.sh.st.allocated
  hi : g.sh.st.allocated ≤ cap
  owns : ∃ owns : List (List Meta), All2 (Good cap (fun o r => o = r)) owns g.threads ∧
    owns.flatten.Pairwise D ∧ ∀ m ∈ owns.flatten, HOK init g.sh.st.allocated m

theorem GInv.step {cap init : Nat} {g : Global (List Meta)} (h : GInv cap init g) (tid : Nat) (sp : Bool) :
    GInv cap init (g.step tid sp).1 := by
  rcases hp : g.threads[tid]? with _ | p
  · rw [step_none g tid sp hp]; exact h
  · rw [step_some g tid sp p hp]
    obtain ⟨owns, hall, hpw, hmem⟩ := h.owns
    obtain ⟨own, hown, hstep⟩ := hall.step hp
    obtain ⟨hsent, ⟨ha, hg⟩ | ⟨n, h1, h2, h3, hg⟩⟩ := tstep_good sp hown h.sent
    · obtain ⟨owns', hall', hperm⟩ := hstep [] _ (by simpa using hg)
      simp only [List.nil_append] at hperm
      refine ⟨hsent.trans h.sent, ?_, ?_, owns', hall', ?_, ?_⟩
      · dsimp only; rw [ha]; exact h.lo
      · dsimp only; rw [ha]; exact h.hi
      · exact (hperm.pairwise_iff D_symm).mpr hpw
      · intro m hm
        dsimp only; rw [ha]
        exact hmem m (hperm.mem_iff.mp hm)
    · obtain ⟨owns', hall', hperm⟩ := hstep _ _ hg
      have hlo := h.lo
      refine ⟨hsent.trans h.sent, ?_, ?_, owns', hall', ?_, ?_⟩
      · dsimp only; omega
      · dsimp only; omega
      · refine (hperm.pairwise_iff D_symm).mpr ?_
        simp only [List.singleton_append, List.pairwise_cons]
        refine ⟨fun x hx => ?_, hpw⟩
        have := (hmem x hx).2.1
        exact .inr this
      · intro m hm
        dsimp only; rw [h3]
        have hm' := hperm.mem_iff.mp hm
        simp only [List.singleton_append, List.mem_cons] at hm'
        rcases hm' with rfl | hm'
        · refine ⟨hlo, ?_, rfl, rfl⟩
          simp only [Meta.new]; omega
        · obtain ⟨a1, a2, a3, a4⟩ := hmem m hm'
          exact ⟨a1, by omega, a3, a4⟩

theorem GInv.run {cap init : Nat} : ∀ (sched : List (Nat × Bool)) {g : Global (List Meta)},
    GInv cap init g → GInv cap init (g.run sched).1
  | [], _, h => h
  | (tid, sp) :: rest, g, h => by
    have := GInv.run rest (h.step tid sp)
    simpa only [Global.run] using this

theorem results_sublist {cap : Nat} {owns : List (List Meta)} {ts : List (Prog (List Meta))} (sh : Shared)
    (h : All2 (Good cap (fun o r => o = r)) owns ts) :
    (((Global.mk sh ts).results).filterMap id).flatten.Sublist owns.flatten := by
  induction h with
  | nil => exact .slnil
  | @cons a b as bs hab _ ih =>
    simp only [Global.results, List.map_cons] at ih ⊢
    cases hab with
    | ret h =>
      subst h
      simp only [List.filterMap_cons_some (f := id) rfl, List.flatten_cons]
      exact List.Sublist.append (List.Sublist.refl _) ih
    | _ =>
      simp only [List.filterMap_cons_none (f := id) rfl, List.flatten_cons]
      exact ih.trans (List.sublist_append_right _ _)

theorem init_all2 (cap : Nat) (c : Cfg) (fuel : Nat) : ∀ progs : List (List Nat),
    ∃ owns : List (List Meta), All2 (Good cap (fun o r => o = r)) owns (progs.map (allocAllC c cap fuel)) ∧
      owns.flatten = []
  | [] => ⟨[], .nil, rfl⟩
  | sizes :: rest => by
    obtain ⟨owns, h1, h2⟩ := init_all2 cap c fuel rest
    refine ⟨[] :: owns, .cons ?_ h1, by simpa using h2⟩
    exact (good_allocAll cap c fuel sizes []).mono (fun o r h => by simpa using h)

-- (the hypotheses `hro`, `hfuel`, `hcap`, `hlo` of the statement turn out not to be needed by the proof)
set_option linter.unusedVariables false in
/-- every schedule, every number of threads, every list of request sizes per thread -/
theorem fastpath_exclusive (c : Cfg) (hro : c.ro = false) (sh : Shared) (fuel : Nat) (hfuel : 0 < fuel)
    (hcap : sh.st.cap < TWO32) (hlo : 1 ≤ sh.st.allocated) (hhi : sh.st.allocated ≤ sh.st.cap)
    (hempty : sh.st.sentinel = SENTINEL_WORD)
    (progs : List (List Nat)) (sched : List (Nat × Bool)) :
    let g0 : Global (List Meta) := { sh := sh, threads := progs.map (allocAllC c sh.st.cap fuel) }
    let g := (g0.run sched).1
    let handles := (g.results.filterMap id).flatten
    handles.Pairwise (fun a b => disj a.access b.access) ∧
    (∀ m ∈ handles, sh.st.allocated ≤ m.ptrOff ∧ m.ptrOff + m.ptrSize ≤ g.sh.st.allocated ∧ m.memOff = m.ptrOff ∧ m.memSize = m.ptrSize) ∧
    sh.st.allocated ≤ g.sh.st.allocated ∧ g.sh.st.allocated ≤ sh.st.cap ∧ g.sh.st.sentinel = SENTINEL_WORD := by
  intro g0 g handles
  have h0 : GInv sh.st.cap sh.st.allocated g0 := by
    obtain ⟨owns, h1, h2⟩ := init_all2 sh.st.cap c fuel progs
    exact ⟨hempty, Nat.le_refl _, hhi, owns, h1, by rw [h2]; exact .nil, by rw [h2]; intro m hm; cases hm⟩
  have hinv : GInv sh.st.cap sh.st.allocated g := GInv.run sched h0
  obtain ⟨owns, hall, hpw, hmem⟩ := hinv.owns
  have hsub : handles.Sublist owns.flatten := results_sublist g.sh hall
  exact ⟨hpw.sublist hsub, fun m hm => hmem m (hsub.subset hm), hinv.lo, hinv.hi, hinv.sent⟩

/-- lock-freedom of the cursor loop: a weak CAS on the cursor that fails without being told to fail spuriously
    has observed a value different from the one this thread read before, i.e. some other thread's access to the
    cursor succeeded in between -/
theorem cursor_cas_fails_only_on_change (sh : Shared) (e n : Nat) (s : Site) (k : Nat × Bool → Prog Unit)
    (sh' : Shared) (p' : Prog Unit) (ev : Event)
    (h : stepAccess sh (.cas .alloc e n true s k) false = .ok (sh', p', ev)) (hf : ev.ok = false) :
    sh.st.allocated ≠ e ∧ sh' = sh := by
  simp only [stepAccess, Shared.read, bind, Except.bind, pure, Except.pure] at h
  split at h
  · rename_i hc; simp at hc
  · split at h
    · simp only [Shared.write, pure, Except.pure] at h
      cases h
      cases hf
    · rename_i hne
      cases h
      exact ⟨hne, rfl⟩

end Rarena.Conc
