/-
  Proofs.HBLemmas — facts about the happens-before machine (`Model/HB.lean`): a release followed by an acquire on
  the same location transfers the releasing thread's clock; read-modify-writes keep a release sequence alive.
-/
import RarenaVerif.Model.HB

namespace Rarena.HB

/-- pointwise order of vector clocks, as a proposition -/
def VC.Le (a b : VC) : Prop := ∀ i, VC.get a i ≤ VC.get b i

/-! ### vector clocks -/

theorem VC.get_join (a b : VC) (i : Nat) : VC.get (a.join b) i = max (VC.get a i) (VC.get b i) := by
  unfold VC.join
  by_cases h : i < max a.size b.size
  · simp [VC.get, Array.getD, h]
  · have h1 : ¬ i < a.size := by omega
    have h2 : ¬ i < b.size := by omega
    simp [VC.get, Array.getD, h, h1, h2]

theorem VC.get_bump (a : VC) (t i : Nat) :
    VC.get (a.bump t) i = if i = t then VC.get a t + 1 else VC.get a i := by
  unfold VC.bump
  simp only [VC.get, Array.getD_eq_getD_getElem?, Array.getElem?_setIfInBounds]
  by_cases hs : a.size ≤ t
  · simp only [hs, if_true]
    by_cases hi : i = t
    · subst hi
      have h1 : i < a.size + (i + 1 - a.size) := by omega
      have h2 : ¬ i < a.size := by omega
      simp [h1, h2]
      rw [Array.getElem_append_right (by omega)]
      simp
    · simp only [Array.getElem?_append, Array.getElem?_replicate, hi, Ne.symm hi, if_false]
      by_cases h1 : i < a.size
      · simp [h1]
      · simp [h1]; split <;> simp
  · simp only [hs, if_false]
    by_cases hi : i = t
    · subst hi
      have h2 : i < a.size := by omega
      simp [h2]
    · simp [hi, Ne.symm hi]

theorem VC.Le.refl (a : VC) : VC.Le a a := fun _ => Nat.le_refl _

theorem VC.Le.trans {a b c : VC} (h1 : VC.Le a b) (h2 : VC.Le b c) : VC.Le a c :=
  fun i => Nat.le_trans (h1 i) (h2 i)

theorem VC.le_join_left (a b : VC) : VC.Le a (a.join b) := by
  intro i; rw [VC.get_join]; omega

theorem VC.le_join_right (a b : VC) : VC.Le b (a.join b) := by
  intro i; rw [VC.get_join]; omega

theorem VC.le_bump (a : VC) (t : Nat) : VC.Le a (a.bump t) := by
  intro i; rw [VC.get_bump]; split
  · subst_vars; omega
  · omega

/-! ### lookup after update -/

theorem find?_filter_ne (l : List (Nat × VC)) (t u : Nat) (h : u ≠ t) :
    (l.filter (·.1 != t)).find? (·.1 == u) = l.find? (·.1 == u) := by
  induction l with
  | nil => rfl
  | cons p ps ih =>
    by_cases hp : p.1 = t
    · have hu : ¬ p.1 = u := by omega
      rw [List.filter_cons_of_neg (by simp [hp]), List.find?_cons_of_neg (by simpa using hu), ih]
    · rw [List.filter_cons_of_pos (by simpa using hp)]
      by_cases hu : p.1 = u
      · rw [List.find?_cons_of_pos (by simpa using hu), List.find?_cons_of_pos (by simpa using hu)]
      · rw [List.find?_cons_of_neg (by simpa using hu), List.find?_cons_of_neg (by simpa using hu), ih]

theorem State.clock_setClock (s : State) (t : Nat) (v : VC) : (s.setClock t v).clock t = v := by
  simp [State.clock, State.setClock]

theorem State.clock_setClock_ne (s : State) (t u : Nat) (v : VC) (h : u ≠ t) :
    (s.setClock t v).clock u = s.clock u := by
  simp only [State.clock, State.setClock]
  rw [List.find?_cons_of_neg (by simpa using Ne.symm h), find?_filter_ne _ _ _ h]

theorem State.relOf_setClock (s : State) (t l : Nat) (v : VC) : (s.setClock t v).relOf l = s.relOf l := rfl

theorem State.clock_setRel (s : State) (t l : Nat) (v : VC) : (s.setRel l v).clock t = s.clock t := rfl

theorem State.relOf_setRel (s : State) (l : Nat) (v : VC) : (s.setRel l v).relOf l = v := by
  simp [State.relOf, State.setRel]

theorem State.relOf_setRel_ne (s : State) (l l' : Nat) (v : VC) (h : l' ≠ l) :
    (s.setRel l v).relOf l' = s.relOf l' := by
  simp only [State.relOf, State.setRel]
  rw [List.find?_cons_of_neg (by simpa using Ne.symm h), find?_filter_ne _ _ _ h]

/-! ### the atomic step without a byte range -/

/-- the thread clock after the acquire side of an atomic access -/
def acqClock (s : State) (t loc : Nat) (k : AccKind) (ord : Gen.Ord) : VC :=
  if (k == .load || k == .casFail || k == .rmw) && isAcq ord then (s.clock t).join (s.relOf loc) else s.clock t

/-- the state after the release side of an atomic access -/
def relState (s : State) (t loc : Nat) (k : AccKind) (ord : Gen.Ord) : State :=
  match k with
  | .store => if isRel ord then s.setRel loc (acqClock s t loc k ord) else s.setRel loc #[]
  | .rmw => if isRel ord then s.setRel loc ((s.relOf loc).join (acqClock s t loc k ord)) else s
  | _ => s

theorem step_atomic_none (s : State) (t loc : Nat) (k : AccKind) (ord : Gen.Ord) :
    step s (.atomic t k loc none ord) =
      (relState s t loc k ord).setClock t
        (if (k == .store || k == .rmw) && isRel ord then (acqClock s t loc k ord).bump t
         else acqClock s t loc k ord) := by
  cases k <;> rfl

theorem clock_le_acqClock (s : State) (t loc : Nat) (k : AccKind) (ord : Gen.Ord) :
    VC.Le (s.clock t) (acqClock s t loc k ord) := by
  unfold acqClock; split
  · exact VC.le_join_left _ _
  · exact VC.Le.refl _

theorem relState_clock (s : State) (t u loc : Nat) (k : AccKind) (ord : Gen.Ord) :
    (relState s t loc k ord).clock u = s.clock u := by
  unfold relState; split
  · split <;> rfl
  · split <;> rfl
  · rfl

theorem step_clock_self (s : State) (t loc : Nat) (k : AccKind) (ord : Gen.Ord) :
    VC.Le (acqClock s t loc k ord) ((step s (.atomic t k loc none ord)).clock t) := by
  rw [step_atomic_none, State.clock_setClock]; split
  · exact VC.le_bump _ _
  · exact VC.Le.refl _

theorem step_relOf (s : State) (t loc l : Nat) (k : AccKind) (ord : Gen.Ord) :
    (step s (.atomic t k loc none ord)).relOf l = (relState s t loc k ord).relOf l := by
  rw [step_atomic_none, State.relOf_setClock]

/-! ### the lemmas -/

/-- a release store / release RMW by thread `a` on `loc` publishes `a`'s clock in the release clock of `loc` -/
theorem release_publishes (s : State) (a loc : Nat) (k : AccKind) (ord : Gen.Ord)
    (hk : k = .store ∨ k = .rmw) (hr : isRel ord = true) :
    VC.Le (s.clock a) ((step s (.atomic a k loc none ord)).relOf loc) := by
  rw [step_relOf]
  rcases hk with rfl | rfl
  · simp only [relState, hr, if_true, State.relOf_setRel]
    exact clock_le_acqClock _ _ _ _ _
  · simp only [relState, hr, if_true, State.relOf_setRel]
    exact VC.Le.trans (clock_le_acqClock _ _ _ _ _) (VC.le_join_right _ _)

/-- an acquire load / acquire RMW / failed CAS with acquire failure ordering by thread `b` joins the release
    clock of the location into `b`'s clock -/
theorem acquire_joins (s : State) (b loc : Nat) (k : AccKind) (ord : Gen.Ord)
    (hk : k = .load ∨ k = .rmw ∨ k = .casFail) (ha : isAcq ord = true) :
    VC.Le (s.relOf loc) ((step s (.atomic b k loc none ord)).clock b) := by
  refine VC.Le.trans ?_ (step_clock_self s b loc k ord)
  have hc : ((k == .load || k == .casFail || k == .rmw) && isAcq ord) = true := by
    rcases hk with rfl | rfl | rfl <;> simp [ha]
  unfold acqClock
  rw [if_pos hc]
  exact VC.le_join_right _ _

-- (`hab` is not needed for the proof; the statement is kept as given)
set_option linter.unusedVariables false in
/-- release → acquire on the same location: everything `a` did before the release happens-before everything
    `b` does after the acquire -/
theorem release_acquire_transfers (s : State) (a b loc : Nat) (kr ka : AccKind) (or oa : Gen.Ord)
    (hkr : kr = .store ∨ kr = .rmw) (hr : isRel or = true)
    (hka : ka = .load ∨ ka = .rmw ∨ ka = .casFail) (ha : isAcq oa = true) (hab : a ≠ b) :
    VC.Le (s.clock a) ((step (step s (.atomic a kr loc none or)) (.atomic b ka loc none oa)).clock b) :=
  VC.Le.trans (release_publishes s a loc kr or hkr hr) (acquire_joins _ b loc ka oa hka ha)

/-- a read-modify-write by a third thread (whatever its ordering) keeps what was published in the release
    clock: the release sequence continues through RMWs (this is what makes `fetch_sub(Release)` on the reference
    count work for any number of handles) -/
theorem rmw_keeps_release (s : State) (t loc : Nat) (ord : Gen.Ord) :
    VC.Le (s.relOf loc) ((step s (.atomic t .rmw loc none ord)).relOf loc) := by
  rw [step_relOf]
  simp only [relState]
  split
  · rw [State.relOf_setRel]; exact VC.le_join_left _ _
  · exact VC.Le.refl _

/-- an atomic access to another location does not change the release clock of `loc` -/
theorem other_loc_keeps_release (s : State) (t loc loc' : Nat) (k : AccKind) (ord : Gen.Ord) (h : loc' ≠ loc) :
    (step s (.atomic t k loc' none ord)).relOf loc = s.relOf loc := by
  rw [step_relOf]
  have h' : loc ≠ loc' := Ne.symm h
  unfold relState; split
  · split <;> exact State.relOf_setRel_ne _ _ _ _ h'
  · split
    · exact State.relOf_setRel_ne _ _ _ _ h'
    · rfl
  · rfl

/-- clocks of other threads are untouched by a step of thread `t` -/
theorem other_thread_clock (s : State) (t u loc : Nat) (k : AccKind) (ord : Gen.Ord) (h : u ≠ t) :
    (step s (.atomic t k loc none ord)).clock u = s.clock u := by
  rw [step_atomic_none, State.clock_setClock_ne _ _ _ _ h, relState_clock]

end Rarena.HB
