/-
  Proofs.ConcNoneHB — property C12 for `Freelist::None`: memory that is recycled is handed over with a
  happens-before edge, in EVERY run (any number of threads, any `noneProg` programs of `Proofs/ConcNone.lean` —
  `alloc_bytes`, `alloc_aligned_bytes`, typed `alloc`, `Drop` of own handles —, any schedule including spurious failures
  of the weak CAS).

  On a `Freelist::None` arena bytes are recycled only through the cursor: thread A releases its topmost block `[o, o+s)`
  with the CAS `dealloc#0` (cursor `o+s → o`), later an allocation CAS of thread B moves the cursor up over those bytes
  and B zero-fills them.

  1. `HBS`, `hbAcc`, `hbPlain`, `hbAtomicT`: the vector-clock semantics of `Model/HB.lean` (`HB.VC`, `isAcq`, `isRel`,
     `AccKind`) on the machine's own `Event`s; kind and ordering of an event come from the table of orderings
     (`evKind`: successful CAS = RMW with `ords[0]`, failed CAS — spurious included — = `casFail` with `ords[1]`).
     (L1) `hbAcc_agrees` / `hbAtomic_agrees`: this is exactly what `HB.step` does to `clocks` / `rel`
     (`absS`) for `.atomic t k loc none ord`; `step_plain_write` + `absS_plain`: the same for `.plain`.
  2. `NAcc`, `logNAs`, `istepT`, `irunT` (`irun` = with `Site.ords`): the instrumented run. Every step of `Global.step`
     logs its non-atomic effects (the two `NA` lists of the machine's `settle`s, `stepNAs2`, = `stepNAs` of ConcNone)
     with the clock of the thread, and updates the clocks for the emitted event. `irunT_g`: the run itself is `Global.run`.
  3. `Sited tbl p`: in `p` the cursor is written only by CASes at sites whose success ordering acquires and releases
     (`CursorSite`), and there are no atomic stores. `sited_noneProg` needs `CursorSites tbl`, four facts about the
     table; for the table regenerated from the Rust source they are proved by `decide` (`ords_alloc_bytes_cas`,
     `ords_alloc_aligned_cas`, `ords_alloc_in_cas`, `ords_dealloc_cas`, `cursorSites_source`) — NO hypotheses about
     orderings: a change of an ordering in the source breaks these lemmas.
  4. (L2) `hbAtomicT_cursor`, `hbAtomicT_rel_mono`: a successful cursor CAS joins the release clock of the cursor into
     the clock of its thread and publishes that clock; no later access lowers a release clock (RMWs continue release
     sequences; there are no stores).
  5. `LInv`: the invariant — (own) a thread knows its accesses, (above) accesses to bytes at or above the cursor are in
     the release clock of the cursor, (held) accesses of others to bytes of an extent held by `t` are in `t`'s clock,
     (ord) the theorem for the log so far. `LInv.atomic`, `LInv.logNAs`, `HInv.step`, `HInv.run`.
  6. THEOREMS: `none_handover_hb` (and `_tbl`, `_chrono`), `none_handover_no_race`, `none_holder_knows`, and
     `none_hb_check_no_race`: `HB.check` reports no race on the trace (`runTrace`) of any run.
  7. Examples: the hand-over run of two threads with the orderings of the source (ordered, `HB.check` silent) and with
     `dealloc#0` weakened to `Relaxed` or the allocation CAS not acquiring (NOT ordered, `HB.check` reports a race).
-/
import RarenaVerif.Proofs.ConcNone
import RarenaVerif.Proofs.HBLemmas

namespace Rarena.Conc.NoneHB

open Rarena Rarena.Conc Rarena.Conc.NoneFL
open Rarena.HB (VC isAcq isRel AccKind)

/-! ### 1. the clock semantics on the machine's own events -/

/-- clock state: a vector clock per thread and a release clock per atomic location -/
structure HBS where
  clk : Nat → VC
  rel : ALoc → VC

/-- the initial clocks of `HB.State` when nothing is recorded: thread `t` is at `bump #[] t`, release clocks are `⊥` -/
def HBS.init : HBS := ⟨fun t => VC.bump #[] t, fun _ => #[]⟩

def updN (f : Nat → VC) (t : Nat) (v : VC) : Nat → VC := fun u => if u = t then v else f u
def updL (f : ALoc → VC) (l : ALoc) (v : VC) : ALoc → VC := fun m => if m = l then v else f m

/-- what `HB.step` does to the clocks for `.atomic t k loc none ord` -/
def hbAcc (h : HBS) (t : Nat) (k : AccKind) (loc : ALoc) (ord : Gen.Ord) : HBS :=
  let c := h.clk t
  let c1 := if (k == .load || k == .casFail || k == .rmw) && isAcq ord then c.join (h.rel loc) else c
  let rel' : ALoc → VC :=
    match k with
    | .store => if isRel ord then updL h.rel loc c1 else updL h.rel loc #[]
    | .rmw => if isRel ord then updL h.rel loc ((h.rel loc).join c1) else h.rel
    | _ => h.rel
  let c2 := if (k == .store || k == .rmw) && isRel ord then c1.bump t else c1
  ⟨updN h.clk t c2, rel'⟩

/-- what `HB.step` does to the clocks for a non-atomic access `.plain t …`: a new epoch of the thread -/
def hbPlain (h : HBS) (t : Nat) : HBS := ⟨updN h.clk t ((h.clk t).bump t), h.rel⟩

/-- the `i`-th ordering passed at a call site according to the table `tbl` (relaxed if missing) -/
def ordAt (tbl : Site → List Gen.Ord) (s : Site) (i : Nat) : Gen.Ord := (tbl s).getD i .relaxed

/-- kind and ordering of an executed access: a successful CAS is an RMW with the success ordering, a failed one
    (spurious failures included) a load with the failure ordering -/
def evKind (tbl : Site → List Gen.Ord) (e : Event) : AccKind × Gen.Ord :=
  match e.kind with
  | .ld => (.load, ordAt tbl e.site 0)
  | .st => (.store, ordAt tbl e.site 0)
  | .faa => (.rmw, ordAt tbl e.site 0)
  | .fas => (.rmw, ordAt tbl e.site 0)
  | .cas => if e.ok then (.rmw, ordAt tbl e.site 0) else (.casFail, ordAt tbl e.site 1)
  | .casw => if e.ok then (.rmw, ordAt tbl e.site 0) else (.casFail, ordAt tbl e.site 1)

/-- clock update for an event of the machine executed by thread `t`, orderings from the table `tbl` -/
def hbAtomicT (tbl : Site → List Gen.Ord) (h : HBS) (t : Nat) (e : Event) : HBS :=
  hbAcc h t (evKind tbl e).1 e.loc (evKind tbl e).2

/-- … with the orderings of the Rust source (`Gen/Orderings.lean`) -/
abbrev hbAtomic (h : HBS) (t : Nat) (e : Event) : HBS := hbAtomicT Site.ords h t e

/-! #### (L1) agreement with `HB.step` -/

/-- location keys of the `HB` machine -/
def locKey : ALoc → Nat
  | .sent => 0 | .alloc => 1 | .minseg => 2 | .disc => 3 | .refs => 4
  | .node off => 5 + off

theorem locKey_inj {a b : ALoc} (h : locKey a = locKey b) : a = b := by
  cases a <;> cases b <;> simp only [locKey] at h <;> first | rfl | omega | (congr 1; omega)

/-- the clocks of a state of `Model/HB.lean` -/
def absS (s : HB.State) : HBS := ⟨fun t => s.clock t, fun l => s.relOf (locKey l)⟩

theorem relOf_setRel_key (s : HB.State) (l m : ALoc) (v : VC) :
    (s.setRel (locKey l) v).relOf (locKey m) = if m = l then v else s.relOf (locKey m) := by
  by_cases hm : m = l
  · subst hm; rw [if_pos rfl, HB.State.relOf_setRel]
  · rw [if_neg hm, HB.State.relOf_setRel_ne]
    exact fun h => hm (locKey_inj h)

/-- (L1) `hbAcc` is exactly `HB.step` on the `clocks` / `rel` components for an atomic access without a byte range -/
theorem hbAcc_agrees (s : HB.State) (t : Nat) (k : AccKind) (loc : ALoc) (ord : Gen.Ord) :
    absS (HB.step s (.atomic t k (locKey loc) none ord)) = hbAcc (absS s) t k loc ord := by
  rw [HB.step_atomic_none]
  simp only [absS, hbAcc, HBS.mk.injEq]
  constructor
  · funext u
    by_cases hu : u = t
    · subst hu
      simp only [HB.State.clock_setClock, updN, if_true, HB.acqClock]
    · simp only [HB.State.clock_setClock_ne _ _ _ _ hu, HB.relState_clock, updN, if_neg hu]
  · funext m
    rw [HB.State.relOf_setClock]
    cases k <;> simp only [HB.relState, HB.acqClock]
    · split
      · rw [relOf_setRel_key]; rfl
      · rw [relOf_setRel_key]; rfl
    · split
      · rw [relOf_setRel_key]; rfl
      · rfl

/-- (L1) for the events of the machine -/
theorem hbAtomic_agrees (tbl : Site → List Gen.Ord) (s : HB.State) (t : Nat) (e : Event) :
    absS (HB.step s (.atomic t (evKind tbl e).1 (locKey e.loc) none (evKind tbl e).2)) = hbAtomicT tbl (absS s) t e :=
  hbAcc_agrees s t _ _ _

/-! ### 2. the instrumented run -/

/-- a logged non-atomic access: thread, byte range `[lo, hi)`, and the clock of the thread at the access (its epoch is
    `vc.get tid`, the value `HB.step` stores for a `.plain` write) -/
structure NAcc where
  tid : Nat
  lo : Nat
  hi : Nat
  vc : VC

def NAcc.epoch (a : NAcc) : Nat := a.vc.get a.tid

/-- the bytes touched by a non-atomic effect (`unmount` touches the whole memory) -/
def naRange (cap : Nat) : NA → Nat × Nat
  | .zero off len => (off, off + len)
  | .fill off len _ => (off, off + len)
  | .verify off len => (off, off + len)
  | .unmount => (0, cap)

/-- log the non-atomic effects `es` of thread `t` one after the other (the log is newest-first); each opens a new
    epoch of the thread as `HB.step` does for `.plain` -/
def logNAs (cap t : Nat) : HBS → List NAcc → List NA → HBS × List NAcc
  | h, log, [] => (h, log)
  | h, log, e :: es =>
    logNAs cap t (hbPlain h t) (⟨t, (naRange cap e).1, (naRange cap e).2, h.clk t⟩ :: log) es

/-- the non-atomic effects of a step of the machine, split into those before and those after the atomic access -/
def tnas2 {α : Type} (sh : Shared) (p : Prog α) (sp : Bool) : List NA × List NA :=
  match settle 100000 sh p [] with
  | (sh1, .blocked p1, n1) =>
    match stepAccess sh1 p1 sp with
    | .ok (sh2, p2, _) => (n1, (settle 100000 sh2 p2 []).2.2)
    | .error _ => (n1, [])
  | (_, _, n1) => (n1, [])

def stepNAs2 {α : Type} (g : Global α) (tid : Nat) (sp : Bool) : List NA × List NA :=
  match g.threads[tid]? with
  | none => ([], [])
  | some p => tnas2 g.sh p sp

/-- together they are `stepNAs` of `Proofs/ConcNone.lean` -/
theorem tnas2_append {α : Type} (sh : Shared) (p : Prog α) (sp : Bool) :
    (tnas2 sh p sp).1 ++ (tnas2 sh p sp).2 = tnas sh p sp := by
  unfold tnas2 tnas
  rcases settle 100000 sh p [] with ⟨sh1, s, n1⟩
  rcases s with a | fl | p1 <;> simp only [List.append_nil]
  rcases stepAccess sh1 p1 sp with e | ⟨sh2, p2, e⟩ <;> simp only [List.append_nil]

theorem stepNAs2_append {α : Type} (g : Global α) (tid : Nat) (sp : Bool) :
    (stepNAs2 g tid sp).1 ++ (stepNAs2 g tid sp).2 = stepNAs g tid sp := by
  unfold stepNAs2 stepNAs
  rcases g.threads[tid]? with _ | p
  · rfl
  · exact tnas2_append g.sh p sp

/-- instrumented state: the machine state, the clocks, and the log of the non-atomic accesses (newest first) -/
structure IState (α : Type) where
  g : Global α
  h : HBS
  log : List NAcc

/-- one instrumented step: the non-atomic prefix is logged, the machine steps, the clocks are updated for the
    emitted event, the non-atomic effects after the access are logged -/
def istepT {α : Type} (tbl : Site → List Gen.Ord) (s : IState α) (tid : Nat) (sp : Bool) : IState α :=
  let nas := stepNAs2 s.g tid sp
  let r := s.g.step tid sp
  let l1 := logNAs s.g.sh.st.cap tid s.h s.log nas.1
  let h2 := match r.2 with
    | some e => hbAtomicT tbl l1.1 tid e
    | none => l1.1
  let l3 := logNAs s.g.sh.st.cap tid h2 l1.2 nas.2
  ⟨r.1, l3.1, l3.2⟩

def irunT {α : Type} (tbl : Site → List Gen.Ord) (s : IState α) : List (Nat × Bool) → IState α
  | [] => s
  | (tid, sp) :: rest => irunT tbl (istepT tbl s tid sp) rest

/-- the instrumented run with the orderings of the Rust source -/
abbrev irun {α : Type} (s : IState α) (sched : List (Nat × Bool)) : IState α := irunT Site.ords s sched

/-- the instrumentation does not change the run -/
theorem irunT_g {α : Type} (tbl : Site → List Gen.Ord) : ∀ (sched : List (Nat × Bool)) (s : IState α),
    (irunT tbl s sched).g = (s.g.run sched).1
  | [], _ => rfl
  | (tid, sp) :: rest, s => by
    simp only [irunT, Global.run]
    rw [irunT_g tbl rest]
    rfl

/-- the event of a step of the machine -/
def tev {α : Type} (sh : Shared) (p : Prog α) (sp : Bool) : Option Event :=
  match settle 100000 sh p [] with
  | (sh1, .blocked p1, _) =>
    match stepAccess sh1 p1 sp with
    | .ok (_, _, e) => some e
    | .error _ => none
  | _ => none

theorem step_ev_none {α : Type} (g : Global α) (tid : Nat) (sp : Bool) (h : g.threads[tid]? = none) :
    (g.step tid sp).2 = none := by
  unfold Global.step
  simp only [h]

theorem step_ev_some {α : Type} (g : Global α) (tid : Nat) (sp : Bool) (p : Prog α) (h : g.threads[tid]? = some p) :
    (g.step tid sp).2 = tev g.sh p sp := by
  unfold Global.step tev
  simp only [h]
  rcases hs : settle 100000 g.sh p [] with ⟨sh1, s, nas⟩
  rcases s with a | (s | _) | p1 <;> simp only []
  rcases ha : stepAccess sh1 p1 sp with (s | _) | ⟨sh2, p2, e⟩ <;> simp only []
  rcases hs2 : settle 100000 sh2 p2 [] with ⟨sh3, s, nas⟩
  rcases s with a | (s | _) | p3 <;> simp only []

/-! ### 3. the call sites of the cursor accesses -/

/-- a site whose (success) ordering both acquires and releases -/
def CursorSite (tbl : Site → List Gen.Ord) (s : Site) : Prop :=
  isAcq (ordAt tbl s 0) = true ∧ isRel (ordAt tbl s 0) = true

theorem ords_alloc_bytes_cas : (Site.mk "alloc_bytes_in" 1).ords = [.seqCst, .acquire] := by decide
theorem ords_alloc_aligned_cas : (Site.mk "alloc_aligned_bytes_in" 1).ords = [.seqCst, .acquire] := by decide
theorem ords_alloc_in_cas : (Site.mk "alloc_in" 1).ords = [.seqCst, .acquire] := by decide
theorem ords_dealloc_cas : (Site.mk "dealloc" 0).ords = [.seqCst, .relaxed] := by decide

theorem cursorSite_alloc_bytes : CursorSite Site.ords ⟨"alloc_bytes_in", 1⟩ := by
  simp only [CursorSite, ordAt, ords_alloc_bytes_cas]; decide
theorem cursorSite_alloc_aligned : CursorSite Site.ords ⟨"alloc_aligned_bytes_in", 1⟩ := by
  simp only [CursorSite, ordAt, ords_alloc_aligned_cas]; decide
theorem cursorSite_alloc_in : CursorSite Site.ords ⟨"alloc_in", 1⟩ := by
  simp only [CursorSite, ordAt, ords_alloc_in_cas]; decide
theorem cursorSite_dealloc : CursorSite Site.ords ⟨"dealloc", 0⟩ := by
  simp only [CursorSite, ordAt, ords_dealloc_cas]; decide

/-- programs in which the cursor is written only by compare-exchanges at sites that acquire and release, and in
    which nothing is stored atomically -/
inductive Sited {α : Type} (tbl : Site → List Gen.Ord) : Prog α → Prop where
  | ret {a} : Sited tbl (.ret a)
  | trap {s} : Sited tbl (.trap s)
  | diverge : Sited tbl .diverge
  | load {l s k} : (∀ v, Sited tbl (k v)) → Sited tbl (.load l s k)
  | cas {l e n w s k} : (l = .alloc → CursorSite tbl s) → (∀ r, Sited tbl (k r)) → Sited tbl (.cas l e n w s k)
  | rmw {l v sub s k} : l ≠ .alloc → (∀ r, Sited tbl (k r)) → Sited tbl (.rmw l v sub s k)
  | na {e k} : Sited tbl (k ()) → Sited tbl (.na e k)

theorem Sited.bind {α β : Type} {tbl : Site → List Gen.Ord} {p : Prog α} {f : α → Prog β} (h : Sited tbl p)
    (hf : ∀ a, Sited tbl (f a)) : Sited tbl (p.bind f) := by
  induction h with
  | ret => exact hf _
  | trap => exact .trap
  | diverge => exact .diverge
  | load _ ih => exact .load (fun v => ih v)
  | cas h1 _ ih => exact .cas h1 (fun r => ih r)
  | rmw h1 _ ih => exact .rmw h1 (fun r => ih r)
  | na _ ih => exact .na ih

theorem sited_liftM' {α : Type} (tbl : Site → List Gen.Ord) (x : M α) : Sited tbl (liftM' x) := by
  rcases x with (_ | _) | a
  · exact .trap
  · exact .diverge
  · exact .ret

theorem sited_remaining (tbl : Site → List Gen.Ord) : Sited tbl remainingC := by
  unfold remainingC load
  simp only [bind_eq, pure_eq, Prog.bind]
  exact .load (fun v => .ret)

theorem sited_slowPath (tbl : Site → List Gen.Ord) (c : Cfg) (hk : c.kind = .none) (size fuel : Nat) :
    Sited tbl (slowPathC c size fuel) := by
  unfold slowPathC
  rw [hk]
  exact (sited_remaining tbl).bind (fun _ => .ret)

theorem sited_retryLoop (tbl : Site → List Gen.Ord) (c : Cfg) (hk : c.kind = .none) (size fuel : Nat)
    (post : Meta → M Meta) : ∀ n i, Sited tbl (retryLoopC c size fuel post n i)
  | 0, _ => .diverge
  | n + 1, i => by
    unfold retryLoopC
    rw [bind_eq]
    refine (sited_slowPath tbl c hk size fuel).bind (fun r => ?_)
    rcases r with e | m
    · dsimp only
      rw [if_pos hk]
      exact .ret
    · dsimp only
      rw [bind_eq]
      exact (sited_liftM' tbl _).bind (fun _ => .ret)

theorem sited_bumpLoop (tbl : Site → List Gen.Ord) (fn : String) (hfn : CursorSite tbl ⟨fn, 1⟩)
    (want : Nat → M (Option Nat)) : ∀ fuel a, Sited tbl (bumpLoopC fn want fuel a)
  | 0, _ => .diverge
  | f + 1, a => by
    unfold bumpLoopC
    rw [bind_eq]
    refine (sited_liftM' tbl _).bind (fun w => ?_)
    rcases w with _ | wnt
    · exact .ret
    · dsimp only
      simp only [bind_eq, casw, Prog.bind]
      refine .cas (fun _ => hfn) (fun r => ?_)
      rcases r with ⟨obs, ok⟩
      dsimp only
      split
      · exact .ret
      · exact sited_bumpLoop tbl fn hfn want f obs

theorem sited_allocBytes (tbl : Site → List Gen.Ord) (hs : CursorSite tbl ⟨"alloc_bytes_in", 1⟩) (c : Cfg)
    (hk : c.kind = .none) (cap size fuel : Nat) : Sited tbl (allocBytesC c cap size fuel) := by
  unfold allocBytesC
  split
  · exact .ret
  split
  · exact .ret
  simp only [bind_eq, load, Prog.bind]
  refine .load (fun a0 => ?_)
  refine (sited_bumpLoop tbl _ hs _ fuel a0).bind (fun r => ?_)
  rcases r with _ | ⟨off, w⟩
  · exact sited_retryLoop tbl c hk size fuel pure 300 0
  · dsimp only
    simp only [na, Prog.bind, pure_eq]
    exact .na .ret

theorem sited_allocAligned (tbl : Site → List Gen.Ord) (hs : CursorSite tbl ⟨"alloc_bytes_in", 1⟩)
    (hs' : CursorSite tbl ⟨"alloc_aligned_bytes_in", 1⟩) (c : Cfg)
    (hk : c.kind = .none) (cap tsize talign extra fuel : Nat) : Sited tbl (allocAlignedC c cap tsize talign extra fuel) := by
  unfold allocAlignedC
  split
  · exact .ret
  split
  · exact sited_allocBytes tbl hs c hk cap extra fuel
  simp only [bind_eq, load, Prog.bind]
  refine .load (fun a0 => ?_)
  refine (sited_bumpLoop tbl _ hs' _ fuel a0).bind (fun r => ?_)
  rcases r with _ | ⟨off, w⟩
  · dsimp only
    split
    · exact (sited_remaining tbl).bind (fun _ => .ret)
    · exact sited_retryLoop tbl c hk _ fuel _ 300 0
  · dsimp only
    exact (sited_liftM' tbl _).bind (fun _ => .ret)

theorem sited_allocT (tbl : Site → List Gen.Ord) (hs : CursorSite tbl ⟨"alloc_in", 1⟩) (c : Cfg)
    (hk : c.kind = .none) (cap tsize talign fuel : Nat) : Sited tbl (allocTC c cap tsize talign fuel) := by
  unfold allocTC
  split
  · exact .ret
  split
  · exact .ret
  simp only [bind_eq, load, Prog.bind]
  refine .load (fun a0 => ?_)
  refine (sited_bumpLoop tbl _ hs _ fuel a0).bind (fun r => ?_)
  rcases r with _ | ⟨off, w⟩
  · exact sited_retryLoop tbl c hk _ fuel _ 300 0
  · dsimp only
    refine (sited_liftM' tbl _).bind (fun m => ?_)
    simp only [na, Prog.bind, pure_eq]
    exact .na .ret

theorem sited_dealloc (tbl : Site → List Gen.Ord) (hs : CursorSite tbl ⟨"dealloc", 0⟩) (c : Cfg)
    (hk : c.kind = .none) (off size fuel : Nat) : Sited tbl (deallocC c off size fuel) := by
  unfold deallocC
  rw [bind_eq]
  refine (sited_liftM' tbl _).bind (fun top => ?_)
  simp only [bind_eq, cas, Prog.bind]
  refine .cas (fun _ => hs) (fun r => ?_)
  rcases r with ⟨obs, ok⟩
  dsimp only
  split
  · exact .ret
  · simp only [hk, incDiscardedC]
    split
    · exact .ret
    · simp only [bind_eq, faa, Prog.bind, pure_eq]
      exact .rmw (by decide) (fun _ => .ret)

/-- the four orderings the proof depends on, as one hypothesis about a table -/
structure CursorSites (tbl : Site → List Gen.Ord) : Prop where
  bytes : CursorSite tbl ⟨"alloc_bytes_in", 1⟩
  aligned : CursorSite tbl ⟨"alloc_aligned_bytes_in", 1⟩
  typed : CursorSite tbl ⟨"alloc_in", 1⟩
  dealloc : CursorSite tbl ⟨"dealloc", 0⟩

/-- the table regenerated from the Rust source satisfies it -/
theorem cursorSites_source : CursorSites Site.ords :=
  ⟨cursorSite_alloc_bytes, cursorSite_alloc_aligned, cursorSite_alloc_in, cursorSite_dealloc⟩

theorem sited_noneProg (tbl : Site → List Gen.Ord) (hs : CursorSites tbl) (c : Cfg) (hk : c.kind = .none)
    (cap fuel : Nat) : ∀ (ops : List NOp) (held : List Meta), Sited tbl (noneProg c cap fuel ops held)
  | [], _ => .ret
  | op :: rest, held => by
    cases op with
    | allocBytes n =>
      unfold noneProg
      rw [bind_eq]
      exact (sited_allocBytes tbl hs.bytes c hk cap n fuel).bind (fun _ => sited_noneProg tbl hs c hk cap fuel rest _)
    | allocAligned ts ta ex =>
      unfold noneProg
      rw [bind_eq]
      exact (sited_allocAligned tbl hs.bytes hs.aligned c hk cap ts ta ex fuel).bind
        (fun _ => sited_noneProg tbl hs c hk cap fuel rest _)
    | allocT ts ta =>
      unfold noneProg
      rw [bind_eq]
      exact (sited_allocT tbl hs.typed c hk cap ts ta fuel).bind (fun _ => sited_noneProg tbl hs c hk cap fuel rest _)
    | release i =>
      unfold noneProg
      rcases held[i]? with _ | m
      · exact sited_noneProg tbl hs c hk cap fuel rest held
      · dsimp only
        rw [bind_eq]
        exact (sited_dealloc tbl hs.dealloc c hk _ _ fuel).bind (fun _ => sited_noneProg tbl hs c hk cap fuel rest _)

/-! #### one step of a sited thread -/

theorem settle_cursor {α : Type} : ∀ (fuel : Nat) (sh : Shared) (p : Prog α) (nas : List NA),
    (settle fuel sh p nas).1.st.allocated = sh.st.allocated
  | 0, _, _, _ => rfl
  | f + 1, sh, p, nas => by
    cases p with
    | na e k =>
      simp only [settle]
      rcases ha : sh.applyNA e with fl | sh'
      · rfl
      · dsimp only
        rw [settle_cursor f sh' (k ()) _]
        exact (applyNA_frame2 sh sh' e ha).1
    | _ => rfl

theorem settle_sited {α : Type} {tbl : Site → List Gen.Ord} : ∀ (fuel : Nat) (sh : Shared) (p : Prog α) (nas : List NA),
    Sited tbl p → Sited tbl (settle fuel sh p nas).2.1.toProg
  | 0, _, _, _, _ => .diverge
  | f + 1, sh, p, nas, h => by
    cases h with
    | ret => exact .ret
    | trap => exact .trap
    | diverge => exact .diverge
    | load h => exact .load h
    | cas h1 h2 => exact .cas h1 h2
    | rmw h1 h2 => exact .rmw h1 h2
    | @na e k h =>
      simp only [settle]
      rcases ha : sh.applyNA e with fl | sh'
      · rcases fl with s | _
        · exact .trap
        · exact .diverge
      · exact settle_sited f sh' (k ()) _ h

theorem write_cursor {sh sh' : Shared} {l : ALoc} {v : Nat} (h : sh.write l v = .ok sh') (hl : l ≠ .alloc) :
    sh'.st.allocated = sh.st.allocated := by
  cases l with
  | alloc => exact absurd rfl hl
  | node off =>
    simp only [Shared.write, bind, Except.bind, pure, Except.pure] at h
    split at h
    · cases h
    · cases h; rfl
  | _ => simp only [Shared.write, pure, Except.pure] at h; cases h; rfl

/-- what the event of a step says when the step has changed the cursor: a successful compare-exchange on the cursor
    at a site that acquires and releases -/
def CursorEv (tbl : Site → List Gen.Ord) (e : Event) : Prop :=
  e.loc = .alloc ∧ e.ok = true ∧ (e.kind = .cas ∨ e.kind = .casw) ∧ CursorSite tbl e.site

theorem stepAccess_sited {α : Type} {tbl : Site → List Gen.Ord} {sh sh2 : Shared} {p p2 : Prog α} {sp : Bool} {ev : Event}
    (h : Sited tbl p) (hs : stepAccess sh p sp = .ok (sh2, p2, ev)) :
    Sited tbl p2 ∧ ev.kind ≠ .st ∧ (sh2.st.allocated ≠ sh.st.allocated → CursorEv tbl ev) := by
  cases h with
  | ret => simp [stepAccess, throw, throwThe, MonadExceptOf.throw] at hs
  | trap => simp [stepAccess, throw, throwThe, MonadExceptOf.throw] at hs
  | diverge => simp [stepAccess, throw, throwThe, MonadExceptOf.throw] at hs
  | na h => simp [stepAccess, throw, throwThe, MonadExceptOf.throw] at hs
  | @load l s k h =>
    simp only [stepAccess, bind, Except.bind, pure, Except.pure] at hs
    split at hs
    · cases hs
    · cases hs
      exact ⟨h _, (by intro hk; cases hk), fun hc => absurd rfl hc⟩
  | @cas l e n w s k h1 h2 =>
    simp only [stepAccess, bind, Except.bind, pure, Except.pure] at hs
    split at hs
    · cases hs
    · rename_i old hold
      split at hs
      · cases hs
        exact ⟨h2 _, (by intro hk; cases hk), fun hc => absurd rfl hc⟩
      · split at hs
        · split at hs
          · cases hs
          · rename_i sh' hw
            cases hs
            refine ⟨h2 _, by dsimp only; split <;> decide, fun hc => ?_⟩
            by_cases hl : l = .alloc
            · refine ⟨hl, rfl, ?_, h1 hl⟩
              dsimp only
              split
              · exact .inr rfl
              · exact .inl rfl
            · exact absurd (write_cursor hw hl) hc
        · cases hs
          exact ⟨h2 _, by dsimp only; split <;> decide, fun hc => absurd rfl hc⟩
  | @rmw l v sub s k h1 h2 =>
    simp only [stepAccess, bind, Except.bind, pure, Except.pure] at hs
    split at hs
    · cases hs
    · split at hs
      · cases hs
      · rename_i sh' hw
        cases hs
        exact ⟨h2 _, by dsimp only; split <;> decide, fun hc => absurd (write_cursor hw h1) hc⟩

theorem tstep_sited {α : Type} {tbl : Site → List Gen.Ord} {sh : Shared} {p : Prog α} (sp : Bool) (h : Sited tbl p) :
    Sited tbl (tstep sh p sp).2 ∧ (∀ e, tev sh p sp = some e → e.kind ≠ .st) ∧
    ((tstep sh p sp).1.st.allocated ≠ sh.st.allocated → ∃ e, tev sh p sp = some e ∧ CursorEv tbl e) := by
  unfold tstep tev
  have h1 := settle_sited 100000 sh p [] h
  have c1 := settle_cursor 100000 sh p []
  rcases hs : settle 100000 sh p [] with ⟨sh1, s, n1⟩
  rw [hs] at h1 c1
  dsimp only at h1 c1
  rcases s with a | fl | p1
  · exact ⟨h1, fun e he => (by cases he), fun hc => absurd c1 hc⟩
  · exact ⟨h1, fun e he => (by cases he), fun hc => absurd c1 hc⟩
  · dsimp only
    rcases ha : stepAccess sh1 p1 sp with (s | _) | ⟨sh2, p2, e⟩
    · exact ⟨.trap, fun e he => (by cases he), fun hc => absurd c1 hc⟩
    · exact ⟨.diverge, fun e he => (by cases he), fun hc => absurd c1 hc⟩
    · obtain ⟨g1, g2, g3⟩ := stepAccess_sited h1 ha
      have h3 := settle_sited 100000 sh2 p2 [] g1
      have c3 := settle_cursor 100000 sh2 p2 []
      dsimp only
      rcases hs2 : settle 100000 sh2 p2 [] with ⟨sh3, s3, n3⟩
      rw [hs2] at h3 c3
      dsimp only at h3 c3 ⊢
      refine ⟨h3, fun e' he' => ?_, fun hc => ⟨e, rfl, g3 ?_⟩⟩
      · cases he'; exact g2
      · rw [c3, ← c1] at hc; exact hc

/-! ### 4. facts about the clock updates -/

open Rarena.HB (VC.Le)

theorem hbAcc_clk_mono (h : HBS) (t : Nat) (k : AccKind) (loc : ALoc) (ord : Gen.Ord) (u : Nat) :
    VC.Le (h.clk u) ((hbAcc h t k loc ord).clk u) := by
  simp only [hbAcc, updN]
  by_cases hu : u = t
  · subst hu
    rw [if_pos rfl]
    have h1 : VC.Le (h.clk u)
        (if (k == .load || k == .casFail || k == .rmw) && isAcq ord then (h.clk u).join (h.rel loc) else h.clk u) := by
      split
      · exact HB.VC.le_join_left _ _
      · exact VC.Le.refl _
    split
    · exact h1.trans (HB.VC.le_bump _ _)
    · exact h1
  · rw [if_neg hu]
    exact VC.Le.refl _

theorem updL_le (f : ALoc → VC) (l m : ALoc) (v : VC) (hv : VC.Le (f l) v) : VC.Le (f m) (updL f l v m) := by
  unfold updL
  by_cases hm : m = l
  · subst hm; rw [if_pos rfl]; exact hv
  · rw [if_neg hm]; exact VC.Le.refl _

/-- an access that is not a store never lowers a release clock: release sequences continue through RMWs -/
theorem hbAcc_rel_mono (h : HBS) (t : Nat) (k : AccKind) (loc : ALoc) (ord : Gen.Ord) (hk : k ≠ .store) (m : ALoc) :
    VC.Le (h.rel m) ((hbAcc h t k loc ord).rel m) := by
  cases k with
  | store => exact absurd rfl hk
  | rmw =>
    simp only [hbAcc]
    split
    · exact updL_le _ _ _ _ (HB.VC.le_join_left _ _)
    · exact VC.Le.refl _
  | load => exact VC.Le.refl _
  | casFail => exact VC.Le.refl _

/-- an RMW that acquires joins the release clock of its location into the clock of the thread -/
theorem hbAcc_rmw_acq (h : HBS) (t : Nat) (loc : ALoc) (ord : Gen.Ord) (ha : isAcq ord = true) :
    VC.Le (h.rel loc) ((hbAcc h t .rmw loc ord).clk t) := by
  simp only [hbAcc, updN, if_true, ha, Bool.and_true, Bool.or_true, beq_self_eq_true]
  split
  · exact (HB.VC.le_join_right _ _).trans (HB.VC.le_bump _ _)
  · exact HB.VC.le_join_right _ _

/-- an RMW that releases publishes the clock of the thread in the release clock of its location -/
theorem hbAcc_rmw_rel (h : HBS) (t : Nat) (loc : ALoc) (ord : Gen.Ord) (hr : isRel ord = true) :
    VC.Le (h.clk t) ((hbAcc h t .rmw loc ord).rel loc) := by
  simp only [hbAcc, hr, if_true, updL]
  refine VC.Le.trans ?_ (HB.VC.le_join_right _ _)
  split
  · exact HB.VC.le_join_left _ _
  · exact VC.Le.refl _

theorem evKind_not_store (tbl : Site → List Gen.Ord) (e : Event) (h : e.kind ≠ .st) : (evKind tbl e).1 ≠ .store := by
  unfold evKind
  rcases e with ⟨k, l, s, o, n, ok⟩
  cases k <;> dsimp only
  · intro h'; cases h'
  · exact absurd rfl h
  · split <;> (intro h'; cases h')
  · split <;> (intro h'; cases h')
  · intro h'; cases h'
  · intro h'; cases h'

theorem evKind_cursor (tbl : Site → List Gen.Ord) (e : Event) (h : CursorEv tbl e) :
    evKind tbl e = (.rmw, ordAt tbl e.site 0) := by
  obtain ⟨-, hok, hk | hk, -⟩ := h <;> simp only [evKind, hk, hok, if_true]

theorem hbAtomicT_clk_mono (tbl : Site → List Gen.Ord) (h : HBS) (t : Nat) (e : Event) (u : Nat) :
    VC.Le (h.clk u) ((hbAtomicT tbl h t e).clk u) := hbAcc_clk_mono _ _ _ _ _ _

theorem hbAtomicT_rel_mono (tbl : Site → List Gen.Ord) (h : HBS) (t : Nat) (e : Event) (he : e.kind ≠ .st) (m : ALoc) :
    VC.Le (h.rel m) ((hbAtomicT tbl h t e).rel m) := hbAcc_rel_mono _ _ _ _ _ (evKind_not_store tbl e he) _

/-- (L2) a successful cursor CAS acquires what earlier cursor CASes have published and publishes the clock of its
    thread; by `hbAtomicT_rel_mono` what is published stays in the release clock of the cursor for the rest of the run -/
theorem hbAtomicT_cursor (tbl : Site → List Gen.Ord) (h : HBS) (t : Nat) (e : Event) (he : CursorEv tbl e) :
    VC.Le (h.rel .alloc) ((hbAtomicT tbl h t e).clk t) ∧ VC.Le (h.clk t) ((hbAtomicT tbl h t e).rel .alloc) := by
  unfold hbAtomicT
  rw [evKind_cursor tbl e he, he.1]
  exact ⟨hbAcc_rmw_acq _ _ _ _ he.2.2.2.1, hbAcc_rmw_rel _ _ _ _ he.2.2.2.2⟩

theorem hbPlain_clk_mono (h : HBS) (t u : Nat) : VC.Le (h.clk u) ((hbPlain h t).clk u) := by
  simp only [hbPlain, updN]
  split
  · subst_vars; exact HB.VC.le_bump _ _
  · exact VC.Le.refl _

/-! ### 5. the invariant of the log -/

/-- the earlier access `a1` happens-before the later access `a2` — unless they are accesses of the same thread or
    have no byte in common: the epoch of `a1` is known to the clock `a2` was made at -/
def Ordered (a2 a1 : NAcc) : Prop :=
  a1.tid ≠ a2.tid → (∃ b, a1.lo ≤ b ∧ b < a1.hi ∧ a2.lo ≤ b ∧ b < a2.hi) → a1.epoch ≤ a2.vc.get a1.tid

/-- invariant of the log (newest first) w.r.t. the cursor `cur`, the ghost extents `ghs` of the threads and the clocks:
    * `ord`: the theorem itself, for the accesses logged so far;
    * `own`: a thread knows its own accesses;
    * `above`: accesses to bytes at or above the cursor have been published in the release clock of the cursor;
    * `held`: accesses of others to bytes inside an extent held by thread `t` are known to `t`. -/
structure LInv (cur : Nat) (ghs : List Gh) (h : HBS) (log : List NAcc) : Prop where
  ord : log.Pairwise Ordered
  own : ∀ a ∈ log, a.epoch ≤ (h.clk a.tid).get a.tid
  above : ∀ a ∈ log, ∀ b, a.lo ≤ b → b < a.hi → cur ≤ b → a.epoch ≤ (h.rel .alloc).get a.tid
  held : ∀ a ∈ log, ∀ t γ x, t ≠ a.tid → ghs[t]? = some γ → x ∈ γ.own →
    ∀ b, a.lo ≤ b → b < a.hi → x.1 ≤ b → b < x.2 → a.epoch ≤ (h.clk t).get a.tid

/-- the atomic part of a step of thread `tid` (cursor `a → a'`, ghost state `γ → γ'`, clocks `h → h2`) -/
theorem LInv.atomic {a a' : Nat} {ghs : List Gh} {h h2 : HBS} {log : List NAcc} {tid : Nat} {γ γ' : Gh}
    (hI : LInv a ghs h log) (hγ : ghs[tid]? = some γ)
    (hclk : ∀ u, VC.Le (h.clk u) (h2.clk u)) (hrel : VC.Le (h.rel .alloc) (h2.rel .alloc))
    (hown : ∀ x ∈ γ'.own, x ∈ γ.own ∨ (x = (a, a') ∧ a < a'))
    (hdown : a' < a → (a', a) ∈ γ.own)
    (hcur : a' ≠ a → VC.Le (h.rel .alloc) (h2.clk tid) ∧ VC.Le (h.clk tid) (h2.rel .alloc)) :
    LInv a' (ghs.set tid γ') h2 log := by
  have hlt : tid < ghs.length := by
    rcases Nat.lt_or_ge tid ghs.length with h' | h'
    · exact h'
    · rw [List.getElem?_eq_none h'] at hγ; cases hγ
  refine ⟨hI.ord, fun x hx => Nat.le_trans (hI.own x hx) (hclk _ _), fun x hx b b1 b2 b3 => ?_,
    fun x hx t γt y ht hγt hy b b1 b2 b3 b4 => ?_⟩
  · by_cases hab : a ≤ b
    · exact Nat.le_trans (hI.above x hx b b1 b2 hab) (hrel _)
    · have hlt' : a' < a := by omega
      have hmem := hdown hlt'
      obtain ⟨-, hpub⟩ := hcur (by omega)
      by_cases hxt : tid = x.tid
      · subst hxt
        exact Nat.le_trans (hI.own x hx) (hpub _)
      · exact Nat.le_trans (hI.held x hx tid γ (a', a) hxt hγ hmem b b1 b2 b3 (by dsimp only; omega)) (hpub _)
  · by_cases htt : t = tid
    · subst htt
      rw [List.getElem?_set_self hlt] at hγt
      cases hγt
      rcases hown y hy with hy' | ⟨rfl, hlt'⟩
      · exact Nat.le_trans (hI.held x hx t γ y ht hγ hy' b b1 b2 b3 b4) (hclk _ _)
      · obtain ⟨hacq, -⟩ := hcur (by omega)
        exact Nat.le_trans (hI.above x hx b b1 b2 b3) (hacq _)
    · rw [List.getElem?_set_ne (Ne.symm htt)] at hγt
      exact Nat.le_trans (hI.held x hx t γt y ht hγt hy b b1 b2 b3 b4) (hclk _ _)

/-- logging the non-atomic effects of thread `tid`, all of them inside an extent `x` the thread holds -/
theorem LInv.logNAs {cur cap : Nat} {ghs : List Gh} {tid : Nat} {γ : Gh} {x : Ext}
    (hpw : (owns ghs).Pairwise disj) (hγ : ghs[tid]? = some γ) (hx : x ∈ γ.own) (hx2 : x.2 ≤ cur) :
    ∀ (es : List NA) (h : HBS) (log : List NAcc), LInv cur ghs h log →
      (∀ e ∈ es, x.1 ≤ (naRange cap e).1 ∧ (naRange cap e).2 ≤ x.2) →
      LInv cur ghs (logNAs cap tid h log es).1 (logNAs cap tid h log es).2
  | [], h, log, hI, _ => hI
  | e :: es, h, log, hI, hes => by
    simp only [NoneHB.logNAs]
    refine LInv.logNAs hpw hγ hx hx2 es _ _ ?_ (fun e' he' => hes e' (List.mem_cons_of_mem _ he'))
    obtain ⟨r1, r2⟩ := hes e List.mem_cons_self
    refine ⟨List.pairwise_cons.mpr ⟨fun a1 ha1 hne hov => ?_, hI.ord⟩, fun a ha => ?_, fun a ha b b1 b2 b3 => ?_,
      fun a ha t γt y ht hγt hy b b1 b2 b3 b4 => ?_⟩
    · obtain ⟨b, b1, b2, b3, b4⟩ := hov
      dsimp only at hne b3 b4 ⊢
      exact hI.held a1 ha1 tid γ x (Ne.symm hne) hγ hx b b1 b2 (by omega) (by omega)
    · rcases List.mem_cons.mp ha with rfl | ha
      · exact hbPlain_clk_mono h tid tid tid
      · exact Nat.le_trans (hI.own a ha) (hbPlain_clk_mono h tid _ _)
    · rcases List.mem_cons.mp ha with rfl | ha
      · dsimp only at b1 b2; omega
      · exact hI.above a ha b b1 b2 b3
    · rcases List.mem_cons.mp ha with rfl | ha
      · dsimp only at b1 b2 ht
        have := cross_disj hpw hγ hγt ht hx hy
        simp only [disj] at this
        omega
      · exact Nat.le_trans (hI.held a ha t γt y ht hγt hy b b1 b2 b3 b4) (hbPlain_clk_mono h tid _ _)

theorem eff_own {cap a d a' d' : Nat} {γ γ' : Gh} (h : Eff cap a d a' d' γ γ') :
    ∀ x ∈ γ'.own, x ∈ γ.own ∨ (x = (a, a') ∧ a < a') := by
  intro x hx
  rcases h with ⟨-, -, rfl⟩ | ⟨ha1, -, -, rfl⟩ | ⟨lo, hi, own', hpm, -, -, ⟨-, -, rfl⟩ | ⟨-, rfl⟩⟩ | ⟨y, -, -, -, rfl⟩
  · exact .inl hx
  · rcases List.mem_append.mp hx with hx | hx
    · exact .inl hx
    · exact .inr ⟨List.mem_singleton.mp hx, ha1⟩
  · exact .inl (hpm.mem_iff.mpr (List.mem_cons_of_mem _ hx))
  · exact .inl (hpm.mem_iff.mpr (List.mem_cons_of_mem _ hx))
  · exact .inl hx

theorem eff_down {cap a d a' d' : Nat} {γ γ' : Gh} (h : Eff cap a d a' d' γ γ') (hlt : a' < a) : (a', a) ∈ γ.own := by
  rcases h with ⟨h1, -, -⟩ | ⟨ha1, -, -, -⟩ | ⟨lo, hi, own', hpm, -, -, ⟨h1, h2, -⟩ | ⟨h1, -⟩⟩ | ⟨y, -, h1, -, -⟩
  · omega
  · omega
  · subst h1 h2; exact hpm.mem_iff.mpr List.mem_cons_self
  · omega
  · omega

/-! ### 6. one step of the machine, with the effect on the ghost state exposed -/

theorem tnas2_fst {α : Type} (sh : Shared) (p : Prog α) (sp : Bool) :
    (tnas2 sh p sp).1 = (settle 100000 sh p []).2.2 := by
  unfold tnas2
  rcases settle 100000 sh p [] with ⟨sh1, s, n1⟩
  rcases s with a | fl | p1 <;> dsimp only
  rcases stepAccess sh1 p1 sp with e | ⟨sh2, p2, e⟩ <;> rfl

/-- a thread at a scheduling point has no pending non-atomic effects -/
theorem tnas2_fst_nil {α : Type} {cap : Nat} {post : Gh → Option Ext → α → Prop} {γ : Gh} (sh : Shared) {p : Prog α}
    (sp : Bool) (h : Holds cap post γ none p) : (tnas2 sh p sp).1 = [] := by
  rw [tnas2_fst]
  obtain ⟨-, -, -, new, hn, hin⟩ := settle_holds 100000 sh p [] γ none h
  rw [hn, List.nil_append]
  rcases new with _ | ⟨e, rest⟩
  · rfl
  · have := hin e List.mem_cons_self
    cases e with
    | zero off len => obtain ⟨x, hx, _⟩ := this; cases hx
    | fill off len b => exact this.elim
    | verify off len => exact this.elim
    | unmount => exact this.elim

/-- `NInv.step` of `Proofs/ConcNone.lean` with the ghost state of the stepping thread and its effect `Eff` exposed -/
theorem ninv_step_eff {cap init d0 : Nat} {g : Global (List Meta)} {ghs : List Gh} (h : NInv cap init d0 g ghs)
    (tid : Nat) (sp : Bool) {p : Prog (List Meta)} (hp : g.threads[tid]? = some p) :
    ∃ γ γ', ghs[tid]? = some γ ∧ NInv cap init d0 (g.step tid sp).1 (ghs.set tid γ') ∧
      Eff cap g.sh.st.allocated g.sh.st.discarded (g.step tid sp).1.sh.st.allocated (g.step tid sp).1.sh.st.discarded γ γ' ∧
      (tnas2 g.sh p sp).1 = [] ∧
      ∀ e ∈ tnas g.sh p sp, ∃ off len, e = .zero off len ∧ g.sh.st.allocated ≤ off ∧
        off + len ≤ (g.step tid sp).1.sh.st.allocated ∧
        (g.sh.st.allocated, (g.step tid sp).1.sh.st.allocated) ∈ γ'.own := by
  rw [step_some g tid sp p hp]
  obtain ⟨γ, hγ, hR⟩ := h.typed.get hp
  obtain ⟨γ', hh, heff, hna, hcap⟩ := tstep_holds (sh := g.sh) (fun _ _ _ h => h) sp hR
  refine ⟨γ, γ', hγ, ?_, heff, tnas2_fst_nil g.sh sp hR, fun e he => by
    obtain ⟨off, len, h1, h2, h3, -, h5⟩ := hna e he
    exact ⟨off, len, h1, h2, h3, h5⟩⟩
  obtain ⟨others, hperm, hperm', -⟩ := owns_set ghs tid γ hγ
  have pw0 : (γ.own ++ others).Pairwise disj := (hperm.pairwise_iff disj_symm).mp h.pw
  have inb0 : ∀ x ∈ γ.own ++ others, init ≤ x.1 ∧ x.1 < x.2 ∧ x.2 ≤ g.sh.st.allocated :=
    fun x hx => h.inb x (hperm.mem_iff.mpr hx)
  have hP := sum_set Gh.pendSize ghs tid γ hγ γ'
  have hL := sum_set Gh.lostSum ghs tid γ hγ γ'
  have hacct := h.acct
  have hlo := h.lo
  have hhi := h.hi
  simp only [pendTotal, lostTotal] at hacct
  suffices hsuff : init ≤ (tstep g.sh p sp).1.st.allocated ∧ (tstep g.sh p sp).1.st.allocated ≤ cap ∧
      (γ'.own ++ others).Pairwise disj ∧
      (∀ x ∈ γ'.own ++ others, init ≤ x.1 ∧ x.1 < x.2 ∧ x.2 ≤ (tstep g.sh p sp).1.st.allocated) ∧
      ((tstep g.sh p sp).1.st.discarded + ((ghs.set tid γ').map Gh.pendSize).sum) % TWO32 =
        (d0 + ((ghs.set tid γ').map Gh.lostSum).sum) % TWO32 by
    obtain ⟨s1, s2, s3, s4, s5⟩ := hsuff
    exact ⟨h.typed.set hh tid, s1, s2, ((hperm' γ').pairwise_iff disj_symm).mpr s3,
      fun x hx => s4 x ((hperm' γ').mem_iff.mp hx), s5, hcap.trans h.capEq⟩
  generalize (tstep g.sh p sp).1.st.allocated = a' at heff ⊢
  generalize (tstep g.sh p sp).1.st.discarded = d' at heff ⊢
  simp only [TWO32] at hacct ⊢
  rcases heff with ⟨ha, hd, rfl⟩ | ⟨ha1, ha2, hd, rfl⟩ |
    ⟨lo, hi, own', hpm, hpn, hd, ⟨ha1, ha2, rfl⟩ | ⟨ha, rfl⟩⟩ | ⟨x, hpx, ha, hd, rfl⟩
  · subst ha hd
    exact ⟨hlo, hhi, pw0, inb0, by omega⟩
  · subst hd
    have hp2 : ((γ.own ++ [(g.sh.st.allocated, a')]) ++ others).Perm ((g.sh.st.allocated, a') :: (γ.own ++ others)) := by
      rw [List.append_assoc]
      exact List.perm_middle
    refine ⟨by omega, ha2, (hp2.pairwise_iff disj_symm).mpr ?_, fun x hx => ?_, ?_⟩
    · refine List.pairwise_cons.mpr ⟨fun y hy => ?_, pw0⟩
      exact .inr (inb0 y hy).2.2
    · have hx' := hp2.mem_iff.mp hx
      simp only [List.mem_cons] at hx'
      rcases hx' with rfl | hx'
      · exact ⟨hlo, ha1, Nat.le_refl _⟩
      · obtain ⟨b1, b2, b3⟩ := inb0 x hx'
        exact ⟨b1, b2, by omega⟩
    · have e1 : Gh.pendSize { γ with own := γ.own ++ [(g.sh.st.allocated, a')] } = γ.pendSize := rfl
      have e2 : Gh.lostSum { γ with own := γ.own ++ [(g.sh.st.allocated, a')] } = γ.lostSum := rfl
      rw [e1] at hP; rw [e2] at hL
      omega
  · subst hd
    have hp2 : (γ.own ++ others).Perm ((lo, hi) :: (own' ++ others)) := hpm.append_right others
    have pw1 := List.pairwise_cons.mp ((hp2.pairwise_iff disj_symm).mp pw0)
    have inb1 : ∀ x ∈ (lo, hi) :: (own' ++ others), init ≤ x.1 ∧ x.1 < x.2 ∧ x.2 ≤ g.sh.st.allocated :=
      fun x hx => inb0 x (hp2.mem_iff.mpr hx)
    have hlh := inb1 (lo, hi) List.mem_cons_self
    dsimp only at hlh
    refine ⟨by omega, by omega, pw1.2, fun x hx => ?_, ?_⟩
    · obtain ⟨b1, b2, b3⟩ := inb1 x (List.mem_cons_of_mem _ hx)
      have hd := pw1.1 x hx
      simp only [disj] at hd
      exact ⟨b1, b2, by omega⟩
    · have e1 : Gh.pendSize { γ with own := own' } = γ.pendSize := rfl
      have e2 : Gh.lostSum { γ with own := own' } = γ.lostSum := rfl
      rw [e1] at hP; rw [e2] at hL
      omega
  · subst hd ha
    have hp2 : (γ.own ++ others).Perm ((lo, hi) :: (own' ++ others)) := hpm.append_right others
    have pw1 := List.pairwise_cons.mp ((hp2.pairwise_iff disj_symm).mp pw0)
    refine ⟨hlo, hhi, pw1.2, fun x hx => inb0 x (hp2.mem_iff.mpr (List.mem_cons_of_mem _ hx)), ?_⟩
    have e1 : Gh.pendSize { own := own', lost := γ.lost ++ [(lo, hi)], pend := some (lo, hi) } = esize (lo, hi) := rfl
    have e2 := lostSum_append γ (lo, hi) own' (some (lo, hi))
    have e3 : γ.pendSize = 0 := by simp only [Gh.pendSize, hpn]
    rw [e1] at hP; rw [e2] at hL
    omega
  · simp only [TWO32] at hd
    subst ha hd
    refine ⟨hlo, hhi, pw0, inb0, ?_⟩
    have e1 : Gh.pendSize { γ with pend := none } = 0 := rfl
    have e2 : Gh.lostSum { γ with pend := none } = γ.lostSum := rfl
    have e3 : γ.pendSize = esize x := by simp only [Gh.pendSize, hpx]
    rw [e1] at hP; rw [e2] at hL
    omega

/-! ### 7. the invariant of the instrumented run -/

structure HInv (tbl : Site → List Gen.Ord) (cap init d0 : Nat) (s : IState (List Meta)) (ghs : List Gh) : Prop where
  ninv : NInv cap init d0 s.g ghs
  sited : ∀ p ∈ s.g.threads, Sited tbl p
  linv : LInv s.g.sh.st.allocated ghs s.h s.log

theorem istepT_none {α : Type} (tbl : Site → List Gen.Ord) (s : IState α) (tid : Nat) (sp : Bool)
    (hp : s.g.threads[tid]? = none) : istepT tbl s tid sp = s := by
  have h1 : stepNAs2 s.g tid sp = ([], []) := by unfold stepNAs2; simp only [hp]
  have h2 : s.g.step tid sp = (s.g, none) := by unfold Global.step; simp only [hp]
  unfold istepT
  simp only [h1, h2, logNAs]

theorem istepT_some {α : Type} (tbl : Site → List Gen.Ord) (s : IState α) (tid : Nat) (sp : Bool) (p : Prog α)
    (hp : s.g.threads[tid]? = some p) (hpre : (tnas2 s.g.sh p sp).1 = []) :
    istepT tbl s tid sp =
      ⟨(s.g.step tid sp).1,
       (logNAs s.g.sh.st.cap tid (match tev s.g.sh p sp with | some e => hbAtomicT tbl s.h tid e | none => s.h) s.log
          (tnas s.g.sh p sp)).1,
       (logNAs s.g.sh.st.cap tid (match tev s.g.sh p sp with | some e => hbAtomicT tbl s.h tid e | none => s.h) s.log
          (tnas s.g.sh p sp)).2⟩ := by
  have h1 : stepNAs2 s.g tid sp = tnas2 s.g.sh p sp := by unfold stepNAs2; simp only [hp]
  have h2 : (tnas2 s.g.sh p sp).2 = tnas s.g.sh p sp := by
    rw [← tnas2_append, hpre, List.nil_append]
  unfold istepT
  simp only [h1, hpre, h2, logNAs, step_ev_some s.g tid sp p hp]

theorem HInv.step {tbl : Site → List Gen.Ord} {cap init d0 : Nat} {s : IState (List Meta)} {ghs : List Gh}
    (h : HInv tbl cap init d0 s ghs) (tid : Nat) (sp : Bool) :
    ∃ ghs', HInv tbl cap init d0 (istepT tbl s tid sp) ghs' := by
  rcases hp : s.g.threads[tid]? with _ | p
  · rw [istepT_none tbl s tid sp hp]
    exact ⟨ghs, h⟩
  · obtain ⟨γ, γ', hγ, hN', heff, hpre, hna⟩ := ninv_step_eff h.ninv tid sp hp
    have hsp : Sited tbl p := h.sited p (List.mem_of_getElem? hp)
    obtain ⟨hs', hnost, hcurEv⟩ := tstep_sited (sh := s.g.sh) sp hsp
    have hg' := step_some s.g tid sp p hp
    have hcur' : (s.g.step tid sp).1.sh.st.allocated = (tstep s.g.sh p sp).1.st.allocated := by rw [hg']
    rw [istepT_some tbl s tid sp p hp hpre]
    have hlt : tid < ghs.length := by
      rcases Nat.lt_or_ge tid ghs.length with h' | h'
      · exact h'
      · rw [List.getElem?_eq_none h'] at hγ; cases hγ
    -- the atomic part
    have hmid : LInv (s.g.step tid sp).1.sh.st.allocated (ghs.set tid γ')
        (match tev s.g.sh p sp with | some e => hbAtomicT tbl s.h tid e | none => s.h) s.log := by
      refine h.linv.atomic hγ (fun u => ?_) ?_ (eff_own heff) (eff_down heff) (fun hne => ?_)
      · rcases tev s.g.sh p sp with _ | e
        · exact VC.Le.refl _
        · exact hbAtomicT_clk_mono tbl _ _ _ _
      · rcases he : tev s.g.sh p sp with _ | e
        · exact VC.Le.refl _
        · exact hbAtomicT_rel_mono tbl _ _ _ (hnost e he) _
      · rw [hcur'] at hne
        obtain ⟨e, he, hce⟩ := hcurEv hne
        rw [he]
        exact hbAtomicT_cursor tbl _ _ _ hce
    refine ⟨ghs.set tid γ', hN', fun q hq => ?_, ?_⟩
    · rw [hg'] at hq
      rcases List.mem_or_eq_of_mem_set hq with hq | rfl
      · exact h.sited q hq
      · exact hs'
    · dsimp only
      rcases hes : tnas s.g.sh p sp with _ | ⟨e0, rest⟩
      · exact hmid
      · obtain ⟨-, -, -, -, -, hx0⟩ := hna e0 (by rw [hes]; exact List.mem_cons_self)
        refine LInv.logNAs hN'.pw (List.getElem?_set_self hlt) hx0 (Nat.le_refl _) _ _ _ hmid (fun e he => ?_)
        obtain ⟨off, len, rfl, h1, h2, -⟩ := hna e (by rw [hes]; exact he)
        exact ⟨h1, h2⟩

theorem HInv.run {tbl : Site → List Gen.Ord} {cap init d0 : Nat} :
    ∀ (sched : List (Nat × Bool)) {s : IState (List Meta)} {ghs : List Gh},
      HInv tbl cap init d0 s ghs → ∃ ghs', HInv tbl cap init d0 (irunT tbl s sched) ghs'
  | [], _, ghs, h => ⟨ghs, h⟩
  | (tid, sp) :: rest, s, ghs, h => by
    obtain ⟨ghs1, h1⟩ := h.step tid sp
    exact HInv.run rest h1

/-! ### 8. the theorems -/

/-- the initial instrumented state: the threads of `Proofs/ConcNone.lean`, arbitrary clocks, empty log -/
def istate0 (c : Cfg) (sh : Shared) (fuel : Nat) (progs : List (List NOp)) (h0 : HBS) : IState (List Meta) :=
  ⟨{ sh := sh, threads := progs.map (fun ops => noneProg c sh.st.cap fuel ops []) }, h0, []⟩

theorem hinv_init (tbl : Site → List Gen.Ord) (hs : CursorSites tbl) (c : Cfg) (hk : c.kind = .none) (hro : c.ro = false)
    (sh : Shared) (fuel : Nat) (hhi : sh.st.allocated ≤ sh.st.cap)
    (progs : List (List NOp)) (hok : ∀ ops ∈ progs, ∀ op ∈ ops, op.ok) (h0 : HBS) :
    HInv tbl sh.st.cap sh.st.allocated sh.st.discarded (istate0 c sh fuel progs h0) (progs.map (fun _ => gh0)) := by
  obtain ⟨h1, h2, h3, h4⟩ := init_typed sh.st.cap c hk hro fuel progs hok
  refine ⟨⟨h1, Nat.le_refl _, hhi, by rw [h2]; exact .nil, by rw [h2]; intro x hx; (cases hx), by rw [h3, h4]; rfl, rfl⟩,
    fun p hp => ?_, ⟨.nil, fun a ha => (by cases ha), fun a ha => (by cases ha), fun a ha => (by cases ha)⟩⟩
  simp only [istate0, List.mem_map] at hp
  obtain ⟨ops, -, rfl⟩ := hp
  exact sited_noneProg tbl hs c hk sh.st.cap fuel ops []

/-- the hand-over theorem for any table of orderings in which the three allocation CASes and the release CAS on
    the cursor acquire and release on success (`CursorSites`) -/
theorem none_handover_hb_tbl (tbl : Site → List Gen.Ord) (hs : CursorSites tbl) (c : Cfg) (hk : c.kind = .none)
    (hro : c.ro = false) (sh : Shared) (fuel : Nat) (hhi : sh.st.allocated ≤ sh.st.cap)
    (progs : List (List NOp)) (hok : ∀ ops ∈ progs, ∀ op ∈ ops, op.ok) (sched : List (Nat × Bool)) (h0 : HBS) :
    (irunT tbl (istate0 c sh fuel progs h0) sched).log.Pairwise Ordered := by
  obtain ⟨ghs, h⟩ := (hinv_init tbl hs c hk hro sh fuel hhi progs hok h0).run sched
  exact h.linv.ord

/-- (C12 for `Freelist::None`) In EVERY run — any number of threads, any programs of allocations (`alloc_bytes`,
    `alloc_aligned_bytes`, typed `alloc`) and releases of own handles, any schedule including spurious failures of the
    weak CAS, any initial clocks — with the memory orderings of the Rust source (`Site.ords`, regenerated table):
    the log of ALL non-atomic accesses of the run (every `NA` event of every step of the machine, i.e. the arena's
    zero-fills; newest first) is pairwise ordered by happens-before: for an earlier access `a1` of thread `u` and a
    later access `a2` of another thread that have a byte in common, the epoch of `a1` (`u`'s own component when it
    made the access) is `≤` the `u`-component of the clock `a2` was made at. -/
theorem none_handover_hb (c : Cfg) (hk : c.kind = .none) (hro : c.ro = false) (sh : Shared) (fuel : Nat)
    (hhi : sh.st.allocated ≤ sh.st.cap)
    (progs : List (List NOp)) (hok : ∀ ops ∈ progs, ∀ op ∈ ops, op.ok) (sched : List (Nat × Bool)) (h0 : HBS) :
    (irun (istate0 c sh fuel progs h0) sched).log.Pairwise
      (fun a2 a1 => a1.tid ≠ a2.tid → (∃ b, a1.lo ≤ b ∧ b < a1.hi ∧ a2.lo ≤ b ∧ b < a2.hi) →
        a1.vc.get a1.tid ≤ a2.vc.get a1.tid) :=
  none_handover_hb_tbl Site.ords cursorSites_source c hk hro sh fuel hhi progs hok sched h0

/-- the same in chronological order and by positions: the `i`-th and the `j`-th non-atomic access of the run, `i < j` -/
theorem none_handover_hb_chrono (c : Cfg) (hk : c.kind = .none) (hro : c.ro = false) (sh : Shared) (fuel : Nat)
    (hhi : sh.st.allocated ≤ sh.st.cap)
    (progs : List (List NOp)) (hok : ∀ ops ∈ progs, ∀ op ∈ ops, op.ok) (sched : List (Nat × Bool)) (h0 : HBS)
    (i j : Nat) (a1 a2 : NAcc) (hij : i < j)
    (h1 : (irun (istate0 c sh fuel progs h0) sched).log.reverse[i]? = some a1)
    (h2 : (irun (istate0 c sh fuel progs h0) sched).log.reverse[j]? = some a2)
    (hne : a1.tid ≠ a2.tid) (b : Nat) (hb1 : a1.lo ≤ b ∧ b < a1.hi) (hb2 : a2.lo ≤ b ∧ b < a2.hi) :
    a1.vc.get a1.tid ≤ a2.vc.get a1.tid := by
  have h := none_handover_hb c hk hro sh fuel hhi progs hok sched h0
  rw [← List.pairwise_reverse] at h
  obtain ⟨hi, rfl⟩ := List.getElem?_eq_some_iff.mp h1
  obtain ⟨hj, rfl⟩ := List.getElem?_eq_some_iff.mp h2
  exact (List.pairwise_iff_getElem.mp h) i j hi hj hij hne ⟨b, hb1.1, hb1.2, hb2.1, hb2.2⟩

/-- consequently the race check of `Model/HB.lean` accepts: `HB.step` reports a `.plain` access of thread `t` at clock
    `c` to a byte whose last non-atomic write has the epoch `w = some (u, k)` iff `epochLe w c t = false`; for any
    two accesses of the log with a common byte the check of the later one against the epoch of the earlier one passes -/
theorem none_handover_no_race (c : Cfg) (hk : c.kind = .none) (hro : c.ro = false) (sh : Shared) (fuel : Nat)
    (hhi : sh.st.allocated ≤ sh.st.cap)
    (progs : List (List NOp)) (hok : ∀ ops ∈ progs, ∀ op ∈ ops, op.ok) (sched : List (Nat × Bool)) (h0 : HBS)
    (i j : Nat) (a1 a2 : NAcc) (hij : i < j)
    (h1 : (irun (istate0 c sh fuel progs h0) sched).log.reverse[i]? = some a1)
    (h2 : (irun (istate0 c sh fuel progs h0) sched).log.reverse[j]? = some a2)
    (b : Nat) (hb1 : a1.lo ≤ b ∧ b < a1.hi) (hb2 : a2.lo ≤ b ∧ b < a2.hi) :
    HB.epochLe (some (a1.tid, a1.epoch)) a2.vc a2.tid = true := by
  simp only [HB.epochLe, Bool.or_eq_true, beq_iff_eq, decide_eq_true_eq]
  by_cases hne : a1.tid = a2.tid
  · exact .inl hne
  · exact .inr (none_handover_hb_chrono c hk hro sh fuel hhi progs hok sched h0 i j a1 a2 hij h1 h2 hne b hb1 hb2)

/-- what a client may rely on: in every reachable state, every logged access of another thread to a byte of an
    extent that thread `t` holds (`ghs`: the ghost extents of `Proofs/ConcNone.lean`, reserved and not yet released)
    is known to the current clock of `t` — so whatever `t` does to the bytes of its live handles is ordered after it -/
theorem none_holder_knows (c : Cfg) (hk : c.kind = .none) (hro : c.ro = false) (sh : Shared) (fuel : Nat)
    (hhi : sh.st.allocated ≤ sh.st.cap)
    (progs : List (List NOp)) (hok : ∀ ops ∈ progs, ∀ op ∈ ops, op.ok) (sched : List (Nat × Bool)) (h0 : HBS) :
    ∃ ghs : List Gh, All2 (Held sh.st.cap) ghs (irun (istate0 c sh fuel progs h0) sched).g.threads ∧
      ∀ a ∈ (irun (istate0 c sh fuel progs h0) sched).log, ∀ t γ x, t ≠ a.tid → ghs[t]? = some γ → x ∈ γ.own →
        ∀ b, a.lo ≤ b → b < a.hi → x.1 ≤ b → b < x.2 →
          a.vc.get a.tid ≤ ((irun (istate0 c sh fuel progs h0) sched).h.clk t).get a.tid := by
  obtain ⟨ghs, h⟩ := (hinv_init Site.ords cursorSites_source c hk hro sh fuel hhi progs hok h0).run sched
  exact ⟨ghs, h.ninv.typed, h.linv.held⟩

/-! ### 9. the race check of `Model/HB.lean` on the trace of the run -/

theorem forIn_range'_inv {β : Type} (f : Nat → β → Id (ForInStep β)) (Q : Nat → β → Prop) :
    ∀ (n lo : Nat) (init : β), Q lo init →
      (∀ b x, lo ≤ b → b < lo + n → Q b x → ∃ y, f b x = ForInStep.yield y ∧ Q (b + 1) y) →
      Q (lo + n) (forIn (m := Id) (List.range' lo n 1) init f)
  | 0, lo, init, h0, _ => h0
  | n + 1, lo, init, h0, hf => by
    obtain ⟨y, hy, hq⟩ := hf lo init (Nat.le_refl _) (by omega) h0
    rw [List.range'_succ, List.forIn_cons, hy]
    have := forIn_range'_inv f Q n (lo + 1) y hq (fun b x h1 h2 hx => hf b x (by omega) (by omega) hx)
    rw [show lo + (n + 1) = lo + 1 + n by omega]
    exact this

/-- the state after the loop of a race-free plain write -/
def PlainQ (s : HB.State) (t lo : Nat) (b : Nat) (x : HB.State × Bool) : Prop :=
  x.2 = false ∧ x.1.clocks = s.clocks ∧ x.1.rel = s.rel ∧ x.1.races = s.races ∧ x.1.bytes.size = s.bytes.size ∧
  ∀ b', x.1.bytes.getD b' {} =
    if lo ≤ b' ∧ b' < b ∧ b' < s.bytes.size then { w := some (t, HB.VC.get (s.clock t) t), r := #[], a := (s.bytes.getD b' {}).a }
    else s.bytes.getD b' {}

theorem step_plain_write (s : HB.State) (t : Nat) (lo hi : Nat) (what : String) 
   (hok : ∀ b, lo ≤ b → b < hi → HB.epochLe (s.bytes.getD b {}).w (s.clock t) t = true ∧ 
        HB.othersLe (s.bytes.getD b {}).r (s.clock t) t = true ∧ HB.othersLe (s.bytes.getD b {}).a (s.clock t) t = true) :
    (HB.step s (.plain t true lo hi what)).clocks = (s.setClock t ((s.clock t).bump t)).clocks ∧
    (HB.step s (.plain t true lo hi what)).rel = s.rel ∧
    (HB.step s (.plain t true lo hi what)).races = s.races ∧
    ∀ b', (HB.step s (.plain t true lo hi what)).bytes.getD b' {} =
      if lo ≤ b' ∧ b' < hi ∧ b' < s.bytes.size then { w := some (t, HB.VC.get (s.clock t) t), r := #[], a := (s.bytes.getD b' {}).a }
      else s.bytes.getD b' {} := by
    unfold HB.step
    simp only [Std.Legacy.Range.forIn_eq_forIn_range', Id.run, Std.Legacy.Range.size, Nat.add_sub_cancel, Nat.div_one]
    generalize hf : (fun (b : Nat) (r : HB.State × Bool) => (_ : Id (ForInStep (HB.State × Bool)))) = f
    have key := forIn_range'_inv f (PlainQ s t lo) (hi - lo) lo (s, false)
      ⟨rfl, rfl, rfl, rfl, rfl, fun b' => by rw [if_neg (by omega)]⟩ (by
      intro b x h1 h2 hQ
      obtain ⟨x1, x2⟩ := x
      obtain ⟨hx2, hQ⟩ := hQ
      dsimp only at hx2
      subst hx2
      have hb : x1.bytes.getD b {} = s.bytes.getD b {} := by
        rw [hQ.2.2.2.2 b, if_neg (by omega)]
      obtain ⟨hE, hR, hA⟩ := hok b h1 (by omega)
      subst hf
      simp only [hb, hE, hR, hA, Bool.not_true, Bool.and_false, Bool.false_eq_true, if_false, Bool.not_false, Bool.and_self, if_true]
      refine ⟨_, rfl, rfl, hQ.1, hQ.2.1, hQ.2.2.1, ?_, fun b' => ?_⟩
      · simp only [Array.size_setIfInBounds]; exact hQ.2.2.2.1
      · dsimp only
        by_cases hbb : b' = b
        · subst hbb
          by_cases hsz : b' < s.bytes.size
          · rw [if_pos ⟨h1, by omega, hsz⟩]
            simp only [Array.getD_eq_getD_getElem?, Array.getElem?_setIfInBounds, if_true, hQ.2.2.2.1, hsz, Option.getD_some]
          · rw [if_neg (by omega)]
            have := hQ.2.2.2.2 b'
            rw [if_neg (by omega)] at this
            rw [← this]
            simp only [Array.getD_eq_getD_getElem?, Array.getElem?_setIfInBounds, if_true, hQ.2.2.2.1, hsz, if_false]
            have hsz' : x1.bytes.size = s.bytes.size := hQ.2.2.2.1
            rw [Array.getElem?_eq_none (by omega)]
        · have := hQ.2.2.2.2 b'
          have e : (lo ≤ b' ∧ b' < b + 1 ∧ b' < s.bytes.size) ↔ (lo ≤ b' ∧ b' < b ∧ b' < s.bytes.size) := by omega
          simp only [e]
          rw [← this]
          simp only [Array.getD_eq_getD_getElem?, Array.getElem?_setIfInBounds, if_neg (Ne.symm hbb)])
    clear hf hok
    generalize forIn (m := Id) (List.range' lo (hi - lo)) (s, false) f = r at key ⊢
    obtain ⟨r1, r2⟩ := r
    obtain ⟨-, k1, k2, k3, k4, k5⟩ := key
    dsimp only at k1 k2 k3 k4 k5
    refine ⟨?_, k2, k3, fun b' => ?_⟩
    · show (r1.setClock t _).clocks = _
      simp only [HB.State.setClock, k1]
    · have e : (lo ≤ b' ∧ b' < lo + (hi - lo) ∧ b' < s.bytes.size) ↔ (lo ≤ b' ∧ b' < hi ∧ b' < s.bytes.size) := by omega
      have k5' := k5 b'
      simp only [e] at k5'
      rw [← k5']
      rfl

/-- a non-atomic effect as an access of the `HB` machine; every effect is checked as a WRITE (the strictest check:
    a write conflicts with earlier writes, reads and atomic accesses to the byte) -/
def plainOf (cap t : Nat) (e : NA) : HB.Acc := .plain t true (naRange cap e).1 (naRange cap e).2 "non-atomic"

/-- an event of the machine as an access of the `HB` machine -/
def atomicOf (tbl : Site → List Gen.Ord) (t : Nat) (e : Event) : HB.Acc :=
  .atomic t (evKind tbl e).1 (locKey e.loc) none (evKind tbl e).2

/-- the accesses of one step of the machine, in the order in which the machine performs them -/
def stepTrace {α : Type} (tbl : Site → List Gen.Ord) (g : Global α) (tid : Nat) (sp : Bool) : List HB.Acc :=
  (stepNAs2 g tid sp).1.map (plainOf g.sh.st.cap tid) ++
  ((match (g.step tid sp).2 with | some e => [atomicOf tbl tid e] | none => []) ++
   (stepNAs2 g tid sp).2.map (plainOf g.sh.st.cap tid))

/-- the trace of a run as input of `HB.check` -/
def runTrace {α : Type} (tbl : Site → List Gen.Ord) : Global α → List (Nat × Bool) → List HB.Acc
  | _, [] => []
  | g, (tid, sp) :: rest => stepTrace tbl g tid sp ++ runTrace tbl (g.step tid sp).1 rest

/-- the state `hs` of the `HB` machine simulates the clocks `h` and the log: same clocks, no race reported, and the
    last non-atomic write recorded for a byte is the epoch of a logged access to that byte -/
structure Sim (hs : HB.State) (h : HBS) (log : List NAcc) : Prop where
  clocks : absS hs = h
  races : hs.races = []
  bytes : ∀ b, (hs.bytes.getD b {}).r = #[] ∧ (hs.bytes.getD b {}).a = #[] ∧
    ∀ u k, (hs.bytes.getD b {}).w = some (u, k) → ∃ a ∈ log, a.tid = u ∧ a.epoch = k ∧ a.lo ≤ b ∧ b < a.hi

theorem step_atomic_frame (s : HB.State) (t loc : Nat) (k : AccKind) (ord : Gen.Ord) :
    (HB.step s (.atomic t k loc none ord)).bytes = s.bytes ∧ (HB.step s (.atomic t k loc none ord)).races = s.races := by
  rw [HB.step_atomic_none]
  have : (HB.relState s t loc k ord).bytes = s.bytes ∧ (HB.relState s t loc k ord).races = s.races := by
    unfold HB.relState; split
    · split <;> exact ⟨rfl, rfl⟩
    · split <;> exact ⟨rfl, rfl⟩
    · exact ⟨rfl, rfl⟩
  exact this

theorem Sim.atomic {hs : HB.State} {h : HBS} {log : List NAcc} (hS : Sim hs h log) (tbl : Site → List Gen.Ord)
    (t : Nat) (e : Event) : Sim (HB.step hs (atomicOf tbl t e)) (hbAtomicT tbl h t e) log := by
  obtain ⟨f1, f2⟩ := step_atomic_frame hs t (locKey e.loc) (evKind tbl e).1 (evKind tbl e).2
  refine ⟨?_, ?_, ?_⟩
  · rw [← hS.clocks]; exact hbAtomic_agrees tbl hs t e
  · unfold atomicOf; rw [f2]; exact hS.races
  · unfold atomicOf; rw [f1]; exact hS.bytes

theorem othersLe_empty (c : VC) (t : Nat) : HB.othersLe #[] c t = true := rfl

theorem absS_plain {hs hs' : HB.State} {t : Nat}
    (h1 : hs'.clocks = (hs.setClock t ((hs.clock t).bump t)).clocks) (h2 : hs'.rel = hs.rel) :
    absS hs' = hbPlain (absS hs) t := by
  simp only [absS, hbPlain, HBS.mk.injEq]
  constructor
  · funext u
    have : hs'.clock u = (hs.setClock t ((hs.clock t).bump t)).clock u := by
      simp only [HB.State.clock, h1]
    rw [this]
    by_cases hu : u = t
    · subst hu; simp only [HB.State.clock_setClock, updN, if_true]
    · simp only [HB.State.clock_setClock_ne _ _ _ _ hu, updN, if_neg hu]
  · funext l
    simp only [HB.State.relOf, h2]

/-- a non-atomic access that is ordered after all logged accesses passes the check of `HB.step` -/
theorem Sim.plain {hs : HB.State} {h : HBS} {log : List NAcc} (hS : Sim hs h log) (t lo hi : Nat) (what : String)
    (hord : ∀ a ∈ log, Ordered ⟨t, lo, hi, h.clk t⟩ a) :
    Sim (HB.step hs (.plain t true lo hi what)) (hbPlain h t) (⟨t, lo, hi, h.clk t⟩ :: log) := by
  have hc : hs.clock t = h.clk t := by rw [← hS.clocks]; rfl
  obtain ⟨g1, g2, g3, g4⟩ := step_plain_write hs t lo hi what (fun b b1 b2 => by
    obtain ⟨r1, r2, r3⟩ := hS.bytes b
    rw [r1, r2]
    refine ⟨?_, othersLe_empty _ _, othersLe_empty _ _⟩
    rcases hw : (hs.bytes.getD b {}).w with _ | ⟨u, k⟩
    · rfl
    · obtain ⟨a, ha, rfl, rfl, a1, a2⟩ := r3 u k hw
      simp only [HB.epochLe, Bool.or_eq_true, beq_iff_eq, decide_eq_true_eq]
      by_cases hne : a.tid = t
      · exact .inl hne
      · rw [hc]
        exact .inr (hord a ha hne ⟨b, a1, a2, b1, b2⟩))
  refine ⟨?_, ?_, fun b => ?_⟩
  · rw [absS_plain g1 g2, hS.clocks]
  · rw [g3]; exact hS.races
  · rw [g4 b]
    obtain ⟨r1, r2, r3⟩ := hS.bytes b
    split
    · rename_i hb
      refine ⟨rfl, r2, fun u k hw => ?_⟩
      simp only [Option.some.injEq, Prod.mk.injEq] at hw
      obtain ⟨rfl, rfl⟩ := hw
      exact ⟨_, List.mem_cons_self, rfl, by rw [hc]; rfl, hb.1, hb.2.1⟩
    · refine ⟨r1, r2, fun u k hw => ?_⟩
      obtain ⟨a, ha, q⟩ := r3 u k hw
      exact ⟨a, List.mem_cons_of_mem _ ha, q⟩

theorem logNAs_suffix (cap t : Nat) : ∀ (es : List NA) (h : HBS) (log : List NAcc),
    log <:+ (logNAs cap t h log es).2
  | [], _, log => List.suffix_refl log
  | e :: es, h, log => by
    simp only [logNAs]
    exact (List.suffix_cons _ log).trans (logNAs_suffix cap t es _ _)

theorem Sim.logNAs {cap t : Nat} : ∀ (es : List NA) (hs : HB.State) (h : HBS) (log : List NAcc), Sim hs h log →
    (logNAs cap t h log es).2.Pairwise Ordered →
    Sim ((es.map (plainOf cap t)).foldl HB.step hs) (logNAs cap t h log es).1 (logNAs cap t h log es).2
  | [], _, _, _, hS, _ => hS
  | e :: es, hs, h, log, hS, hpw => by
    simp only [NoneHB.logNAs, List.map_cons, List.foldl_cons] at hpw ⊢
    refine Sim.logNAs es _ _ _ ?_ hpw
    have h1 := hpw.sublist (logNAs_suffix cap t es (hbPlain h t) _).sublist
    exact hS.plain t _ _ _ (List.pairwise_cons.mp h1).1

/-- one instrumented step, provided the log after the step is ordered -/
theorem Sim.istep {α : Type} {tbl : Site → List Gen.Ord} {s : IState α} {hs : HB.State} (hS : Sim hs s.h s.log)
    (tid : Nat) (sp : Bool) (hpw : (istepT tbl s tid sp).log.Pairwise Ordered) :
    Sim ((stepTrace tbl s.g tid sp).foldl HB.step hs) (istepT tbl s tid sp).h (istepT tbl s tid sp).log := by
  unfold istepT at hpw ⊢
  unfold stepTrace
  dsimp only at hpw ⊢
  rw [List.foldl_append, List.foldl_append]
  have s1 := Sim.logNAs (cap := s.g.sh.st.cap) (t := tid) (stepNAs2 s.g tid sp).1 hs s.h s.log hS
    (hpw.sublist (logNAs_suffix _ _ _ _ _).sublist)
  refine Sim.logNAs _ _ _ _ ?_ hpw
  rcases (s.g.step tid sp).2 with _ | e
  · exact s1
  · exact s1.atomic tbl tid e

theorem Sim.run {tbl : Site → List Gen.Ord} {cap init d0 : Nat} :
    ∀ (sched : List (Nat × Bool)) {s : IState (List Meta)} {ghs : List Gh} {hs : HB.State},
      HInv tbl cap init d0 s ghs → Sim hs s.h s.log →
      Sim ((runTrace tbl s.g sched).foldl HB.step hs) (irunT tbl s sched).h (irunT tbl s sched).log
  | [], _, _, _, _, hS => hS
  | (tid, sp) :: rest, s, ghs, hs, hI, hS => by
    obtain ⟨ghs1, h1⟩ := hI.step tid sp
    have s1 := hS.istep (tbl := tbl) tid sp h1.linv.ord
    have := Sim.run rest h1 s1
    simp only [runTrace, irunT, List.foldl_append]
    exact this

/-- (corollary, for any table satisfying `CursorSites`) the `HB` machine, started in any state without recorded
    non-atomic accesses, reports NO race on the trace of any run -/
theorem none_hb_no_race_tbl (tbl : Site → List Gen.Ord) (hs : CursorSites tbl) (c : Cfg) (hk : c.kind = .none)
    (hro : c.ro = false) (sh : Shared) (fuel : Nat) (hhi : sh.st.allocated ≤ sh.st.cap)
    (progs : List (List NOp)) (hok : ∀ ops ∈ progs, ∀ op ∈ ops, op.ok) (sched : List (Nat × Bool))
    (s0 : HB.State) (hr : s0.races = []) (hb : ∀ b, s0.bytes.getD b {} = {}) :
    ((runTrace tbl (istate0 c sh fuel progs (absS s0)).g sched).foldl HB.step s0).races = [] := by
  have hI := hinv_init tbl hs c hk hro sh fuel hhi progs hok (absS s0)
  have hS : Sim s0 (istate0 c sh fuel progs (absS s0)).h (istate0 c sh fuel progs (absS s0)).log :=
    ⟨rfl, hr, fun b => by rw [hb b]; exact ⟨rfl, rfl, fun u k hw => by cases hw⟩⟩
  exact (Sim.run sched hI hS).races

/-- (C12 for `Freelist::None`, in terms of `Model/HB.lean`) `HB.check` — the project's happens-before race detector —
    run on the trace of ANY run (atomic accesses with the orderings of the Rust source, every non-atomic effect of the
    machine as a plain write) reports no race. -/
theorem none_hb_check_no_race (c : Cfg) (hk : c.kind = .none) (hro : c.ro = false) (sh : Shared) (fuel : Nat)
    (hhi : sh.st.allocated ≤ sh.st.cap)
    (progs : List (List NOp)) (hok : ∀ ops ∈ progs, ∀ op ∈ ops, op.ok) (sched : List (Nat × Bool))
    (n : Nat) (threads : List Nat) :
    (HB.check n threads (runTrace Site.ords
      { sh := sh, threads := progs.map (fun ops => noneProg c sh.st.cap fuel ops []) } sched)).races = [] := by
  unfold HB.check
  refine none_hb_no_race_tbl Site.ords cursorSites_source c hk hro sh fuel hhi progs hok sched _ rfl (fun b => ?_)
  simp only [HB.State.init, Array.getD_eq_getD_getElem?, Array.getElem?_replicate]
  split <;> rfl

/-! ### 10. non-vacuity, and dependence on the orderings -/

/-- `Ordered` as a Boolean -/
def orderedB (a2 a1 : NAcc) : Bool :=
  a1.tid == a2.tid || !(decide (max a1.lo a2.lo < min a1.hi a2.hi)) || decide (a1.epoch ≤ a2.vc.get a1.tid)

theorem orderedB_iff (a2 a1 : NAcc) : orderedB a2 a1 = true ↔ Ordered a2 a1 := by
  simp only [orderedB, Ordered, Bool.or_eq_true, beq_iff_eq, Bool.not_eq_true', decide_eq_false_iff_not, decide_eq_true_eq]
  constructor
  · rintro ((h | h) | h) hne ⟨b, b1, b2, b3, b4⟩
    · exact absurd h hne
    · exact absurd (by omega) h
    · exact h
  · intro h
    by_cases hne : a1.tid = a2.tid
    · exact .inl (.inl hne)
    · by_cases hov : max a1.lo a2.lo < min a1.hi a2.hi
      · exact .inr (h hne ⟨max a1.lo a2.lo, by omega, by omega, by omega, by omega⟩)
      · exact .inl (.inr hov)

/-- `Pairwise Ordered` as a Boolean -/
def allOrderedB : List NAcc → Bool
  | [] => true
  | a :: l => l.all (fun a1 => orderedB a a1) && allOrderedB l

theorem allOrderedB_iff : ∀ l : List NAcc, allOrderedB l = true ↔ l.Pairwise Ordered
  | [] => by simp [allOrderedB]
  | a :: l => by
    simp only [allOrderedB, Bool.and_eq_true, List.all_eq_true, List.pairwise_cons, orderedB_iff, allOrderedB_iff l]

/-- the log as plain data: thread, byte range, clock -/
def logView {α : Type} (s : IState α) : List (Nat × Nat × Nat × List Nat) :=
  s.log.map (fun a => (a.tid, a.lo, a.hi, a.vc.toList))

/-- the 256-byte arena of `Proofs/ConcNone.lean` (cursor at 40); thread 0 allocates 16 bytes and drops the handle,
    thread 1 allocates 16 bytes -/
def exI : IState (List Meta) := istate0 exC exSh 50 [[.allocBytes 16, .release 0], [.allocBytes 16]] HBS.init

/-- thread 0 reads the cursor and reserves `[40,56)` (zero-fill, epoch 2 of thread 0); thread 1 reads the cursor (56);
    thread 0 releases on top (CAS 56 → 40); the CAS of thread 1 fails, its retry reserves `[40,56)` again and zero-fills
    the same bytes -/
def exSched : List (Nat × Bool) := [(0, false), (0, false), (1, false), (0, false), (1, false), (1, false)]

example : (irun exI exSched).g.sh.st.allocated = 56 := by decide +kernel

/-- with the orderings of the source: thread 1 zero-fills at the clock `[3, 2]` — it knows epoch 2 of thread 0 -/
example : logView (irun exI exSched) = [(1, 40, 56, [3, 2]), (0, 40, 56, [2])] := by decide +kernel

example : allOrderedB (irun exI exSched).log = true := by decide +kernel

/-- the table of the source with the success ordering of the release CAS `dealloc#0` weakened to `Relaxed` -/
def tblRelaxedDealloc : Site → List Gen.Ord :=
  fun s => if s = ⟨"dealloc", 0⟩ then [.relaxed, .relaxed] else s.ords

/-- same machine, same schedule, same run — but thread 1 zero-fills at the clock `[1, 2]`: it has acquired only what
    thread 0 published with its own allocation CAS (clock `[1]`), not the zero-fill of epoch 2 -/
example : logView (irunT tblRelaxedDealloc exI exSched) = [(1, 40, 56, [1, 2]), (0, 40, 56, [2])] := by decide +kernel

/-- … so the conclusion of `none_handover_hb` FAILS for the weakened table: the theorem depends on the ordering of
    `dealloc#0` -/
example : ¬ (irunT tblRelaxedDealloc exI exSched).log.Pairwise Ordered := by
  rw [← allOrderedB_iff]
  decide +kernel

/-- likewise when the allocation CAS of `alloc_bytes_in` does not acquire on success and failure -/
def tblRelaxedAlloc : Site → List Gen.Ord :=
  fun s => if s = ⟨"alloc_bytes_in", 1⟩ then [.release, .relaxed] else s.ords

example : ¬ (irunT tblRelaxedAlloc exI exSched).log.Pairwise Ordered := by
  rw [← allOrderedB_iff]
  decide +kernel

/-- the trace of the example run for `HB.check`: 2 loads, 3 successful and 1 failed CAS, 2 zero-fills -/
example : (runTrace Site.ords exI.g exSched).length = 8 := by decide +kernel

/-- `HB.check` of `Model/HB.lean` on the trace of the example run: no race with the orderings of the source … -/
example : (HB.check 256 [1] (runTrace Site.ords exI.g exSched)).races = [] := by decide +kernel

/-- … and a race (the second zero-fill of `[40,56)` against the first) when `dealloc#0` is weakened to `Relaxed` -/
example : (HB.check 256 [1] (runTrace tblRelaxedDealloc exI.g exSched)).races.length = 1 := by decide +kernel

/- OPEN (not proved here):
   * Client accesses. The non-atomic accesses of the theorems are the `NA` events of the machine, which for `noneProg`
     programs are the arena's zero-fills (`alloc_bytes`, typed `alloc`; `alloc_aligned_bytes` does not zero). Programs
     with explicit client `fill` / `verify` operations on live handles are not covered: `noneProg` / `Holds` of
     `Proofs/ConcNone.lean` have no such operation. `none_holder_knows` gives the client-side half (the holder knows all
     earlier accesses of others to its bytes); the other half would be
       theorem none_handover_hb_clients : (irun (istate0' c sh fuel progs' h0) sched).log.Pairwise Ordered
     for `progs'` over `NOp ∪ {fill i b, verify i}` (accesses inside the accessible range of the `i`-th held handle).
     The invariant `LInv` already supports it (an access of `t` inside an extent `t` holds is what `LInv.logNAs` needs);
     missing is the typing rule for `.na (.fill …)` / `.na (.verify …)` in `Holds`.
   * `runTrace` checks every non-atomic effect as a plain WRITE (the strictest check); `verify` as a read is not
     distinguished, and atomic accesses carry no byte range (`bytes = none`): with `Freelist::None` no atomic access
     touches the arena memory.
   * Only `kind = none`, `ro = false`; the free-list kinds (`opt`, `pess`) hand memory over through node words and the
     sentinel as well, which needs the release/acquire pairs on those locations. The interleaving machine of
     `Model/Conc.lean` is sequentially consistent; the clocks are the release/acquire clocks of `Model/HB.lean`.
-/

end Rarena.Conc.NoneHB
