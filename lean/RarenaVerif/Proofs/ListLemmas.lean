/-
  Proofs.ListLemmas — facts about the two list functions of the abstract allocator:
  sorted insertion (`insertSeg`) and first-fit removal (`takeFirst`).
-/
import RarenaVerif.Model.Inv

namespace Rarena

theorem insertSeg_perm (k : Kind) (seg : Seg) (l : List Seg) : (insertSeg k seg l).Perm (seg :: l) := by
  induction l with
  | nil => simp [insertSeg]
  | cons g rest ih =>
    simp only [insertSeg]
    split
    · exact List.Perm.refl _
    · exact (List.Perm.cons g ih).trans (List.Perm.swap seg g rest)

theorem mem_insertSeg (k : Kind) (seg x : Seg) (l : List Seg) : x ∈ insertSeg k seg l ↔ x = seg ∨ x ∈ l := by
  rw [(insertSeg_perm k seg l).mem_iff]; simp

theorem length_insertSeg (k : Kind) (seg : Seg) (l : List Seg) : (insertSeg k seg l).length = l.length + 1 := by
  rw [(insertSeg_perm k seg l).length_eq]; simp

/-- the split form: the new element goes between the elements that do not satisfy the comparator and the rest -/
theorem insertSeg_split (k : Kind) (seg : Seg) (l : List Seg) :
    ∃ pre post, l = pre ++ post ∧ insertSeg k seg l = pre ++ seg :: post ∧
      (∀ g ∈ pre, cmpInsert k seg.size g.size = false) ∧
      (∀ g, post.head? = some g → cmpInsert k seg.size g.size = true) := by
  induction l with
  | nil => exact ⟨[], [], rfl, rfl, by simp, by simp⟩
  | cons g rest ih =>
    simp only [insertSeg]
    split
    · rename_i h
      exact ⟨[], g :: rest, rfl, rfl, by simp, by simp [h]⟩
    · rename_i h
      obtain ⟨pre, post, h1, h2, h3, h4⟩ := ih
      refine ⟨g :: pre, post, by simp [h1], by simp [h2], ?_, h4⟩
      intro x hx
      cases hx with
      | head => simpa using h
      | tail _ hx => exact h3 x hx

theorem cmpInsert_opt (v n : Nat) : cmpInsert .opt v n = true ↔ v ≥ n := by simp [cmpInsert]
theorem cmpInsert_pess (v n : Nat) : cmpInsert .pess v n = true ↔ v ≤ n := by simp [cmpInsert]

theorem insertSeg_sorted (k : Kind) (seg : Seg) (l : List Seg) (h : sortedBy k l) :
    sortedBy k (insertSeg k seg l) := by
  cases k with
  | none => trivial
  | opt =>
    simp only [sortedBy] at *
    induction l with
    | nil => simp [insertSeg]
    | cons g rest ih =>
      simp only [insertSeg]
      rw [List.pairwise_cons] at h
      by_cases hc : cmpInsert .opt seg.size g.size = true
      · rw [if_pos hc]
        have hc := (cmpInsert_opt _ _).1 hc
        refine List.Pairwise.cons ?_ (List.Pairwise.cons h.1 h.2)
        intro x hx
        cases hx with
        | head => exact hc
        | tail _ hx => exact Nat.le_trans (h.1 x hx) hc
      · rw [if_neg hc]
        have hc : ¬ seg.size ≥ g.size := fun h' => hc ((cmpInsert_opt _ _).2 h')
        refine List.Pairwise.cons ?_ (ih h.2)
        intro x hx
        rcases (mem_insertSeg .opt seg x rest).1 hx with rfl | hx
        · show g.size ≥ _; omega
        · exact h.1 x hx
  | pess =>
    simp only [sortedBy] at *
    induction l with
    | nil => simp [insertSeg]
    | cons g rest ih =>
      simp only [insertSeg]
      rw [List.pairwise_cons] at h
      by_cases hc : cmpInsert .pess seg.size g.size = true
      · rw [if_pos hc]
        have hc := (cmpInsert_pess _ _).1 hc
        refine List.Pairwise.cons ?_ (List.Pairwise.cons h.1 h.2)
        intro x hx
        cases hx with
        | head => exact hc
        | tail _ hx => exact Nat.le_trans hc (h.1 x hx)
      · rw [if_neg hc]
        have hc : ¬ seg.size ≤ g.size := fun h' => hc ((cmpInsert_pess _ _).2 h')
        refine List.Pairwise.cons ?_ (ih h.2)
        intro x hx
        rcases (mem_insertSeg .pess seg x rest).1 hx with rfl | hx
        · show g.size ≤ _; omega
        · exact h.1 x hx

/-- `takeFirst` splits the list at the first element satisfying `p` -/
theorem takeFirst_some (p : Seg → Bool) (l : List Seg) (g : Seg) (rest : List Seg)
    (h : takeFirst p l = some (g, rest)) :
    ∃ pre post, l = pre ++ g :: post ∧ rest = pre ++ post ∧ p g = true ∧ ∀ x ∈ pre, p x = false := by
  induction l generalizing g rest with
  | nil => simp [takeFirst] at h
  | cons x xs ih =>
    simp only [takeFirst] at h
    split at h
    · rename_i hp
      simp at h
      obtain ⟨rfl, rfl⟩ := h
      exact ⟨[], xs, rfl, rfl, hp, by simp⟩
    · rename_i hp
      split at h
      · simp at h
      · rename_i y rest' hy
        simp at h
        obtain ⟨rfl, rfl⟩ := h
        obtain ⟨pre, post, h1, h2, h3, h4⟩ := ih y rest' hy
        refine ⟨x :: pre, post, by simp [h1], by simp [h2], h3, ?_⟩
        intro z hz
        cases hz with
        | head => simpa using hp
        | tail _ hz => exact h4 z hz

theorem takeFirst_none (p : Seg → Bool) (l : List Seg) (h : takeFirst p l = none) : ∀ x ∈ l, p x = false := by
  induction l with
  | nil => simp
  | cons x xs ih =>
    simp only [takeFirst] at h
    split at h
    · simp at h
    · rename_i hp
      split at h
      · rename_i hn
        intro z hz
        cases hz with
        | head => simpa using hp
        | tail _ hz => exact ih hn z hz
      · simp at h

theorem takeFirst_isSome_of_mem (p : Seg → Bool) (l : List Seg) (x : Seg) (hx : x ∈ l) (hp : p x = true) :
    (takeFirst p l).isSome := by
  cases h : takeFirst p l with
  | none => have := takeFirst_none p l h x hx; simp [hp] at this
  | some _ => rfl

end Rarena
