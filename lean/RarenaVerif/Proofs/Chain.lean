/-
  Proofs.Chain — the in-memory linked list decodes to an abstract `List Seg` (`Chain`), traversals
  compute the abstract split points, insertion / unlinking preserve `Chain`; frame lemmas for writes
  outside the node words of the list.
-/
import RarenaVerif.Proofs.Mem
import RarenaVerif.Proofs.ListLemmas

namespace Rarena

/-- offset of the first node of a list (`u32::MAX` when empty) -/
def hd : List Seg → Nat
  | [] => MAXU32
  | g :: _ => g.off

/-- every node word of the abstract list is in memory and holds `(size, offset of the next node)` -/
def Chain (m : Mem) : List Seg → Prop
  | [] => True
  | g :: rest => g.off + 8 ≤ m.size ∧ m.readWord g.off = enc g.size (hd rest) ∧ Chain m rest

/-- the byte range `[lo, hi)` misses every node word of the list -/
def MissesNodes (lo hi : Nat) (l : List Seg) : Prop := ∀ g ∈ l, hi ≤ g.off ∨ g.off + 8 ≤ lo

theorem Chain.tail {m : Mem} {g : Seg} {rest : List Seg} (h : Chain m (g :: rest)) : Chain m rest := h.2.2

theorem Chain.append_left {m : Mem} : ∀ {l1 l2 : List Seg}, Chain m (l1 ++ l2) → Chain m l2
  | [], _, h => h
  | _ :: l1, l2, h => Chain.append_left (l1 := l1) h.2.2

/-- frame: a memory that agrees on all node words of the list carries the same chain -/
theorem Chain.congr {m m' : Mem} (l : List Seg) (hs : m.size ≤ m'.size)
    (hw : ∀ g ∈ l, m'.readWord g.off = m.readWord g.off) (h : Chain m l) : Chain m' l := by
  induction l with
  | nil => trivial
  | cons g rest ih =>
    refine ⟨by have := h.1; omega, ?_, ih (fun x hx => hw x (List.mem_cons_of_mem _ hx)) h.2.2⟩
    rw [hw g List.mem_cons_self]; exact h.2.1

theorem Chain.update {m : Mem} (l : List Seg) (lo hi : Nat) (f : Nat → UInt8) (hmiss : MissesNodes lo hi l)
    (h : Chain m l) : Chain (m.update lo hi f) l := by
  apply Chain.congr l (by simp) _ h
  intro g hg
  unfold Mem.readWord
  apply Mem.readLE_update_disjoint
  have := hmiss g hg
  omega

theorem Chain.fill {m : Mem} (l : List Seg) (off len : Nat) (b : UInt8) (hmiss : MissesNodes off (off + len) l)
    (h : Chain m l) : Chain (m.fill off len b) l := Chain.update l _ _ _ hmiss h

theorem Chain.zero {m : Mem} (l : List Seg) (off len : Nat) (hmiss : MissesNodes off (off + len) l)
    (h : Chain m l) : Chain (m.zero off len) l := Chain.fill l off len 0 hmiss h

theorem Chain.writeWord {m : Mem} (l : List Seg) (off v : Nat) (hmiss : MissesNodes off (off + 8) l)
    (h : Chain m l) : Chain (m.writeWord off v) l := by
  unfold Mem.writeWord Mem.writeLE
  exact Chain.update l _ _ _ hmiss h

theorem MissesNodes.tail {lo hi : Nat} {g : Seg} {rest : List Seg} (h : MissesNodes lo hi (g :: rest)) :
    MissesNodes lo hi rest := fun x hx => h x (List.mem_cons_of_mem _ hx)

/-! ### node offsets of a well-formed list are pairwise apart -/

/-- the node words of the list are pairwise disjoint and all 8 bytes long inside the memory -/
def NodesApart (l : List Seg) : Prop := l.Pairwise (fun x y => x.off + 8 ≤ y.off ∨ y.off + 8 ≤ x.off)

theorem NodesApart.misses {g : Seg} {rest : List Seg} (h : NodesApart (g :: rest)) :
    MissesNodes g.off (g.off + 8) rest := by
  intro x hx
  have := (List.pairwise_cons.1 h).1 x hx
  omega

end Rarena

namespace Rarena

theorem maxu32_lt : MAXU32 < TWO32 := by unfold MAXU32 TWO32; omega

theorem hd_lt (l : List Seg) (hoff : ∀ g ∈ l, g.off < MAXU32) : hd l < TWO32 := by
  cases l with
  | nil => simp [hd, MAXU32, TWO32]
  | cons g rest => have := hoff g List.mem_cons_self; simp only [hd]; unfold MAXU32 TWO32 at *; omega

theorem hd_eq_max_iff (l : List Seg) (hoff : ∀ g ∈ l, g.off < MAXU32) : hd l = MAXU32 ↔ l = [] := by
  cases l with
  | nil => simp [hd]
  | cons g rest => have := hoff g List.mem_cons_self; simp [hd]; omega

/-! ### `find_position` -/

/-- abstract result of `find_position`: the word and the place of the node after which to insert -/
def posOf (cmp : Nat → Nat → Bool) (val : Nat) : Nat → Loc → List Seg → Nat × Loc
  | csz, loc, [] => (enc csz MAXU32, loc)
  | csz, loc, g :: rest =>
    if cmp val g.size then (enc csz g.off, loc) else posOf cmp val g.size (.node g.off) rest

theorem findPosU_spec (s : St) (val : Nat) (cmp : Nat → Nat → Bool) (l : List Seg)
    (hc : Chain s.mem l) (hsz : ∀ g ∈ l, g.size < TWO32) (hoff : ∀ g ∈ l, g.off < MAXU32)
    (fuel : Nat) (hf : l.length < fuel) (loc : Loc) (csz : Nat) :
    findPosU s val cmp fuel loc (enc csz (hd l)) = .ok (posOf cmp val csz loc l) := by
  induction l generalizing fuel loc csz with
  | nil =>
    cases fuel with
    | zero => simp at hf
    | succ fuel =>
      simp only [findPosU, hd, posOf]
      have h1 : wnext (enc csz MAXU32) = MAXU32 := wnext_enc _ _ maxu32_lt
      simp [h1]
      rfl
  | cons g rest ih =>
    cases fuel with
    | zero => simp at hf
    | succ fuel =>
      have hg := hoff g List.mem_cons_self
      have hgl : g.off < TWO32 := by unfold MAXU32 TWO32 at *; omega
      have h1 : wnext (enc csz g.off) = g.off := wnext_enc _ _ hgl
      have hne : g.off ≠ MAXU32 := by omega
      simp only [findPosU, hd, posOf, h1]
      rw [if_neg (by intro h; exact hne h.2), if_neg hne]
      have hb := hc.1
      have hw := hc.2.1
      simp only [Mem.readWord?, if_pos hb, hw]
      have hnext : hd rest < TWO32 := hd_lt rest (fun x hx => hoff x (List.mem_cons_of_mem _ hx))
      have h2 : wsize (enc g.size (hd rest)) = g.size := wsize_enc _ _ hnext
      simp only [bind, Except.bind, pure, Except.pure, h2]
      by_cases hcmp : cmp val g.size = true
      · simp [hcmp]
      · simp only [hcmp]
        simp only [Bool.false_eq_true, if_false]
        exact ih hc.2.2 (fun x hx => hsz x (List.mem_cons_of_mem _ hx))
          (fun x hx => hoff x (List.mem_cons_of_mem _ hx)) fuel (by simp at hf; omega) (.node g.off) g.size

end Rarena

namespace Rarena

theorem findPosS_nil (s : St) (val : Nat) (cmp : Nat → Nat → Bool)
    (fuel : Nat) (loc : Loc) (csz : Nat) (hcsz : csz ≠ 0) :
    findPosS s val cmp (fuel+1) loc (enc csz MAXU32) = .ok (enc csz MAXU32, loc) := by
  have h1 : wnext (enc csz MAXU32) = MAXU32 := wnext_enc _ _ maxu32_lt
  have h2 : wsize (enc csz MAXU32) = csz := wsize_enc _ _ maxu32_lt
  generalize enc csz MAXU32 = w at *
  unfold findPosS
  rw [h1, h2]
  by_cases hm : csz = MAXU32
  · rw [if_pos ⟨hm, rfl⟩]; rfl
  · rw [if_neg (fun h => hm h.1), if_neg (fun h => hcsz h.1), if_neg hcsz, if_pos rfl]; rfl

/-- one step of the sync traversal over a live node -/
theorem findPosS_cons (s : St) (val : Nat) (cmp : Nat → Nat → Bool)
    (fuel : Nat) (loc : Loc) (csz : Nat) (hcsz : csz ≠ 0) (off nw : Nat) (hoff : off < MAXU32)
    (hb : off + 8 ≤ s.mem.size) (hw : s.mem.readWord off = nw) (hnz : wsize nw ≠ 0) :
    findPosS s val cmp (fuel+1) loc (enc csz off) =
      if cmp val (wsize nw) then .ok (enc csz off, loc) else findPosS s val cmp fuel (.node off) nw := by
  have hgl : off < TWO32 := Nat.lt_trans hoff maxu32_lt
  have h1 : wnext (enc csz off) = off := wnext_enc _ _ hgl
  have h2 : wsize (enc csz off) = csz := wsize_enc _ _ hgl
  have hne : off ≠ MAXU32 := Nat.ne_of_lt hoff
  generalize enc csz off = w at *
  conv => lhs; unfold findPosS
  rw [h1, h2]
  rw [if_neg (fun h => hne h.2), if_neg (fun h => hcsz h.1), if_neg hcsz, if_neg hne]
  simp only [Mem.readWord?, if_pos hb, hw, bind, Except.bind, pure, Except.pure, if_neg hnz]

/-- the sync traversal agrees with the abstract position when no node on the way is marked removed
    (the current word is generalized before unfolding: elaborating the unfolded body against the literal
    `MAXU32` made the kernel recurse deeply) -/
theorem findPosS_spec (s : St) (val : Nat) (cmp : Nat → Nat → Bool) (l : List Seg)
    (hc : Chain s.mem l) (hsz : ∀ g ∈ l, g.size < TWO32) (hpos : ∀ g ∈ l, 1 ≤ g.size)
    (hoff : ∀ g ∈ l, g.off < MAXU32)
    (fuel : Nat) (hf : l.length < fuel) (loc : Loc) (csz : Nat) (hcsz : csz ≠ 0) :
    findPosS s val cmp fuel loc (enc csz (hd l)) = .ok (posOf cmp val csz loc l) := by
  induction l generalizing fuel loc csz with
  | nil =>
    cases fuel with
    | zero => simp at hf
    | succ fuel => exact findPosS_nil s val cmp fuel loc csz hcsz
  | cons g rest ih =>
    cases fuel with
    | zero => simp at hf
    | succ fuel =>
      have hnext : hd rest < TWO32 := hd_lt rest (fun x hx => hoff x (List.mem_cons_of_mem _ hx))
      have h2 : wsize (enc g.size (hd rest)) = g.size := wsize_enc _ _ hnext
      have hgs : g.size ≠ 0 := by have := hpos g List.mem_cons_self; omega
      simp only [hd, posOf]
      rw [findPosS_cons s val cmp fuel loc csz hcsz g.off _ (hoff g List.mem_cons_self) hc.1 hc.2.1
        (by rw [h2]; exact hgs), h2]
      by_cases hcmp : cmp val g.size = true
      · rw [if_pos hcmp, if_pos hcmp]
      · rw [if_neg hcmp, if_neg hcmp]
        exact ih hc.2.2 (fun x hx => hsz x (List.mem_cons_of_mem _ hx))
          (fun x hx => hpos x (List.mem_cons_of_mem _ hx))
          (fun x hx => hoff x (List.mem_cons_of_mem _ hx)) fuel (by simp at hf; omega) (.node g.off) g.size hgs

/-! ### `find_prev_and_next` -/

/-- abstract result of `find_prev_and_next`: predecessor word and place, found node word and offset -/
def prevNextOf (cmp : Nat → Nat → Bool) (val : Nat) : Nat → Loc → List Seg → PrevNext
  | _, _, [] => none
  | csz, loc, g :: rest =>
    if cmp val g.size then some (enc csz g.off, loc, enc g.size (hd rest), g.off)
    else prevNextOf cmp val g.size (.node g.off) rest

theorem findPrevNextU_spec (s : St) (val : Nat) (cmp : Nat → Nat → Bool) (l : List Seg)
    (hc : Chain s.mem l) (hsz : ∀ g ∈ l, g.size < TWO32) (hoff : ∀ g ∈ l, g.off < MAXU32)
    (fuel : Nat) (hf : l.length < fuel) (loc : Loc) (csz : Nat) :
    findPrevNextU s val cmp fuel loc (enc csz (hd l)) = .ok (prevNextOf cmp val csz loc l) := by
  induction l generalizing fuel loc csz with
  | nil =>
    cases fuel with
    | zero => simp at hf
    | succ fuel =>
      simp only [findPrevNextU, hd, prevNextOf]
      have h1 : wnext (enc csz MAXU32) = MAXU32 := wnext_enc _ _ maxu32_lt
      simp [h1]
      rfl
  | cons g rest ih =>
    cases fuel with
    | zero => simp at hf
    | succ fuel =>
      have hg := hoff g List.mem_cons_self
      have hgl : g.off < TWO32 := by unfold MAXU32 TWO32 at *; omega
      have h1 : wnext (enc csz g.off) = g.off := wnext_enc _ _ hgl
      have hne : g.off ≠ MAXU32 := by omega
      simp only [findPrevNextU, hd, prevNextOf, h1]
      rw [if_neg (by intro h; exact hne h.2), if_neg hne]
      have hb := hc.1
      have hw := hc.2.1
      simp only [Mem.readWord?, if_pos hb, hw]
      have hnext : hd rest < TWO32 := hd_lt rest (fun x hx => hoff x (List.mem_cons_of_mem _ hx))
      have h2 : wsize (enc g.size (hd rest)) = g.size := wsize_enc _ _ hnext
      simp only [bind, Except.bind, pure, Except.pure, h2]
      by_cases hcmp : cmp val g.size = true
      · simp only [hcmp, if_true]; rfl
      · simp only [hcmp]
        simp only [Bool.false_eq_true, if_false]
        exact ih hc.2.2 (fun x hx => hsz x (List.mem_cons_of_mem _ hx))
          (fun x hx => hoff x (List.mem_cons_of_mem _ hx)) fuel (by simp at hf; omega) (.node g.off) g.size

theorem findPrevNextS_spec (s : St) (val : Nat) (cmp : Nat → Nat → Bool) (l : List Seg)
    (hc : Chain s.mem l) (hsz : ∀ g ∈ l, g.size < TWO32) (hpos : ∀ g ∈ l, 1 ≤ g.size)
    (hoff : ∀ g ∈ l, g.off < MAXU32)
    (fuel : Nat) (hf : l.length < fuel) (loc : Loc) (csz : Nat) (hcsz : csz ≠ 0) :
    findPrevNextS s val cmp fuel loc (enc csz (hd l)) = .ok (prevNextOf cmp val csz loc l) := by
  induction l generalizing fuel loc csz with
  | nil =>
    cases fuel with
    | zero => simp at hf
    | succ fuel =>
      simp only [findPrevNextS, hd, prevNextOf]
      have h1 : wnext (enc csz MAXU32) = MAXU32 := wnext_enc _ _ maxu32_lt
      have h2 : wsize (enc csz MAXU32) = csz := wsize_enc _ _ maxu32_lt
      simp [h1, h2, hcsz]
      rfl
  | cons g rest ih =>
    cases fuel with
    | zero => simp at hf
    | succ fuel =>
      have hg := hoff g List.mem_cons_self
      have hgl : g.off < TWO32 := by unfold MAXU32 TWO32 at *; omega
      have h1 : wnext (enc csz g.off) = g.off := wnext_enc _ _ hgl
      have h1' : wsize (enc csz g.off) = csz := wsize_enc _ _ hgl
      have hne : g.off ≠ MAXU32 := by omega
      simp only [findPrevNextS, hd, prevNextOf, h1, h1']
      rw [if_neg (by intro h; exact hne h.2), if_neg (by intro h; exact hcsz h.1), if_neg hcsz, if_neg hne]
      have hb := hc.1
      have hw := hc.2.1
      simp only [Mem.readWord?, if_pos hb, hw]
      have hnext : hd rest < TWO32 := hd_lt rest (fun x hx => hoff x (List.mem_cons_of_mem _ hx))
      have h2 : wsize (enc g.size (hd rest)) = g.size := wsize_enc _ _ hnext
      have hgs : g.size ≠ 0 := by have := hpos g List.mem_cons_self; omega
      simp only [bind, Except.bind, pure, Except.pure, h2, if_neg hgs]
      by_cases hcmp : cmp val g.size = true
      · simp only [hcmp, if_true]; rfl
      · simp only [hcmp]
        simp only [Bool.false_eq_true, if_false]
        exact ih hc.2.2 (fun x hx => hsz x (List.mem_cons_of_mem _ hx))
          (fun x hx => hpos x (List.mem_cons_of_mem _ hx))
          (fun x hx => hoff x (List.mem_cons_of_mem _ hx)) fuel (by simp at hf; omega) (.node g.off) g.size hgs

/-! ### insertion -/

theorem Mem.rd_writeWord_out (m : Mem) (off v i : Nat) (h : i < off ∨ off + 8 ≤ i) :
    (m.writeWord off v).rd i = m.rd i := by
  unfold Mem.writeWord Mem.writeLE
  exact Mem.rd_update_out _ _ _ _ _ (by omega)

/-- insertion behind the node `g` (which stays the head): the two stores of `insertLoop` at the place computed
    by `posOf` produce the chain of the abstract insertion -/
theorem insert_after (k : Kind) (seg : Seg) (m : Mem) (rest : List Seg) (g : Seg)
    (hc : Chain m (g :: rest)) (hap : NodesApart (g :: rest))
    (hmiss : MissesNodes seg.off (seg.off + 8) (g :: rest)) (hb : seg.off + 8 ≤ m.size)
    (hsz : ∀ x ∈ g :: rest, x.size < TWO32) (hpos : ∀ x ∈ g :: rest, 1 ≤ x.size)
    (hoff : ∀ x ∈ g :: rest, x.off < MAXU32)
    (hso : seg.off < MAXU32) (hss : seg.size < TWO32) :
    ∃ p cur, posOf (cmpInsert k) seg.size g.size (.node g.off) rest = (cur, .node p) ∧
      p + 8 ≤ m.size ∧ (∃ x ∈ g :: rest, x.off = p) ∧ m.readWord p = cur ∧ wsize cur ≠ 0 ∧
      wnext cur ≠ seg.off ∧
      Chain ((m.writeWord seg.off (enc seg.size (wnext cur))).writeWord p (enc (wsize cur) seg.off))
        (g :: insertSeg k seg rest) := by
  have hsol : seg.off < TWO32 := Nat.lt_trans hso maxu32_lt
  induction rest generalizing g with
  | nil =>
    have hg1 := hc.1
    have hgw := hc.2.1
    simp only [hd] at hgw
    have hgs := hsz g List.mem_cons_self
    have hgp := hpos g List.mem_cons_self
    have hm := hmiss g List.mem_cons_self
    have hw1 : wsize (enc g.size MAXU32) = g.size := wsize_enc _ _ maxu32_lt
    have hw2 : wnext (enc g.size MAXU32) = MAXU32 := wnext_enc _ _ maxu32_lt
    refine ⟨g.off, enc g.size MAXU32, rfl, hg1, ⟨g, List.mem_cons_self, rfl⟩, hgw, ?_, ?_, ?_⟩
    · rw [hw1]; omega
    · rw [hw2]; omega
    · rw [hw1, hw2]
      refine ⟨by simpa using hg1, ?_, by simpa using hb, ?_, trivial⟩
      · exact Mem.readWord_writeWord_same _ _ _ (by simpa using hg1) (enc_lt _ _ hgs hsol)
      · rw [Mem.readWord_writeWord_disjoint _ _ _ _ (by omega)]
        exact Mem.readWord_writeWord_same _ _ _ hb (enc_lt _ _ hss maxu32_lt)
  | cons g' rest' ih =>
    have hg1 := hc.1
    have hgw := hc.2.1
    simp only [hd] at hgw
    have hgs := hsz g List.mem_cons_self
    have hgp := hpos g List.mem_cons_self
    have hm := hmiss g List.mem_cons_self
    have hg'o : g'.off < TWO32 := Nat.lt_trans (hoff g' (by simp)) maxu32_lt
    by_cases hcmp : cmpInsert k seg.size g'.size = true
    · have hw1 : wsize (enc g.size g'.off) = g.size := wsize_enc _ _ hg'o
      have hw2 : wnext (enc g.size g'.off) = g'.off := wnext_enc _ _ hg'o
      have hm' := hmiss g' (by simp)
      refine ⟨g.off, enc g.size g'.off, by simp only [posOf, hcmp, if_true], hg1,
        ⟨g, List.mem_cons_self, rfl⟩, hgw, ?_, ?_, ?_⟩
      · rw [hw1]; omega
      · rw [hw2]; omega
      · rw [hw1, hw2]
        simp only [insertSeg, hcmp, if_true]
        refine ⟨by simpa using hg1, ?_, by simpa using hb, ?_, ?_⟩
        · exact Mem.readWord_writeWord_same _ _ _ (by simpa using hg1) (enc_lt _ _ hgs hsol)
        · rw [Mem.readWord_writeWord_disjoint _ _ _ _ (by omega)]
          exact Mem.readWord_writeWord_same _ _ _ hb (enc_lt _ _ hss hg'o)
        · exact Chain.writeWord _ _ _ hap.misses (Chain.writeWord _ _ _ hmiss.tail hc.2.2)
    · obtain ⟨p, cur, hp, hpb, ⟨x, hx, hxp⟩, hrd, hws, hwn, hch⟩ :=
        ih g' hc.2.2 (List.pairwise_cons.1 hap).2 hmiss.tail
          (fun x hx => hsz x (List.mem_cons_of_mem _ hx))
          (fun x hx => hpos x (List.mem_cons_of_mem _ hx))
          (fun x hx => hoff x (List.mem_cons_of_mem _ hx))
      refine ⟨p, cur, by simp only [posOf, hcmp]; exact hp, hpb,
        ⟨x, List.mem_cons_of_mem _ hx, hxp⟩, hrd, hws, hwn, ?_⟩
      simp only [insertSeg, hcmp]
      refine ⟨by simpa using hg1, ?_, hch⟩
      have hgx := (List.pairwise_cons.1 hap).1 x hx
      rw [Mem.readWord_writeWord_disjoint _ _ _ _ (by omega),
        Mem.readWord_writeWord_disjoint _ _ _ _ (by omega)]
      exact hgw

/-- insertion into the whole list hanging off the sentinel: either the new node becomes the head (the
    sentinel field is the predecessor) or the predecessor is a node of the list -/
theorem insert_top (k : Kind) (seg : Seg) (m : Mem) (l : List Seg)
    (hc : Chain m l) (hap : NodesApart l)
    (hmiss : MissesNodes seg.off (seg.off + 8) l) (hb : seg.off + 8 ≤ m.size)
    (hsz : ∀ x ∈ l, x.size < TWO32) (hpos : ∀ x ∈ l, 1 ≤ x.size)
    (hoff : ∀ x ∈ l, x.off < MAXU32)
    (hso : seg.off < MAXU32) (hss : seg.size < TWO32) :
    (posOf (cmpInsert k) seg.size MAXU32 .hdr l = (enc MAXU32 (hd l), .hdr) ∧ hd l ≠ seg.off ∧
      Chain (m.writeWord seg.off (enc seg.size (hd l))) (insertSeg k seg l) ∧
      hd (insertSeg k seg l) = seg.off) ∨
    (∃ p cur, posOf (cmpInsert k) seg.size MAXU32 .hdr l = (cur, .node p) ∧
      p + 8 ≤ m.size ∧ (∃ x ∈ l, x.off = p) ∧ m.readWord p = cur ∧ wsize cur ≠ 0 ∧
      wnext cur ≠ seg.off ∧
      Chain ((m.writeWord seg.off (enc seg.size (wnext cur))).writeWord p (enc (wsize cur) seg.off))
        (insertSeg k seg l) ∧
      hd (insertSeg k seg l) = hd l) := by
  cases l with
  | nil =>
    left
    refine ⟨rfl, ?_, ?_, rfl⟩
    · simp only [hd]; omega
    · refine ⟨by simpa using hb, ?_, trivial⟩
      exact Mem.readWord_writeWord_same _ _ _ hb (enc_lt _ _ hss maxu32_lt)
  | cons g rest =>
    have hgo : g.off < TWO32 := Nat.lt_trans (hoff g (by simp)) maxu32_lt
    have hm := hmiss g List.mem_cons_self
    by_cases hcmp : cmpInsert k seg.size g.size = true
    · left
      refine ⟨by simp only [posOf, hcmp, if_true, hd], ?_, ?_, by simp only [insertSeg, hcmp, if_true, hd]⟩
      · simp only [hd]; omega
      · simp only [insertSeg, hcmp, if_true, hd]
        refine ⟨by simpa using hb, ?_, Chain.writeWord _ _ _ hmiss hc⟩
        exact Mem.readWord_writeWord_same _ _ _ hb (enc_lt _ _ hss hgo)
    · right
      obtain ⟨p, cur, hp, hpb, hx, hrd, hws, hwn, hch⟩ :=
        insert_after k seg m rest g hc hap hmiss hb hsz hpos hoff hso hss
      refine ⟨p, cur, by simp only [posOf, hcmp]; exact hp, hpb, hx, hrd, hws, hwn, ?_, ?_⟩
      · simp only [insertSeg, hcmp]; exact hch
      · simp only [insertSeg, hcmp, hd]; rfl
theorem maxu32_ne_zero : MAXU32 ≠ 0 := by unfold MAXU32; omega

theorem findPos_spec (c : Cfg) (s : St) (val : Nat) (cmp : Nat → Nat → Bool) (l : List Seg)
    (hc : Chain s.mem l) (hsent : s.sentinel = enc MAXU32 (hd l))
    (hsz : ∀ g ∈ l, g.size < TWO32) (hpos : ∀ g ∈ l, 1 ≤ g.size) (hoff : ∀ g ∈ l, g.off < MAXU32)
    (fuel : Nat) (hf : l.length < fuel) :
    findPos c s val cmp fuel = .ok (posOf cmp val MAXU32 .hdr l) := by
  unfold findPos
  rw [hsent]
  split
  · exact findPosS_spec s val cmp l hc hsz hpos hoff fuel hf .hdr MAXU32 maxu32_ne_zero
  · exact findPosU_spec s val cmp l hc hsz hoff fuel hf .hdr MAXU32

/-- one successful iteration of the insertion loop -/
theorem insertLoop_step (c : Cfg) (sr : SegRef) (fuel tries : Nat) (s : St) (cur : Nat) (loc : Loc)
    (hfp : findPos c s sr.size (cmpInsert c.kind) fuel = .ok (cur, loc))
    (hws : wsize cur ≠ 0) (hwn : sr.ptr ≠ wnext cur) (hb : sr.ptr + 8 ≤ s.mem.size) (s2 : St)
    (hrd : St.readLoc { s with mem := s.mem.writeWord sr.ptr (enc sr.size (wnext cur)) } loc = .ok cur)
    (hwr : St.writeLoc { s with mem := s.mem.writeWord sr.ptr (enc sr.size (wnext cur)) } loc
      (enc (wsize cur) sr.ptr) = .ok s2) :
    insertLoop c sr fuel (tries + 1) s = .ok (s2.incDiscarded c (sr.data - sr.ptr)) := by
  conv => lhs; unfold insertLoop
  rw [hfp]
  simp only [bind, Except.bind]
  rw [if_neg (fun h => hws h.2), if_neg (fun h => hwn h.2)]
  simp only [Mem.writeWord?, if_pos hb, pure, Except.pure]
  cases hs : c.sync
  · simp only [Bool.false_eq_true, if_false, hwr]
  · simp only [if_true, St.casLoc, bind, Except.bind, hrd, pure, Except.pure, hwr]

/-- the insertion loop succeeds in its first iteration and leaves the chain of the abstract insertion -/
theorem insertLoop_spec (c : Cfg) (s : St) (l : List Seg) (sr : SegRef) (fuel tries : Nat)
    (hc : Chain s.mem l) (hsent : s.sentinel = enc MAXU32 (hd l)) (hap : NodesApart l)
    (hmiss : MissesNodes sr.ptr (sr.ptr + 8) l) (hb : sr.ptr + 8 ≤ s.mem.size)
    (hsz : ∀ g ∈ l, g.size < TWO32) (hpos : ∀ g ∈ l, 1 ≤ g.size) (hoff : ∀ g ∈ l, g.off < MAXU32)
    (hso : sr.ptr < MAXU32) (hss : sr.size < TWO32) (hf : l.length < fuel) :
    ∃ s' : St, insertLoop c sr fuel (tries + 1) s = .ok (s'.incDiscarded c (sr.data - sr.ptr)) ∧
      Chain s'.mem (insertSeg c.kind ⟨sr.ptr, sr.size⟩ l) ∧
      s'.sentinel = enc MAXU32 (hd (insertSeg c.kind ⟨sr.ptr, sr.size⟩ l)) ∧
      s'.mem.size = s.mem.size ∧ s'.allocated = s.allocated ∧ s'.minSeg = s.minSeg ∧
      s'.discarded = s.discarded ∧
      (∀ i, (i < sr.ptr ∨ sr.ptr + 8 ≤ i) → (∀ g ∈ l, i < g.off ∨ g.off + 8 ≤ i) →
        s'.mem.rd i = s.mem.rd i) := by
  have hfp := findPos_spec c s sr.size (cmpInsert c.kind) l hc hsent hsz hpos hoff fuel hf
  have hsol : sr.ptr < TWO32 := Nat.lt_trans hso maxu32_lt
  rcases insert_top c.kind ⟨sr.ptr, sr.size⟩ s.mem l hc hap hmiss hb hsz hpos hoff hso hss with
    ⟨hp, hne, hch, hhd⟩ | ⟨p, cur, hp, hpb, ⟨x, hx, hxp⟩, hrd, hws, hwn, hch, hhd⟩
  · have hdl : hd l < TWO32 := hd_lt l hoff
    have hw1 : wsize (enc MAXU32 (hd l)) = MAXU32 := wsize_enc _ _ hdl
    have hw2 : wnext (enc MAXU32 (hd l)) = hd l := wnext_enc _ _ hdl
    rw [hp] at hfp
    refine ⟨{ s with mem := s.mem.writeWord sr.ptr (enc sr.size (hd l)), sentinel := enc MAXU32 sr.ptr },
      ?_, hch, ?_, by simp, rfl, rfl, rfl, ?_⟩
    · refine insertLoop_step c sr fuel tries s _ _ hfp ?_ ?_ hb _ ?_ ?_
      · rw [hw1]; exact maxu32_ne_zero
      · rw [hw2]; exact fun h => hne h.symm
      · simp only [St.readLoc, hsent]; rfl
      · simp only [St.writeLoc, hw1, hw2]; rfl
    · simp only [hhd]
    · intro i hi _
      exact Mem.rd_writeWord_out _ _ _ _ hi
  · rw [hp] at hfp
    have hxm := hmiss x hx
    rw [hxp] at hxm
    refine ⟨{ s with mem := (s.mem.writeWord sr.ptr (enc sr.size (wnext cur))).writeWord p (enc (wsize cur) sr.ptr) },
      ?_, hch, ?_, by simp, rfl, rfl, rfl, ?_⟩
    · refine insertLoop_step c sr fuel tries s _ _ hfp hws (fun h => hwn h.symm) hb _ ?_ ?_
      · simp only [St.readLoc, Mem.readWord?, Mem.size_writeWord, if_pos hpb]
        rw [Mem.readWord_writeWord_disjoint _ _ _ _ (by omega), hrd]; rfl
      · simp only [St.writeLoc, Mem.writeWord?, Mem.size_writeWord, if_pos hpb]; rfl
    · simp only [hhd]; exact hsent
    · intro i hi hg
      have := hg x hx
      rw [hxp] at this
      rw [Mem.rd_writeWord_out _ _ _ _ this, Mem.rd_writeWord_out _ _ _ _ hi]
end Rarena
