/-
  Proofs.RefineAlloc — the three allocation entry points of `Core` (both flavours, all freelist kinds)
  refine the abstract allocator: same answer, tracked state, no trap, no divergence, zero-filled
  `alloc_bytes`, live bytes intact. (all statements proved; the only external dependency still open is
  `freelistDealloc_refines` of Proofs.RefineDealloc, used as stated)
-/
import RarenaVerif.Proofs.RefineDealloc

set_option linter.unusedVariables false

namespace Rarena

/-- the post-condition shared by the three entry points, phrased on the abstract answer `r` -/
def AllocRefines (c : Cfg) (s : St) (free : List Seg) (lives : List Ext) (r : AOut × A)
    (res : M (AllocOut × St)) (zero : Bool) : Prop :=
  ∃ s', res = .ok (r.1, s') ∧ StepOK c s s' r.2 lives ∧
    match r.1 with
    | .ok (some m) => CInv c s' r.2.free (m.owned :: lives) ∧ (zero = true → Zeroed s' m)
    | _ => s' = s

/-! ### arithmetic helpers: the unchecked operations return their `Nat` meaning under the guards -/

theorem addU32_ok (site : String) (a b : Nat) (h : a + b < TWO32) : addU32 site a b = .ok (a + b) := by
  unfold addU32; rw [if_pos h]; rfl

theorem subU_ok (site : String) (a b : Nat) (h : b ≤ a) : subU site a b = .ok (a - b) := by
  unfold subU; rw [if_pos h]; rfl

theorem alignOffset_ok (a x : Nat) (h : x + a - 1 < TWO32) : alignOffset a x = .ok (alignUp a x) := by
  unfold alignOffset alignUp; rw [if_pos h]; rfl

theorem checkedAdd_filter_some (a b cap : Nat) (h1 : a + b ≤ cap) (h2 : cap < TWO32) :
    (checkedAddU32 a b).filter (· ≤ cap) = some (a + b) := by
  unfold checkedAddU32; rw [if_pos (by omega)]; simp [Option.filter, h1]

theorem checkedAdd_filter_none (a b cap : Nat) (h1 : ¬ a + b ≤ cap) :
    (checkedAddU32 a b).filter (· ≤ cap) = none := by
  unfold checkedAddU32; split <;> simp [Option.filter, h1]

theorem readWord?_ok (m : Mem) (off : Nat) (h : off + 8 ≤ m.size) : m.readWord? off = .ok (m.readWord off) := by
  unfold Mem.readWord?; rw [if_pos h]; rfl

theorem writeWord?_ok (m : Mem) (off v : Nat) (h : off + 8 ≤ m.size) :
    m.writeWord? off v = .ok (m.writeWord off v) := by
  unfold Mem.writeWord?; rw [if_pos h]; rfl

theorem zero?_ok (m : Mem) (off len : Nat) (h : off + len ≤ m.size) : m.zero? off len = .ok (m.zero off len) := by
  unfold Mem.zero?; rw [if_pos h]; rfl

theorem clearMeta_ok (s : St) (m : Meta) (h : m.ptrOff + m.ptrSize ≤ s.mem.size) :
    s.clearMeta m = .ok { s with mem := s.mem.zero m.ptrOff m.ptrSize } := by
  unfold St.clearMeta; rw [zero?_ok _ _ _ h]; rfl

theorem alignTo_ok (m : Meta) (a size : Nat) (h : m.ptrOff + a - 1 < TWO32) :
    m.alignTo a size = .ok (m.alignToS a size) := by
  unfold Meta.alignTo Meta.alignToS; rw [alignOffset_ok _ _ h]; rfl

theorem alignBytesTo_ok (m : Meta) (a : Nat) (h1 : m.ptrOff + m.ptrSize < TWO32) (h2 : m.ptrOff + a - 1 < TWO32)
    (h3 : alignUp a m.ptrOff ≤ m.ptrOff + m.ptrSize) : m.alignBytesTo a = .ok (m.alignBytesToS a) := by
  unfold Meta.alignBytesTo Meta.alignBytesToS
  rw [addU32_ok _ _ _ h1, alignOffset_ok _ _ h2]
  simp only [bind, Except.bind]
  rw [subU_ok _ _ _ h3]; rfl

theorem casLoc_node_ok (s : St) (off expected new : Nat) (hb : off + 8 ≤ s.mem.size)
    (hw : s.mem.readWord off = expected) :
    s.casLoc (.node off) expected new = .ok ({ s with mem := s.mem.writeWord off new }, true) := by
  simp only [St.casLoc, St.readLoc, St.writeLoc, readWord?_ok _ _ hb, writeWord?_ok _ _ _ hb,
    bind, Except.bind, pure, Except.pure, hw, if_true]

theorem casLoc_hdr_ok (s : St) (expected new : Nat) (hw : s.sentinel = expected) :
    s.casLoc .hdr expected new = .ok ({ s with sentinel := new }, true) := by
  simp only [St.casLoc, St.readLoc, St.writeLoc, bind, Except.bind, pure, Except.pure, hw, if_true]

/-! ### facts packed in `CInv` -/

section
variable {c : Cfg} {s : St} {free : List Seg} {lives : List Ext}

theorem CInv.cap_le (h : CInv c s free lives) : s.mem.size + 8192 ≤ TWO32 := h.capGuard

theorem CInv.alloc_le (h : CInv c s free lives) : s.allocated ≤ s.mem.size := h.wf.hi

theorem CInv.seg (h : CInv c s free lives) {g : Seg} (hg : g ∈ free) :
    g.off % 8 = 0 ∧ 1 ≤ g.size ∧ c.dataOffset ≤ g.off ∧ g.off + 8 + g.size ≤ s.allocated := h.wf.segs g hg

theorem WF.apart {a : A} (hw : WF c a lives) : NodesApart a.free := by
  have h1 := hw.disjoint
  rw [List.pairwise_append] at h1
  have h2 := h1.1
  rw [List.pairwise_map] at h2
  refine h2.imp ?_
  intro x y hxy
  unfold disj at hxy
  simp only [Seg.ext, Seg.lo, Seg.hi, NODE] at hxy
  omega

theorem WF.free_live {a : A} (hw : WF c a lives) {g : Seg} (hg : g ∈ a.free) {e : Ext} (he : e ∈ lives) :
    g.off + 8 + g.size ≤ e.1 ∨ e.2 ≤ g.off := by
  have h1 := hw.disjoint
  rw [List.pairwise_append] at h1
  have := h1.2.2 g.ext (List.mem_map_of_mem hg) e he
  unfold disj at this
  simpa only [Seg.ext, Seg.lo, Seg.hi, NODE] using this

theorem hd_lt' (h : CInv c s free lives) : hd free < TWO32 := by
  apply hd_lt
  intro g hg
  have := h.seg hg
  have := h.alloc_le
  have := h.cap_le
  unfold MAXU32 TWO32 at *
  omega

/-- frame: scalars may change, but `sentinel`, `minSeg` stay and node words of the free list are untouched -/
theorem CInv.frame (h : CInv c s free lives) (s' : St) (lives' : List Ext)
    (hwf : WF c (s'.abs free) lives') (hsz : s'.mem.size = s.mem.size) (hsent : s'.sentinel = s.sentinel)
    (hmin : s'.minSeg = s.minSeg)
    (hrd : ∀ g ∈ free, ∀ i, g.off ≤ i → i < g.off + 8 → s'.mem.rd i = s.mem.rd i) :
    CInv c s' free lives' := by
  refine ⟨hwf, ?_, by rw [hsent]; exact h.sent, ?_, by rw [hmin]; exact h.minSegLt, h.retriesOK⟩
  · apply Chain.congr free (by omega) _ h.chain
    intro g hg
    unfold Mem.readWord
    exact Mem.readLE_congr _ _ _ _ (fun i h1 h2 => hrd g hg i h1 h2)
  · show s'.mem.size + 8192 ≤ TWO32
    rw [hsz]; exact h.cap_le

/-- the bump path: the cursor moves to `want`, bytes below the old cursor are untouched -/
theorem bump_refines (h : CInv c s free lives) (m : Meta) (want : Nat) (mem' : Mem)
    (hwf : WF c { s.abs free with allocated := want } (m.owned :: lives))
    (hsz : mem'.size = s.mem.size) (hrd : ∀ i, i < s.allocated → mem'.rd i = s.mem.rd i) :
    StepOK c s { s with allocated := want, mem := mem' } { s.abs free with allocated := want } lives ∧
    CInv c { s with allocated := want, mem := mem' } free (m.owned :: lives) := by
  have habs : ({ s with allocated := want, mem := mem' } : St).abs free = { s.abs free with allocated := want } := by
    simp [St.abs, St.cap, hsz]
  refine ⟨⟨habs, hsz, ?_, ?_⟩, ?_⟩
  · intro e he i h1 h2
    have := h.wf.lives_in e he
    exact hrd i (by simp only [St.abs] at this; omega)
  · intro i hi
    have := h.wf.mid
    exact hrd i (by simp only [St.abs] at this; omega)
  · apply h.frame { s with allocated := want, mem := mem' } _ (by rw [habs]; exact hwf) hsz rfl rfl
    intro g hg i h1 h2
    have := h.seg hg
    exact hrd i (by omega)

theorem StepOK.rfl' (c : Cfg) (s : St) (free : List Seg) (lives : List Ext) : StepOK c s s (s.abs free) lives :=
  ⟨rfl, rfl, fun _ _ _ _ _ => rfl, fun _ _ => rfl⟩

theorem StepOK.trans {s1 s2 : St} {a1 a2 : A} (h1 : StepOK c s s1 a1 lives) (h2 : StepOK c s1 s2 a2 lives) :
    StepOK c s s2 a2 lives :=
  ⟨h2.abs, h2.size.trans h1.size, fun e he i hi1 hi2 => (h2.live e he i hi1 hi2).trans (h1.live e he i hi1 hi2),
    fun i hi => (h2.pre i hi).trans (h1.pre i hi)⟩

theorem StepOK.drop {s1 : St} {a1 : A} {e : Ext} (h1 : StepOK c s s1 a1 (e :: lives)) : StepOK c s s1 a1 lives :=
  ⟨h1.abs, h1.size, fun x hx => h1.live x (List.mem_cons_of_mem _ hx), h1.pre⟩

theorem CInv.relive (h : CInv c s free lives) {lives' : List Ext} (hwf : WF c (s.abs free) lives') :
    CInv c s free lives' :=
  ⟨hwf, h.chain, h.sent, h.capGuard, h.minSegLt, h.retriesOK⟩

/-- zeroing bytes inside an owned extent -/
theorem zero_owned {e : Ext} (h : CInv c s free (e :: lives)) (off len : Nat) (h1 : e.1 ≤ off) (h2 : off + len ≤ e.2) :
    CInv c { s with mem := s.mem.zero off len } free (e :: lives) ∧
    StepOK c s { s with mem := s.mem.zero off len } (s.abs free) lives := by
  have habs : ({ s with mem := s.mem.zero off len } : St).abs free = s.abs free := by
    simp [St.abs, St.cap]
  have hd := h.wf.disjoint
  rw [List.pairwise_append, List.pairwise_cons] at hd
  have hin := h.wf.lives_in e List.mem_cons_self
  refine ⟨?_, ⟨habs, by simp, ?_, ?_⟩⟩
  · apply h.frame { s with mem := s.mem.zero off len } _ (by rw [habs]; exact h.wf) (by simp) rfl rfl
    intro g hg i hi1 hi2
    have := h.wf.free_live hg (e := e) List.mem_cons_self
    exact Mem.rd_zero_out _ _ _ _ (by omega)
  · intro x hx i hi1 hi2
    have := hd.2.1.1 x hx
    unfold disj at this
    exact Mem.rd_zero_out _ _ _ _ (by omega)
  · intro i hi
    exact Mem.rd_zero_out _ _ _ _ (by omega)

theorem validateSegment_ok (s : St) (free : List Seg) (off size : Nat) (h : off + 7 < TWO32) :
    validateSegment s off size = .ok ((s.abs free).validate off size) := by
  unfold validateSegment A.validate
  by_cases h0 : off = 0 ∨ size = 0
  · rw [if_pos h0, if_pos h0]; rfl
  · rw [if_neg h0, if_neg h0, alignOffset_ok _ _ (by omega)]
    simp only [bind, Except.bind]
    by_cases h1 : alignUp 8 off - off + NODE ≥ size
    · rw [if_pos h1, if_pos h1]; rfl
    · rw [if_neg h1, if_neg h1]
      by_cases h2 : size - (alignUp 8 off - off + NODE) < s.minSeg
      · rw [if_pos h2, if_pos (show size - (alignUp 8 off - off + NODE) < (s.abs free).minSeg from h2)]; rfl
      · rw [if_neg h2, if_neg (show ¬ size - (alignUp 8 off - off + NODE) < (s.abs free).minSeg from h2)]; rfl

theorem finishSlow_eval_split (c : Cfg) (s : St) (free : List Seg) (off nodeSize size fuel : Nat) (b : Bool) (s1 : St)
    (h1 : off + NODE + size + 7 < TWO32)
    (hv : (s.abs free).validate (off + NODE + size) (nodeSize - size) = true)
    (hd : freelistDealloc c s (off + NODE + size) (nodeSize - size) fuel = .ok (b, s1))
    (hz : off + NODE + size ≤ s1.mem.size) :
    finishSlow c s off nodeSize size fuel =
      .ok (.ok ⟨off, nodeSize - (nodeSize - size), off + NODE, size⟩,
        { s1 with mem := s1.mem.zero (off + NODE) size }) := by
  unfold finishSlow
  simp only [bind, Except.bind, addU32_ok _ _ _ (show off + NODE < TWO32 by omega),
    addU32_ok _ _ _ (show off + NODE + size < TWO32 by omega),
    validateSegment_ok s free _ _ (show off + NODE + size + 7 < TWO32 from h1), hv, if_true, hd, pure, Except.pure]
  rw [clearMeta_ok _ _ hz]

theorem finishSlow_eval_nosplit (c : Cfg) (s : St) (free : List Seg) (off nodeSize size fuel : Nat)
    (h1 : off + NODE + size + 7 < TWO32)
    (hv : ¬ (s.abs free).validate (off + NODE + size) (nodeSize - size) = true)
    (hz : off + NODE + size ≤ s.mem.size) :
    finishSlow c s off nodeSize size fuel =
      .ok (.ok ⟨off, nodeSize, off + NODE, size⟩, { s with mem := s.mem.zero (off + NODE) size }) := by
  unfold finishSlow
  simp only [bind, Except.bind, addU32_ok _ _ _ (show off + NODE < TWO32 by omega),
    addU32_ok _ _ _ (show off + NODE + size < TWO32 by omega),
    validateSegment_ok s free _ _ (show off + NODE + size + 7 < TWO32 from h1), hv, Bool.false_eq_true, if_false, pure, Except.pure]
  rw [clearMeta_ok _ _ hz]

theorem finishSlow_refines (c : Cfg) (s : St) (rest : List Seg) (lives : List Ext) (g : Seg) (size fuel : Nat)
    (h : CInv c s rest (g.ext :: lives)) (hk : c.kind ≠ .none) (hro : c.ro = false)
    (hs : size ≤ g.size) (h0 : size ≠ 0) (hfuel : rest.length + 2 ≤ fuel) :
    ∃ s', finishSlow c s g.off g.size size fuel = .ok (.ok ((s.abs rest).finishSlow c g size).1, s') ∧
      StepOK c s s' ((s.abs rest).finishSlow c g size).2 lives ∧
      CInv c s' ((s.abs rest).finishSlow c g size).2.free (((s.abs rest).finishSlow c g size).1.owned :: lives) ∧
      Zeroed s' ((s.abs rest).finishSlow c g size).1 := by
  have hin := h.wf.lives_in g.ext List.mem_cons_self
  simp only [Seg.ext, Seg.lo, Seg.hi, NODE, St.abs] at hin
  have hal := h.alloc_le
  have hcap := h.cap_le
  have hlo := h.wf.lo
  have hshr : ∀ m : Meta, m.memOff = g.off → m.memSize ≤ g.size → m.ptrOff = g.off + 8 → m.ptrSize = size →
      WF c (s.abs rest) (m.owned :: lives) := by
    intro m e1 e2 e3 e4
    have := h.wf.shrink [m.owned] (by
      intro x hx
      simp only [List.mem_singleton] at hx
      subst hx
      simp only [Meta.owned, Seg.ext, Seg.lo, Seg.hi, NODE]; omega) (by simp)
    simpa using this
  unfold A.finishSlow
  simp only []
  by_cases hv : (s.abs rest).validate (g.off + NODE + size) (g.size - size) = true
  · rw [if_pos hv]
    simp only []
    have hw := hshr ⟨g.off, g.size - (g.size - size), g.off + NODE, size⟩ rfl (by simp only; omega) rfl rfl
    have hc := h.relive hw
    have hd := h.wf.disjoint
    rw [List.pairwise_append, List.pairwise_cons] at hd
    have hfd := freelistDealloc_refines c s rest _ (g.off + NODE + size) (g.size - size) fuel hc hk hro
      (by unfold NODE; omega) (by unfold NODE; omega)
      (by
        intro g' hg'
        have := h.wf.free_live hg' (e := g.ext) List.mem_cons_self
        unfold disj
        simp only [Seg.ext, Seg.lo, Seg.hi, NODE] at *
        omega)
      (by
        intro e he
        rcases List.mem_cons.1 he with rfl | he
        · unfold disj; simp only [Meta.owned, NODE]; omega
        · have := hd.2.1.1 e he
          unfold disj at *
          simp only [Seg.ext, Seg.lo, Seg.hi, NODE] at *
          omega)
      hfuel
    simp only [] at hfd
    obtain ⟨s1, e1, st1, ci1, _⟩ := hfd
    have hsz1 := st1.size
    rw [finishSlow_eval_split c s rest _ _ _ _ _ s1 (by unfold NODE TWO32 at *; omega) hv e1
      (by unfold NODE at *; omega)]
    obtain ⟨z1, z2⟩ := zero_owned ci1 (g.off + NODE) size (by simp only [Meta.owned]; omega)
      (by simp only [Meta.owned]; omega)
    rw [st1.abs] at z2
    refine ⟨_, rfl, st1.drop.trans z2, z1, ?_⟩
    intro i hi1 hi2
    exact Mem.rd_zero_in _ _ _ _ hi1 hi2
  · rw [if_neg hv]
    simp only []
    rw [finishSlow_eval_nosplit c s rest _ _ _ _ (by unfold NODE TWO32 at *; omega) hv (by unfold NODE; omega)]
    have hw := hshr ⟨g.off, g.size, g.off + NODE, size⟩ rfl (Nat.le_refl _) rfl rfl
    have hc := h.relive hw
    obtain ⟨z1, z2⟩ := zero_owned hc (g.off + NODE) size (by simp only [Meta.owned]; omega)
      (by simp only [Meta.owned]; omega)
    refine ⟨_, rfl, z2, z1, ?_⟩
    intro i hi1 hi2
    exact Mem.rd_zero_in _ _ _ _ hi1 hi2

/-! ### unlinking a node -/

theorem rd_writeWord_out (m : Mem) (off v i : Nat) (h : i < off ∨ off + 8 ≤ i) : (m.writeWord off v).rd i = m.rd i := by
  unfold Mem.writeWord Mem.writeLE
  exact Mem.rd_update_out _ _ _ _ _ h

theorem readWord_congr (m m' : Mem) (off : Nat) (h : ∀ i, off ≤ i → i < off + 8 → m.rd i = m'.rd i) :
    m.readWord off = m'.readWord off := Mem.readLE_congr _ _ _ _ h

theorem hd_append_cons (pre : List Seg) (y : Seg) (t t' : List Seg) : hd (pre ++ y :: t) = hd (pre ++ y :: t') := by
  cases pre <;> rfl

/-- the state after node `g` has been unlinked: it represents `rest`, and `g`'s extent is owned -/
structure Unlinked (c : Cfg) (s s2 : St) (free : List Seg) (lives : List Ext) (g : Seg) (rest : List Seg) : Prop where
  inv : CInv c s2 rest (g.ext :: lives)
  alloc : s2.allocated = s.allocated
  minSeg : s2.minSeg = s.minSeg
  disc : s2.discarded = s.discarded
  size : s2.mem.size = s.mem.size
  frame : ∀ i, (∀ x ∈ free, i < x.off ∨ x.off + 8 ≤ i) → s2.mem.rd i = s.mem.rd i

theorem Unlinked.build (h : CInv c s free lives) (g : Seg) (rest : List Seg) (hp : free.Perm (g :: rest))
    (hsub : rest.Sublist free) (s2 : St) (ha : s2.allocated = s.allocated) (hm : s2.minSeg = s.minSeg)
    (hd' : s2.discarded = s.discarded) (hsz : s2.mem.size = s.mem.size) (hchain : Chain s2.mem rest)
    (hsent : s2.sentinel = enc MAXU32 (hd rest))
    (hfr : ∀ i, (∀ x ∈ free, i < x.off ∨ x.off + 8 ≤ i) → s2.mem.rd i = s.mem.rd i) :
    Unlinked c s s2 free lives g rest := by
  have hwf := h.wf.take g rest hp hsub
  have habs : s2.abs rest = { s.abs free with free := rest } := by
    simp [St.abs, St.cap, ha, hm, hd', hsz]
  refine ⟨⟨by rw [habs]; exact hwf, hchain, hsent, ?_, by rw [hm]; exact h.minSegLt, h.retriesOK⟩, ha, hm, hd', hsz, hfr⟩
  show s2.mem.size + 8192 ≤ TWO32
  rw [hsz]; exact h.cap_le

theorem unlink_head {g : Seg} {post : List Seg} (h : CInv c s (g :: post) lives) (s2 : St)
    (ha : s2.allocated = s.allocated) (hm : s2.minSeg = s.minSeg)
    (hd' : s2.discarded = s.discarded) (hsz : s2.mem.size = s.mem.size)
    (hsent : s2.sentinel = enc MAXU32 (hd post))
    (hfr : ∀ i, (i < g.off ∨ g.off + 8 ≤ i) → s2.mem.rd i = s.mem.rd i) :
    Unlinked c s s2 (g :: post) lives g post := by
  refine Unlinked.build h g post (List.Perm.refl _) (List.sublist_cons_self _ _) s2 ha hm hd' hsz ?_ hsent ?_
  · apply Chain.congr post (by omega) _ h.chain.tail
    intro x hx
    have := h.wf.apart.misses x hx
    exact readWord_congr _ _ _ (fun i hi1 hi2 => hfr i (by omega))
  · intro i hi
    exact hfr i (hi g List.mem_cons_self)

/-- splicing: the nodes before `y` keep their words, `y` now points to the head of `tl'` -/
theorem Chain.splice {m m' : Mem} (pre : List Seg) (y : Seg) (tl tl' : List Seg) (h : Chain m (pre ++ y :: tl))
    (hs : m.size ≤ m'.size) (hpre : ∀ x ∈ pre, m'.readWord x.off = m.readWord x.off)
    (hy : m'.readWord y.off = enc y.size (hd tl')) (ht : Chain m' tl') : Chain m' (pre ++ y :: tl') := by
  induction pre with
  | nil => exact ⟨by have := h.1; omega, hy, ht⟩
  | cons x pre ih =>
    refine ⟨by have := h.1; omega, ?_, ih h.2.2 (fun z hz => hpre z (List.mem_cons_of_mem _ hz))⟩
    rw [hpre x List.mem_cons_self]
    have := h.2.1
    exact this.trans (congrArg (enc x.size) (hd_append_cons pre y tl tl'))

theorem unlink_mid {pre : List Seg} {y g : Seg} {post : List Seg} (h : CInv c s (pre ++ y :: g :: post) lives) (s2 : St)
    (ha : s2.allocated = s.allocated) (hm : s2.minSeg = s.minSeg)
    (hd' : s2.discarded = s.discarded) (hsz : s2.mem.size = s.mem.size)
    (hsent : s2.sentinel = s.sentinel)
    (hfr : ∀ i, (i < g.off ∨ g.off + 8 ≤ i) → (i < y.off ∨ y.off + 8 ≤ i) → s2.mem.rd i = s.mem.rd i)
    (hy : s2.mem.readWord y.off = enc y.size (hd post)) :
    Unlinked c s s2 (pre ++ y :: g :: post) lives g (pre ++ y :: post) := by
  have hap := h.wf.apart
  simp only [St.abs, NodesApart, List.pairwise_append, List.pairwise_cons] at hap
  obtain ⟨_, ⟨hy', hg', _⟩, hpre⟩ := hap
  refine Unlinked.build h g (pre ++ y :: post) ?_ ?_ s2 ha hm hd' hsz ?_ ?_ ?_
  · have : (pre ++ y :: g :: post) = (pre ++ [y]) ++ g :: post := by simp
    rw [this]
    refine List.perm_middle.trans ?_
    simp
  · exact List.Sublist.append_left (List.Sublist.cons_cons _ (List.sublist_cons_self _ _)) _
  · apply Chain.splice pre y (g :: post) post h.chain (by omega)
    · intro x hx
      have h1 := hpre x hx y List.mem_cons_self
      have h2 := hpre x hx g (List.mem_cons_of_mem _ List.mem_cons_self)
      exact readWord_congr _ _ _ (fun i hi1 hi2 => hfr i (by omega) (by omega))
    · exact hy
    · apply Chain.congr post (by omega) _ (Chain.append_left h.chain).tail.tail
      intro x hx
      have h1 := hy' x (List.mem_cons_of_mem _ hx)
      have h2 := hg' x hx
      exact readWord_congr _ _ _ (fun i hi1 hi2 => hfr i (by omega) (by omega))
  · rw [hsent, h.sent, hd_append_cons pre y (g :: post) post]
  · intro i hi
    exact hfr i (hi g (by simp)) (hi y (by simp))

/-! ### the abstract slow path, case by case -/

theorem slow_none (a : A) (hro : c.ro = false) (hk : c.kind = .none) (size : Nat) :
    a.slow c size = (.error .insufficient, a) := by
  unfold A.slow; simp [hro, hk]

theorem slow_opt_nil (a : A) (hro : c.ro = false) (hk : c.kind = .opt) (hf : a.free = []) (size : Nat) :
    a.slow c size = (.error .insufficient, a) := by
  unfold A.slow; simp [hro, hk, hf]

theorem slow_opt_small (a : A) (hro : c.ro = false) (hk : c.kind = .opt) {g : Seg} {rest : List Seg}
    (hf : a.free = g :: rest) (size : Nat) (hs : size > g.size) :
    a.slow c size = (.error .insufficient, a) := by
  unfold A.slow; simp [hro, hk, hf, hs]

theorem slow_opt_cons (a : A) (hro : c.ro = false) (hk : c.kind = .opt) {g : Seg} {rest : List Seg}
    (hf : a.free = g :: rest) (size : Nat) (hs : size ≤ g.size) :
    a.slow c size = (.ok (({ a with free := rest }).finishSlow c g size).1,
      (({ a with free := rest }).finishSlow c g size).2) := by
  unfold A.slow; simp [hro, hk, hf, Nat.not_lt.2 hs]

theorem slow_pess_none (a : A) (hro : c.ro = false) (hk : c.kind = .pess) (size : Nat)
    (hf : takeFirst (fun g => decide (size ≤ g.size)) a.free = none) :
    a.slow c size = (.error .insufficient, a) := by
  unfold A.slow; simp [hro, hk, hf]

theorem slow_pess_some (a : A) (hro : c.ro = false) (hk : c.kind = .pess) (size : Nat) {g : Seg} {rest : List Seg}
    (hf : takeFirst (fun g => decide (size ≤ g.size)) a.free = some (g, rest)) :
    a.slow c size = (.ok (({ a with free := rest }).finishSlow c g size).1,
      (({ a with free := rest }).finishSlow c g size).2) := by
  unfold A.slow; simp [hro, hk, hf]

/-- what the slow path guarantees, phrased on the abstract answer `r` of `A.slow` -/
def SlowRefines (c : Cfg) (s : St) (lives : List Ext) (r : Except Err Meta × A) (res : M (AllocRes × St)) : Prop :=
  ∃ s', res = .ok (r.1, s') ∧
    match r.1 with
    | .ok m => StepOK c s s' r.2 lives ∧ CInv c s' r.2.free (m.owned :: lives) ∧ Zeroed s' m
    | .error _ => s' = s

theorem Unlinked.finish (h : CInv c s free lives) {g : Seg} {rest : List Seg} {s2 : St}
    (hu : Unlinked c s s2 free lives g rest)
    (hk : c.kind ≠ .none) (hro : c.ro = false) (size fuel : Nat) (hs : size ≤ g.size) (h0 : size ≠ 0)
    (hfuel : rest.length + 2 ≤ fuel) :
    SlowRefines c s lives (.ok (({ s.abs free with free := rest }).finishSlow c g size).1,
      (({ s.abs free with free := rest }).finishSlow c g size).2) (finishSlow c s2 g.off g.size size fuel) := by
  have habs : s2.abs rest = { s.abs free with free := rest } := by
    simp [St.abs, St.cap, hu.alloc, hu.minSeg, hu.disc, hu.size]
  obtain ⟨s', e1, st, ci, z⟩ := finishSlow_refines c s2 rest lives g size fuel hu.inv hk hro hs h0 hfuel
  rw [habs] at e1 st ci z
  refine ⟨s', e1, ⟨st.abs, st.size.trans hu.size, ?_, ?_⟩, ci, z⟩
  · intro e he i hi1 hi2
    rw [st.live e he i hi1 hi2]
    apply hu.frame
    intro x hx
    have := h.wf.free_live hx he
    omega
  · intro i hi
    rw [st.pre i hi]
    apply hu.frame
    intro x hx
    have := h.seg hx
    omega

theorem slowOpt_refines (h : CInv c s free lives) (hk : c.kind = .opt) (hro : c.ro = false)
    (size fuel tries : Nat) (h0 : size ≠ 0) (hfuel : free.length + 2 ≤ fuel) :
    SlowRefines c s lives ((s.abs free).slow c size) (slowOpt c size fuel (tries + 1) s) := by
  have hsent := h.sent
  cases free with
  | nil =>
    rw [slow_opt_nil _ hro hk rfl]
    refine ⟨s, ?_, rfl⟩
    have h1 : wnext (enc MAXU32 MAXU32) = MAXU32 := wnext_enc _ _ maxu32_lt
    have h2 : wsize (enc MAXU32 MAXU32) = MAXU32 := wsize_enc _ _ maxu32_lt
    simp only [slowOpt, hro, hsent, hd, h1, h2, Bool.false_eq_true, if_false, and_self, if_true]
    rfl
  | cons g rest =>
    have hg := h.seg List.mem_cons_self
    have hal := h.alloc_le
    have hcap := h.cap_le
    have hlo := h.wf.lo
    have hgl : g.off < TWO32 := by unfold TWO32 at *; omega
    have hnext : hd rest < TWO32 :=
      hd_lt rest (fun x hx => by have := h.seg (List.mem_cons_of_mem _ hx); unfold MAXU32 TWO32 at *; omega)
    have h1 : wnext (enc MAXU32 g.off) = g.off := wnext_enc _ _ hgl
    have h2 : wsize (enc MAXU32 g.off) = MAXU32 := wsize_enc _ _ hgl
    have h3 : wsize (enc g.size (hd rest)) = g.size := wsize_enc _ _ hnext
    have h4 : wnext (enc g.size (hd rest)) = hd rest := wnext_enc _ _ hnext
    have hb := h.chain.1
    have hw := h.chain.2.1
    have hne : g.off ≠ MAXU32 := by unfold MAXU32 TWO32 at *; omega
    simp only [slowOpt, hro, hsent, hd, h1, h2, Bool.false_eq_true, if_false]
    rw [if_neg (by intro hh; exact hne hh.2), if_neg (by intro hh; omega), readWord?_ok _ _ hb, hw]
    simp only [bind, Except.bind, h3, h4]
    rw [if_neg (by intro hh; omega)]
    by_cases hsz : size > g.size
    · rw [if_pos hsz, slow_opt_small _ hro hk rfl _ hsz]
      exact ⟨s, rfl, rfl⟩
    · rw [if_neg hsz, slow_opt_cons _ hro hk rfl _ (Nat.not_lt.1 hsz)]
      have hkn : c.kind ≠ .none := by rw [hk]; simp
      by_cases hs : c.sync = true
      · rw [if_pos hs, casLoc_node_ok s g.off _ _ hb hw]
        simp only [Bool.not_true, Bool.false_eq_true, if_false]
        rw [casLoc_hdr_ok { s with mem := s.mem.writeWord g.off (enc 0 (hd rest)) } (enc MAXU32 g.off) _ hsent]
        simp only [if_true]
        refine Unlinked.finish h (unlink_head h
          { s with mem := s.mem.writeWord g.off (enc 0 (hd rest)), sentinel := enc MAXU32 (hd rest) }
          rfl rfl rfl (by simp) rfl ?_) hkn hro size fuel
          (Nat.not_lt.1 hsz) h0 (by simp at hfuel; omega)
        intro i hi
        exact rd_writeWord_out _ _ _ _ hi
      · rw [if_neg hs]
        exact Unlinked.finish h (unlink_head h { s with sentinel := enc MAXU32 (hd rest) }
          rfl rfl rfl rfl rfl (fun _ _ => rfl)) hkn hro size fuel
          (Nat.not_lt.1 hsz) h0 (by simp at hfuel; omega)

/-- `find_prev_and_next` with the first-fit comparator finds the node `takeFirst` removes -/
theorem prevNextOf_split (val : Nat) (l : List Seg) (csz : Nat) (loc : Loc) :
    (takeFirst (fun g => decide (val ≤ g.size)) l = none ∧
      prevNextOf (fun v n => decide (v ≤ n)) val csz loc l = none) ∨
    (∃ g post, l = g :: post ∧ takeFirst (fun g => decide (val ≤ g.size)) l = some (g, post) ∧ val ≤ g.size ∧
      prevNextOf (fun v n => decide (v ≤ n)) val csz loc l = some (enc csz g.off, loc, enc g.size (hd post), g.off)) ∨
    (∃ pre y g post, l = pre ++ y :: g :: post ∧
      takeFirst (fun g => decide (val ≤ g.size)) l = some (g, pre ++ y :: post) ∧ val ≤ g.size ∧
      prevNextOf (fun v n => decide (v ≤ n)) val csz loc l =
        some (enc y.size g.off, .node y.off, enc g.size (hd post), g.off)) := by
  induction l generalizing csz loc with
  | nil => exact Or.inl ⟨rfl, rfl⟩
  | cons x xs ih =>
    by_cases hx : val ≤ x.size
    · refine Or.inr (Or.inl ⟨x, xs, rfl, ?_, hx, ?_⟩)
      · simp [takeFirst, hx]
      · simp [prevNextOf, hx]
    · rcases ih x.size (.node x.off) with ⟨h1, h2⟩ | ⟨g, post, h1, h2, h3, h4⟩ | ⟨pre, y, g, post, h1, h2, h3, h4⟩
      · refine Or.inl ⟨?_, ?_⟩
        · simp [takeFirst, hx, h1]
        · simp [prevNextOf, hx, h2]
      · refine Or.inr (Or.inr ⟨[], x, g, post, by simp [h1], ?_, h3, ?_⟩)
        · simp [takeFirst, hx, h2]
        · simp [prevNextOf, hx, h4]
      · refine Or.inr (Or.inr ⟨x :: pre, y, g, post, by simp [h1], ?_, h3, ?_⟩)
        · simp [takeFirst, hx, h2]
        · simp [prevNextOf, hx, h4]

theorem findPrevNext_ok (h : CInv c s free lives) (val fuel : Nat) (cmp : Nat → Nat → Bool) (hf : free.length < fuel) :
    findPrevNext c s val cmp fuel = .ok (prevNextOf cmp val MAXU32 .hdr free) := by
  have hal := h.alloc_le
  have hcap := h.cap_le
  have hsz : ∀ g ∈ free, g.size < TWO32 := fun g hg => by have := h.seg hg; unfold TWO32 at *; omega
  have hpos : ∀ g ∈ free, 1 ≤ g.size := fun g hg => (h.seg hg).2.1
  have hoff : ∀ g ∈ free, g.off < MAXU32 := fun g hg => by have := h.seg hg; unfold MAXU32 TWO32 at *; omega
  unfold findPrevNext
  rw [h.sent]
  split
  · exact findPrevNextS_spec s val cmp free h.chain hsz hpos hoff fuel hf .hdr MAXU32 (by unfold MAXU32; omega)
  · exact findPrevNextU_spec s val cmp free h.chain hsz hoff fuel hf .hdr MAXU32

theorem slowPess_refines (h : CInv c s free lives) (hk : c.kind = .pess) (hro : c.ro = false)
    (size fuel tries : Nat) (h0 : size ≠ 0) (hfuel : free.length + 2 ≤ fuel) :
    SlowRefines c s lives ((s.abs free).slow c size) (slowPess c size fuel (tries + 1) s) := by
  have hal := h.alloc_le
  have hcap := h.cap_le
  have hlo := h.wf.lo
  have hkn : c.kind ≠ .none := by rw [hk]; simp
  have hfind := findPrevNext_ok h size fuel (fun v n => decide (v ≤ n)) (by omega)
  simp only [slowPess, hro, Bool.false_eq_true, if_false, hfind, bind, Except.bind]
  rcases prevNextOf_split size free MAXU32 .hdr with ⟨h1, h2⟩ | ⟨g, post, h1, h2, h3, h4⟩ |
      ⟨pre, y, g, post, h1, h2, h3, h4⟩
  · rw [h2, slow_pess_none _ hro hk _ h1]
    exact ⟨s, rfl, rfl⟩
  · rw [h4, slow_pess_some _ hro hk _ h2]
    subst h1
    simp only []
    have hg := h.seg List.mem_cons_self
    have hgl : g.off < TWO32 := by unfold TWO32 at *; omega
    have hnext : hd post < TWO32 :=
      hd_lt post (fun x hx => by have := h.seg (List.mem_cons_of_mem _ hx); unfold MAXU32 TWO32 at *; omega)
    have e2 : wsize (enc MAXU32 g.off) = MAXU32 := wsize_enc _ _ hgl
    have e3 : wsize (enc g.size (hd post)) = g.size := wsize_enc _ _ hnext
    have e4 : wnext (enc g.size (hd post)) = hd post := wnext_enc _ _ hnext
    have hb := h.chain.1
    have hw := h.chain.2.1
    have hsent : s.sentinel = enc MAXU32 g.off := h.sent
    simp only [e2, e3, e4]
    rw [if_neg (by intro hh; have := hh.2; unfold MAXU32 at this; omega), if_neg (by intro hh; omega),
      subU_ok _ _ _ h3]
    by_cases hs : c.sync = true
    · rw [if_pos hs, casLoc_node_ok s g.off _ _ hb hw]
      simp only [Bool.not_true, Bool.false_eq_true, if_false]
      rw [casLoc_hdr_ok { s with mem := s.mem.writeWord g.off (enc 0 (hd post)) } (enc MAXU32 g.off) _ hsent]
      simp only [if_true]
      refine Unlinked.finish h (unlink_head h
        { s with mem := s.mem.writeWord g.off (enc 0 (hd post)), sentinel := enc MAXU32 (hd post) }
        rfl rfl rfl (by simp) rfl ?_) hkn hro size fuel h3 h0 (by simp at hfuel; omega)
      intro i hi
      exact rd_writeWord_out _ _ _ _ hi
    · rw [if_neg hs]
      simp only [St.writeLoc, pure, Except.pure]
      exact Unlinked.finish h (unlink_head h { s with sentinel := enc MAXU32 (hd post) }
        rfl rfl rfl rfl rfl (fun _ _ => rfl)) hkn hro size fuel h3 h0 (by simp at hfuel; omega)
  · rw [h4, slow_pess_some _ hro hk _ h2]
    subst h1
    simp only []
    have hy := h.seg (g := y) (by simp)
    have hg := h.seg (g := g) (by simp)
    have hgl : g.off < TWO32 := by unfold TWO32 at *; omega
    have hnext : hd post < TWO32 :=
      hd_lt post (fun x hx => by have := h.seg (g := x) (by simp [hx]); unfold MAXU32 TWO32 at *; omega)
    have e2 : wsize (enc y.size g.off) = y.size := wsize_enc _ _ hgl
    have e3 : wsize (enc g.size (hd post)) = g.size := wsize_enc _ _ hnext
    have e4 : wnext (enc g.size (hd post)) = hd post := wnext_enc _ _ hnext
    have hch := Chain.append_left h.chain
    have hyb : y.off + 8 ≤ s.mem.size := hch.1
    have hyw : s.mem.readWord y.off = enc y.size g.off := hch.2.1
    have hgb : g.off + 8 ≤ s.mem.size := hch.2.2.1
    have hgw : s.mem.readWord g.off = enc g.size (hd post) := hch.2.2.2.1
    have hap := h.wf.apart
    simp only [St.abs, NodesApart, List.pairwise_append, List.pairwise_cons] at hap
    have hyg := hap.2.1.1 g List.mem_cons_self
    have hlt : enc y.size (hd post) < TWO64 := enc_lt _ _ (by unfold TWO32 at *; omega) hnext
    simp only [e2, e3, e4]
    rw [if_neg (by intro hh; omega), if_neg (by intro hh; omega), subU_ok _ _ _ h3]
    by_cases hs : c.sync = true
    · rw [if_pos hs, casLoc_node_ok s g.off _ _ hgb hgw]
      simp only [Bool.not_true, Bool.false_eq_true, if_false]
      rw [casLoc_node_ok { s with mem := s.mem.writeWord g.off (enc 0 (hd post)) } y.off _ _ (by simpa using hyb)
        (by
          show (s.mem.writeWord g.off (enc 0 (hd post))).readWord y.off = _
          rw [Mem.readWord_writeWord_disjoint _ _ _ _ (by omega)]; exact hyw)]
      simp only [if_true]
      refine Unlinked.finish h (unlink_mid h
        { s with mem := (s.mem.writeWord g.off (enc 0 (hd post))).writeWord y.off (enc y.size (hd post)) }
        rfl rfl rfl (by simp) rfl ?_ ?_) hkn hro size fuel h3 h0 (by simp at hfuel ⊢; omega)
      · intro i hi1 hi2
        show ((s.mem.writeWord g.off (enc 0 (hd post))).writeWord y.off (enc y.size (hd post))).rd i = _
        rw [rd_writeWord_out _ _ _ _ hi2, rd_writeWord_out _ _ _ _ hi1]
      · exact Mem.readWord_writeWord_same _ _ _ (by simpa using hyb) hlt
    · rw [if_neg hs]
      simp only [St.writeLoc, bind, Except.bind, writeWord?_ok _ _ _ hyb, pure, Except.pure]
      refine Unlinked.finish h (unlink_mid h
        { s with mem := s.mem.writeWord y.off (enc y.size (hd post)) }
        rfl rfl rfl (by simp) rfl ?_ ?_) hkn hro size fuel h3 h0 (by simp at hfuel ⊢; omega)
      · intro i hi1 hi2
        exact rd_writeWord_out _ _ _ _ hi2
      · exact Mem.readWord_writeWord_same _ _ _ hyb hlt

theorem slowPath_refines (h : CInv c s free lives) (hro : c.ro = false) (size fuel : Nat) (h0 : size ≠ 0)
    (hfuel : free.length + 2 ≤ fuel) :
    SlowRefines c s lives ((s.abs free).slow c size) (slowPath c s size fuel) := by
  obtain ⟨t, rfl⟩ : ∃ t, fuel = t + 1 := ⟨fuel - 1, by omega⟩
  unfold slowPath
  cases hk : c.kind with
  | none =>
    simp only []
    rw [slow_none _ hro hk]
    exact ⟨s, rfl, rfl⟩
  | opt => exact slowOpt_refines h hk hro size (t + 1) t h0 hfuel
  | pess => exact slowPess_refines h hk hro size (t + 1) t h0 hfuel

theorem retryLoop_ok (c : Cfg) (s s1 : St) (size fuel : Nat) (post : Meta → M Meta) (m : Meta)
    (hsp : slowPath c s size fuel = .ok (.ok m, s1)) (n i : Nat) :
    retryLoop c size fuel post (n + 1) i s = (do let m' ← post m; pure (.ok m', s1)) := by
  simp only [retryLoop, hsp, bind, Except.bind]

/-- the retry loop on a slow path that fails without changing the state: the loop index stays at or below
    `last = c.retries - 1` (truncated subtraction, `saturating_sub(1)` in the code — with `retries = 0` and with
    `retries = 1` the loop gives up at `i = 0`), the measure is `last - i` -/
theorem retryLoop_err (c : Cfg) (s : St) (size fuel : Nat) (post : Meta → M Meta) (e : Err)
    (hr : c.kind ≠ .none → c.retries ≤ 255)
    (hsp : slowPath c s size fuel = .ok (.error e, s)) :
    ∀ n i, i ≤ c.retries - 1 ∨ c.kind = .none → c.retries - 1 - i < n →
      retryLoop c size fuel post n i s = .ok (.error e, s) := by
  intro n
  induction n with
  | zero => intro i _ h; omega
  | succ n ih =>
    intro i hi hn
    simp only [retryLoop, hsp, bind, Except.bind]
    by_cases hk : c.kind = .none
    · rw [if_pos hk]; rfl
    · rw [if_neg hk]
      have hr := hr hk
      have hi : i ≤ c.retries - 1 := by rcases hi with hi | hi; exact hi; exact absurd hi hk
      by_cases hl : i = c.retries - 1
      · rw [if_pos hl]; rfl
      · rw [if_neg hl, if_pos (by omega)]
        simp only [pure, Except.pure]
        exact ih (i + 1) (Or.inl (by omega)) (by omega)

theorem slowEntry_refines (h : CInv c s free lives) (hro : c.ro = false) (size fuel : Nat) (h0 : size ≠ 0)
    (hfuel : free.length + 2 ≤ fuel) (post : Meta → M Meta) (postS : Meta → Meta)
    (hpost : ∀ m : Meta, m.ptrSize = size → m.ptrOff + m.ptrSize ≤ s.mem.size →
      post m = .ok (postS m) ∧ (postS m).memOff = m.memOff ∧ (postS m).memSize = m.memSize ∧
      m.ptrOff ≤ (postS m).ptrOff ∧ (postS m).ptrOff + (postS m).ptrSize ≤ m.ptrOff + m.ptrSize) (zero : Bool) :
    AllocRefines c s free lives ((s.abs free).slowEntry c size postS)
      (do let r ← slowEntry c s size fuel post; pure (liftRes r)) zero := by
  obtain ⟨s', e1, hm⟩ := slowPath_refines h hro size fuel h0 hfuel
  unfold A.slowEntry
  rcases hr : (s.abs free).slow c size with ⟨(e | m), a'⟩
  · rw [hr] at e1 hm
    simp only [] at e1 hm
    rw [hm] at e1
    obtain ⟨rfl, _⟩ := slow_err hr
    have hent : slowEntry c s size fuel post = .ok (.error e, s) := by
      unfold slowEntry
      split
      · rename_i hs
        exact retryLoop_err c s size fuel post e (fun _ => h.retriesOK hs) e1 300 0
          (Or.inl (Nat.zero_le _)) (by have := h.retriesOK hs; omega)
      · simp only [e1, bind, Except.bind, pure, Except.pure]
    rw [hent]
    exact ⟨s, rfl, StepOK.rfl' c s free lives, rfl⟩
  · rw [hr] at e1 hm
    simp only [] at e1 hm
    obtain ⟨st, ci, z⟩ := hm
    have sp := slow_post h.wf size h0 m a' hr
    have hin := sp.wf.lives_in _ List.mem_cons_self
    have hal := h.alloc_le
    have haeq : a'.allocated = s.allocated := sp.alloc_eq
    obtain ⟨p1, p2, p3, p4, p5⟩ := hpost m sp.psize (by simp only [Meta.owned] at hin; omega)
    have hent : slowEntry c s size fuel post = .ok (.ok (postS m), s') := by
      unfold slowEntry
      split
      · rw [retryLoop_ok c s s' size fuel post m e1, p1]; rfl
      · simp only [e1, bind, Except.bind, p1, pure, Except.pure]
    rw [hent]
    have ap := AllocPost.of_slow sp (postS m) p2 p3 p4 p5
    refine ⟨s', rfl, st, ci.relive (by rw [st.abs]; exact ap.wf), fun _ => ?_⟩
    intro i hi1 hi2
    exact z i (by omega) (by omega)

theorem AllocRefines.err (c : Cfg) (s : St) (free : List Seg) (lives : List Ext) (e : Err) (zero : Bool) :
    AllocRefines c s free lives (.error e, s.abs free) (.ok (.error e, s)) zero :=
  ⟨s, rfl, StepOK.rfl' c s free lives, rfl⟩

theorem AllocRefines.none (c : Cfg) (s : St) (free : List Seg) (lives : List Ext) (zero : Bool) :
    AllocRefines c s free lives (.ok none, s.abs free) (.ok (.ok none, s)) zero :=
  ⟨s, rfl, StepOK.rfl' c s free lives, rfl⟩

theorem AllocRefines.weaken {r : AOut × A} {res : M (AllocOut × St)}
    (h : AllocRefines c s free lives r res true) (zero : Bool) : AllocRefines c s free lives r res zero := by
  obtain ⟨s', e1, st, hm⟩ := h
  refine ⟨s', e1, st, ?_⟩
  split
  · rename_i m hm'
    rw [hm'] at hm
    exact ⟨hm.1, fun _ => hm.2 rfl⟩
  · rename_i hne
    split at hm
    · rename_i m hm'
      exact absurd hm' (hne m)
    · exact hm

theorem okAlignment_bounds {a : Nat} (h : okAlignment a) : 1 ≤ a ∧ a ≤ 64 := by
  rcases h with rfl | rfl | rfl | rfl | rfl | rfl | rfl <;> omega

end

theorem allocBytes_refines (c : Cfg) (s : St) (free : List Seg) (lives : List Ext) (n fuel : Nat)
    (h : CInv c s free lives) (hn : n < TWO32) (hfuel : free.length + 2 ≤ fuel) :
    AllocRefines c s free lives ((s.abs free).allocBytes c n) (allocBytes c s n fuel) true := by
  have hcap := h.cap_le
  have hal := h.alloc_le
  by_cases hro : c.ro = true
  · have hr : (s.abs free).allocBytes c n = (.error .readOnly, s.abs free) := by
      unfold A.allocBytes; rw [if_pos hro]
    have hc : allocBytes c s n fuel = .ok (.error .readOnly, s) := by
      unfold allocBytes; rw [if_pos hro]; rfl
    rw [hr, hc]; exact AllocRefines.err ..
  · by_cases h0 : n = 0
    · have hr : (s.abs free).allocBytes c n = (.ok none, s.abs free) := by
        unfold A.allocBytes; rw [if_neg hro, if_pos h0]
      have hc : allocBytes c s n fuel = .ok (.ok none, s) := by
        unfold allocBytes; rw [if_neg hro, if_pos h0]; rfl
      rw [hr, hc]; exact AllocRefines.none ..
    · by_cases hfit : s.allocated + n ≤ s.mem.size
      · have hr : (s.abs free).allocBytes c n =
            (.ok (some (Meta.new s.allocated n)), { s.abs free with allocated := s.allocated + n }) := by
          unfold A.allocBytes
          rw [if_neg hro, if_neg h0, if_pos (show (s.abs free).allocated + n ≤ (s.abs free).cap from hfit)]
          rfl
        have hc : allocBytes c s n fuel = .ok (.ok (some (Meta.new s.allocated n)),
            { s with allocated := s.allocated + n, mem := s.mem.zero s.allocated n }) := by
          unfold allocBytes
          rw [if_neg hro, if_neg h0, checkedAdd_filter_some _ _ _ (show s.allocated + n ≤ s.cap from hfit)
            (show s.mem.size < TWO32 by omega)]
          simp only []
          rw [clearMeta_ok _ _ (by simpa [Meta.new] using hfit)]
          rfl
        have hwf := (allocBytes_ok c _ _ lives n _ h.wf hr).1.wf
        rw [hr, hc]
        obtain ⟨b1, b2⟩ := bump_refines h (Meta.new s.allocated n) (s.allocated + n) (s.mem.zero s.allocated n) hwf
          (by simp) (fun i hi => Mem.rd_zero_out _ _ _ _ (Or.inl hi))
        refine ⟨_, rfl, b1, b2, fun _ => ?_⟩
        intro i hi1 hi2
        exact Mem.rd_zero_in _ _ _ _ hi1 hi2
      · have hr : (s.abs free).allocBytes c n = (s.abs free).slowEntry c n id := by
          unfold A.allocBytes
          rw [if_neg hro, if_neg h0, if_neg (show ¬ (s.abs free).allocated + n ≤ (s.abs free).cap from hfit)]
        have hc : allocBytes c s n fuel = (do let r ← slowEntry c s n fuel pure; pure (liftRes r)) := by
          unfold allocBytes
          rw [if_neg hro, if_neg h0, checkedAdd_filter_none _ _ _ (show ¬ s.allocated + n ≤ s.cap from hfit)]
        rw [hr, hc]
        exact slowEntry_refines h (by simpa using hro) n fuel h0 hfuel pure id
          (fun m _ _ => ⟨rfl, rfl, rfl, Nat.le_refl _, Nat.le_refl _⟩) true

theorem allocT_refines (c : Cfg) (s : St) (free : List Seg) (lives : List Ext) (tsize talign fuel : Nat)
    (h : CInv c s free lives) (ht : TyOK tsize talign) (hfuel : free.length + 2 ≤ fuel) :
    AllocRefines c s free lives ((s.abs free).allocT c tsize talign) (allocT c s tsize talign fuel) true := by
  have hcap := h.cap_le
  have hal := h.alloc_le
  obtain ⟨hta, _, hts⟩ := ht
  have hab := okAlignment_bounds hta
  have hge := alignUp_ge talign
  have hlt := alignUp_lt talign
  by_cases hro : c.ro = true
  · have hr : (s.abs free).allocT c tsize talign = (.error .readOnly, s.abs free) := by
      unfold A.allocT; rw [if_pos hro]
    have hc : allocT c s tsize talign fuel = .ok (.error .readOnly, s) := by
      unfold allocT; rw [if_pos hro]; rfl
    rw [hr, hc]; exact AllocRefines.err ..
  · by_cases h0 : tsize = 0
    · have hr : (s.abs free).allocT c tsize talign = (.ok none, s.abs free) := by
        unfold A.allocT; rw [if_neg hro, if_pos h0]
      have hc : allocT c s tsize talign fuel = .ok (.ok none, s) := by
        unfold allocT; rw [if_neg hro, if_pos h0]; rfl
      rw [hr, hc]; exact AllocRefines.none ..
    · have h1 := hge s.allocated hta
      have h2 := hlt s.allocated hta
      have hao : alignOffset talign s.allocated = .ok (alignUp talign s.allocated) :=
        alignOffset_ok _ _ (by unfold TWO32 at *; omega)
      have hadd : addU32 "aligned+size" (alignUp talign s.allocated) tsize = .ok (alignUp talign s.allocated + tsize) :=
        addU32_ok _ _ _ (by unfold TWO32 at *; omega)
      by_cases hfit : alignUp talign s.allocated + tsize ≤ s.mem.size
      · have hr : (s.abs free).allocT c tsize talign =
            (.ok (some ((Meta.new s.allocated (alignUp talign s.allocated + tsize - s.allocated)).alignToS talign tsize)),
              { s.abs free with allocated := alignUp talign s.allocated + tsize }) := by
          unfold A.allocT
          rw [if_neg hro, if_neg h0]
          simp only []
          rw [if_pos (show alignUp talign (s.abs free).allocated + tsize ≤ (s.abs free).cap from hfit)]
          rfl
        have hc : allocT c s tsize talign fuel =
            .ok (.ok (some ((Meta.new s.allocated (alignUp talign s.allocated + tsize - s.allocated)).alignToS talign tsize)),
              { s with allocated := alignUp talign s.allocated + tsize,
                       mem := s.mem.zero (alignUp talign s.allocated) tsize }) := by
          unfold allocT
          rw [if_neg hro, if_neg h0, hao]
          simp only [bind, Except.bind, hadd]
          rw [if_pos (show alignUp talign s.allocated + tsize ≤ s.cap from hfit),
            alignTo_ok _ _ _ (by simp only [Meta.new]; unfold TWO32 at *; omega)]
          simp only []
          rw [clearMeta_ok _ _ (by simpa [Meta.new, Meta.alignToS] using hfit)]
          rfl
        have hwf := (allocT_ok c _ _ lives tsize talign _ h.wf ⟨hta, by assumption⟩ hr).1.wf
        rw [hr, hc]
        obtain ⟨b1, b2⟩ := bump_refines h _ (alignUp talign s.allocated + tsize)
          (s.mem.zero (alignUp talign s.allocated) tsize) hwf
          (by simp) (fun i hi => Mem.rd_zero_out _ _ _ _ (Or.inl (by omega)))
        refine ⟨_, rfl, b1, b2, fun _ => ?_⟩
        intro i hi1 hi2
        exact Mem.rd_zero_in _ _ _ _ hi1 hi2
      · have hr : (s.abs free).allocT c tsize talign =
            (s.abs free).slowEntry c (pad tsize talign) (fun m => m.alignToS talign tsize) := by
          unfold A.allocT
          rw [if_neg hro, if_neg h0]
          simp only []
          rw [if_neg (show ¬ alignUp talign (s.abs free).allocated + tsize ≤ (s.abs free).cap from hfit)]
        have hc : allocT c s tsize talign fuel =
            (do let r ← slowEntry c s (pad tsize talign) fuel (fun m => m.alignTo talign tsize); pure (liftRes r)) := by
          unfold allocT
          rw [if_neg hro, if_neg h0, hao]
          simp only [bind, Except.bind, hadd]
          rw [if_neg (show ¬ alignUp talign s.allocated + tsize ≤ s.cap from hfit)]
        rw [hr, hc]
        refine slowEntry_refines h (by simpa using hro) _ fuel (by unfold pad; omega) hfuel _ _ ?_ true
        intro m hm1 hm2
        have g1 := hge m.ptrOff hta
        have g2 := hlt m.ptrOff hta
        unfold pad at hm1
        refine ⟨alignTo_ok _ _ _ (by unfold TWO32 at *; omega), rfl, rfl, ?_, ?_⟩
        · simp only [Meta.alignToS]; exact g1
        · simp only [Meta.alignToS]; omega

theorem allocAligned_refines (c : Cfg) (s : St) (free : List Seg) (lives : List Ext) (tsize talign extra fuel : Nat)
    (h : CInv c s free lives) (ht : TyOK tsize talign) (he : extra < TWO32) (hfuel : free.length + 2 ≤ fuel) :
    AllocRefines c s free lives ((s.abs free).allocAligned c tsize talign extra)
      (allocAligned c s tsize talign extra fuel) false := by
  have hcap := h.cap_le
  have hal := h.alloc_le
  obtain ⟨hta, htm, hts⟩ := ht
  have hab := okAlignment_bounds hta
  have hge := alignUp_ge talign
  have hlt := alignUp_lt talign
  by_cases hro : c.ro = true
  · have hr : (s.abs free).allocAligned c tsize talign extra = (.error .readOnly, s.abs free) := by
      unfold A.allocAligned; rw [if_pos hro]
    have hc : allocAligned c s tsize talign extra fuel = .ok (.error .readOnly, s) := by
      unfold allocAligned; rw [if_pos hro]; rfl
    rw [hr, hc]; exact AllocRefines.err ..
  · by_cases hz : tsize = 0 ∧ (extra = 0 ∨ talign = 1)
    · have hr : (s.abs free).allocAligned c tsize talign extra = (s.abs free).allocBytes c extra := by
        unfold A.allocAligned; rw [if_neg hro, if_pos hz]
      have hc : allocAligned c s tsize talign extra fuel = allocBytes c s extra fuel := by
        unfold allocAligned; rw [if_neg hro, if_pos hz]
      rw [hr, hc]
      exact (allocBytes_refines c s free lives extra fuel h he hfuel).weaken false
    · have h1 := hge s.allocated hta
      have h2 := hlt s.allocated hta
      have hao : alignOffset talign s.allocated = .ok (alignUp talign s.allocated) :=
        alignOffset_ok _ _ (by unfold TWO32 at *; omega)
      have hadd : addU32 "aligned+size" (alignUp talign s.allocated) tsize = .ok (alignUp talign s.allocated + tsize) :=
        addU32_ok _ _ _ (by unfold TWO32 at *; omega)
      by_cases hfit : alignUp talign s.allocated + tsize + extra ≤ s.mem.size
      · have hr : (s.abs free).allocAligned c tsize talign extra =
            (.ok (some ((Meta.new s.allocated
                (alignUp talign s.allocated + tsize + extra - s.allocated)).alignBytesToS talign)),
              { s.abs free with allocated := alignUp talign s.allocated + tsize + extra }) := by
          unfold A.allocAligned
          rw [if_neg hro, if_neg hz]
          simp only []
          rw [if_pos (show alignUp talign (s.abs free).allocated + tsize + extra ≤ (s.abs free).cap from hfit)]
          rfl
        have hc : allocAligned c s tsize talign extra fuel =
            .ok (.ok (some ((Meta.new s.allocated
                (alignUp talign s.allocated + tsize + extra - s.allocated)).alignBytesToS talign)),
              { s with allocated := alignUp talign s.allocated + tsize + extra }) := by
          unfold allocAligned
          rw [if_neg hro, if_neg hz, hao]
          simp only [bind, Except.bind, hadd]
          rw [checkedAdd_filter_some _ _ _ (show alignUp talign s.allocated + tsize + extra ≤ s.cap from hfit)
            (show s.mem.size < TWO32 by omega)]
          simp only []
          rw [alignBytesTo_ok _ _ (by simp only [Meta.new]; unfold TWO32 at *; omega)
            (by simp only [Meta.new]; unfold TWO32 at *; omega) (by simp only [Meta.new]; omega)]
          rfl
        have hwf := (allocAligned_ok c _ _ lives tsize talign extra _ h.wf ⟨hta, htm⟩ hr).1.wf
        rw [hr, hc]
        obtain ⟨b1, b2⟩ := bump_refines h _ (alignUp talign s.allocated + tsize + extra) s.mem hwf rfl (fun _ _ => rfl)
        exact ⟨_, rfl, b1, b2, fun hf => by cases hf⟩
      · by_cases hp : pad tsize talign + extra < TWO32
        · have hr : (s.abs free).allocAligned c tsize talign extra =
              (s.abs free).slowEntry c (pad tsize talign + extra) (fun m => m.alignBytesToS talign) := by
            unfold A.allocAligned
            rw [if_neg hro, if_neg hz]
            simp only []
            rw [if_neg (show ¬ alignUp talign (s.abs free).allocated + tsize + extra ≤ (s.abs free).cap from hfit),
              if_pos hp]
          have hc : allocAligned c s tsize talign extra fuel =
              (do let r ← slowEntry c s (pad tsize talign + extra) fuel (fun m => m.alignBytesTo talign)
                  pure (liftRes r)) := by
            unfold allocAligned
            rw [if_neg hro, if_neg hz, hao]
            simp only [bind, Except.bind, hadd]
            rw [checkedAdd_filter_none _ _ _ (show ¬ alignUp talign s.allocated + tsize + extra ≤ s.cap from hfit)]
            simp only [checkedAddU32, if_pos hp]
          rw [hr, hc]
          refine slowEntry_refines h (by simpa using hro) _ fuel (by unfold pad; omega) hfuel _ _ ?_ false
          intro m hm1 hm2
          have g1 := hge m.ptrOff hta
          have g2 := hlt m.ptrOff hta
          unfold pad at hm1
          refine ⟨alignBytesTo_ok _ _ (by unfold TWO32 at *; omega) (by unfold TWO32 at *; omega) (by omega),
            rfl, rfl, ?_, ?_⟩
          · simp only [Meta.alignBytesToS]; exact g1
          · simp only [Meta.alignBytesToS]; omega
        · have hr : (s.abs free).allocAligned c tsize talign extra = (.error .insufficient, s.abs free) := by
            unfold A.allocAligned
            rw [if_neg hro, if_neg hz]
            simp only []
            rw [if_neg (show ¬ alignUp talign (s.abs free).allocated + tsize + extra ≤ (s.abs free).cap from hfit),
              if_neg hp]
          have hc : allocAligned c s tsize talign extra fuel = .ok (.error .insufficient, s) := by
            unfold allocAligned
            rw [if_neg hro, if_neg hz, hao]
            simp only [bind, Except.bind, hadd]
            rw [checkedAdd_filter_none _ _ _ (show ¬ alignUp talign s.allocated + tsize + extra ≤ s.cap from hfit)]
            simp only [checkedAddU32, if_neg hp]
            rfl
          rw [hr, hc]; exact AllocRefines.err ..

end Rarena
