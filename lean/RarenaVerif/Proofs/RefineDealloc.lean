/-
  Proofs.RefineDealloc — `Core.dealloc` (both flavours) refines `A.dealloc`: same result, the new concrete
  state represents the new abstract state, only bytes of the released extent and node words of free
  segments are written.
-/
import RarenaVerif.Proofs.RefineDefs
import RarenaVerif.Proofs.SpecWF

set_option linter.unusedVariables false

namespace Rarena

/-! ### helpers (prefixed `dl_` to stay clear of the helper names of the files importing this one) -/

theorem dl_incDiscarded_abs (c : Cfg) (s : St) (free : List Seg) (n : Nat) :
    (s.incDiscarded c n).abs free = (s.abs free).incDiscarded c n := by
  unfold St.incDiscarded A.incDiscarded
  split <;> rfl

theorem dl_incDiscarded_mem (c : Cfg) (s : St) (n : Nat) : (s.incDiscarded c n).mem = s.mem := by
  unfold St.incDiscarded; split <;> rfl
theorem dl_incDiscarded_sentinel (c : Cfg) (s : St) (n : Nat) : (s.incDiscarded c n).sentinel = s.sentinel := by
  unfold St.incDiscarded; split <;> rfl
theorem dl_incDiscarded_minSeg (c : Cfg) (s : St) (n : Nat) : (s.incDiscarded c n).minSeg = s.minSeg := by
  unfold St.incDiscarded; split <;> rfl

/-- a state with the same memory size and `minSeg` that represents a well-formed abstract state -/
theorem dl_cinv_of {c : Cfg} {s s' : St} {free : List Seg} {lives lives' : List Ext} {a' : A}
    (h : CInv c s free lives) (habs : s'.abs a'.free = a') (hwf : WF c a' lives')
    (hch : Chain s'.mem a'.free) (hsent : s'.sentinel = enc MAXU32 (hd a'.free))
    (hsize : s'.mem.size = s.mem.size) (hmin : s'.minSeg = s.minSeg) : CInv c s' a'.free lives' := by
  refine ⟨by rw [habs]; exact hwf, hch, hsent, ?_, by rw [hmin]; exact h.minSegLt, h.retriesOK⟩
  have := h.capGuard
  unfold St.cap at *
  omega

theorem dl_stepOK_of_frame {c : Cfg} {s s' : St} {free : List Seg} {lives : List Ext} {a' : A} (off size : Nat)
    (h : CInv c s free lives) (habs : s'.abs a'.free = a') (hsize : s'.mem.size = s.mem.size)
    (hlo : c.dataOffset ≤ off) (hdl : ∀ e ∈ lives, disj (off, off + size) e)
    (hfr : ∀ i, (i < off ∨ off + size ≤ i) → (∀ g ∈ free, i < g.off ∨ g.off + 8 ≤ i) →
      s'.mem.rd i = s.mem.rd i) : StepOK c s s' a' lives := by
  have hd := h.wf.disjoint
  rw [List.pairwise_append] at hd
  obtain ⟨_, _, hFL⟩ := hd
  refine ⟨habs, hsize, ?_, ?_⟩
  · intro e he i h1 h2
    apply hfr
    · have := hdl e he
      unfold disj at this
      simp only at this
      omega
    · intro g hg
      have := hFL g.ext (List.mem_map_of_mem hg) e he
      unfold disj at this
      simp only [Seg.ext, Seg.lo, Seg.hi, NODE] at this
      omega
  · intro i hi
    apply hfr
    · omega
    · intro g hg
      have := (h.wf.segs g hg).2.2.1
      omega

/-- the byte range released is added to the owned extents -/
theorem dl_wf_add {c : Cfg} {a : A} {lives : List Ext} (hw : WF c a lives) (e : Ext)
    (h1 : c.dataOffset ≤ e.1) (h2 : e.1 < e.2) (h3 : e.2 ≤ a.allocated)
    (hdf : ∀ g ∈ a.free, disj e g.ext) (hdl : ∀ x ∈ lives, disj e x) : WF c a (e :: lives) := by
  have hd := hw.disjoint
  rw [List.pairwise_append] at hd
  obtain ⟨hF, hL, hFL⟩ := hd
  refine { hw with disjoint := ?_, lives_in := ?_ }
  · rw [List.pairwise_append, List.pairwise_cons]
    refine ⟨hF, ⟨hdl, hL⟩, ?_⟩
    intro x hx y hy
    rcases List.mem_cons.1 hy with rfl | hy
    · obtain ⟨g, hg, rfl⟩ := List.mem_map.1 hx
      exact disj_symm (hdf g hg)
    · exact hFL x hx y hy
  · intro x hx
    rcases List.mem_cons.1 hx with rfl | hx
    · exact ⟨h1, h2, h3⟩
    · exact hw.lives_in x hx

theorem dl_apart {c : Cfg} {a : A} {lives : List Ext} (hw : WF c a lives) : NodesApart a.free := by
  have hd := hw.disjoint
  rw [List.pairwise_append] at hd
  have hF := hd.1
  rw [List.pairwise_map] at hF
  unfold NodesApart
  refine List.Pairwise.imp ?_ hF
  intro x y hxy
  unfold disj at hxy
  simp only [Seg.ext, Seg.lo, Seg.hi, NODE] at hxy
  omega

/-- bounds of the free segments of a represented state -/
theorem dl_seg_bounds {c : Cfg} {s : St} {free : List Seg} {lives : List Ext} (h : CInv c s free lives)
    (g : Seg) (hg : g ∈ free) :
    g.size < TWO32 ∧ 1 ≤ g.size ∧ g.off < MAXU32 ∧ g.off + 8 + g.size ≤ s.allocated := by
  have h1 := h.wf.segs g hg
  have h2 := h.wf.hi
  have h3 := h.capGuard
  unfold SegOK at h1
  simp only [Seg.hi, NODE, St.abs, St.cap] at *
  unfold MAXU32 TWO32 at *
  omega

/-- `try_new_segment` of both models agree -/
theorem dl_tryNew (c : Cfg) (s : St) (free : List Seg) (off size : Nat) (h : off + 7 < TWO32) :
    (tryNewSegment c s off size = .ok (none, s) ∧ (s.abs free).tryNew c off size = (none, s.abs free)) ∨
    (tryNewSegment c s off size = .ok (none, s.incDiscarded c size) ∧
      (s.abs free).tryNew c off size = (none, (s.abs free).incDiscarded c size)) ∨
    (tryNewSegment c s off size = .ok (some ⟨alignUp 8 off, alignUp 8 off + NODE,
        size - (alignUp 8 off - off + NODE)⟩, s) ∧
      (s.abs free).tryNew c off size = (some ⟨alignUp 8 off, size - (alignUp 8 off - off + NODE)⟩, s.abs free) ∧
      alignUp 8 off - off + NODE < size) := by
  have hal : alignOffset 8 off = .ok (alignUp 8 off) := by
    unfold alignOffset alignUp
    rw [if_pos (by omega)]; rfl
  unfold tryNewSegment A.tryNew
  by_cases h0 : off = 0 ∨ size = 0
  · left; simp only [if_pos h0]; exact ⟨rfl, trivial⟩
  · right
    simp only [if_neg h0, hal, bind, Except.bind]
    by_cases h1 : alignUp 8 off - off + NODE ≥ size
    · left; simp only [if_pos h1]; exact ⟨rfl, trivial⟩
    · simp only [if_neg h1]
      by_cases h2 : size - (alignUp 8 off - off + NODE) < s.minSeg
      · left
        have h2' : size - (alignUp 8 off - off + NODE) < (s.abs free).minSeg := h2
        simp only [if_pos h2, if_pos h2']; exact ⟨rfl, trivial⟩
      · right
        have h2' : ¬ size - (alignUp 8 off - off + NODE) < (s.abs free).minSeg := h2
        simp only [if_neg h2, if_neg h2']
        exact ⟨rfl, trivial, by omega⟩


/-- `optimistic_dealloc` / `pessimistic_dealloc` of a byte range `[off, off+size)` that lies inside the data
    area below the cursor and is disjoint from every free segment and every extent of `lives` -/
theorem freelistDealloc_refines (c : Cfg) (s : St) (free : List Seg) (lives : List Ext) (off size fuel : Nat)
    (h : CInv c s free lives) (hk : c.kind ≠ .none) (hro : c.ro = false)
    (hlo : c.dataOffset ≤ off) (hhi : off + size ≤ s.allocated)
    (hdf : ∀ g ∈ free, disj (off, off + size) g.ext) (hdl : ∀ e ∈ lives, disj (off, off + size) e)
    (hfuel : free.length + 2 ≤ fuel) :
    let r := (s.abs free).freelistDealloc c off size
    ∃ s', freelistDealloc c s off size fuel = .ok (r.1, s') ∧ StepOK c s s' r.2 lives ∧
      CInv c s' r.2.free lives ∧
      (∀ i, (i < off ∨ off + size ≤ i) → (∀ g ∈ free, i < g.off ∨ g.off + 8 ≤ i) → s'.mem.rd i = s.mem.rd i) := by
  intro r
  have hcap := h.capGuard
  have hal : s.allocated ≤ s.mem.size := h.wf.hi
  have hoff7 : off + 7 < TWO32 := by unfold St.cap at hcap; unfold TWO32 at *; omega
  obtain ⟨t, rfl⟩ : ∃ t, fuel = t + 1 := ⟨fuel - 1, by omega⟩
  rcases dl_tryNew c s free off size hoff7 with ⟨h1, h2⟩ | ⟨h1, h2⟩ | ⟨h1, h2, hlt⟩
  · have hr : r = (false, s.abs free) := by
      show (s.abs free).freelistDealloc c off size = _
      unfold A.freelistDealloc; rw [h2]
    rw [hr]
    refine ⟨s, ?_, ⟨rfl, rfl, fun _ _ _ _ _ => rfl, fun _ _ => rfl⟩, h, fun _ _ _ => rfl⟩
    unfold freelistDealloc; rw [h1]; rfl
  · have hr : r = (false, (s.abs free).incDiscarded c size) := by
      show (s.abs free).freelistDealloc c off size = _
      unfold A.freelistDealloc; rw [h2]
    rw [hr]
    have habs : (s.incDiscarded c size).abs ((s.abs free).incDiscarded c size).free =
        (s.abs free).incDiscarded c size := by
      rw [incDiscarded_free]; exact dl_incDiscarded_abs c s free size
    have hmem := dl_incDiscarded_mem c s size
    refine ⟨s.incDiscarded c size, ?_, ⟨habs, by rw [hmem], ?_, ?_⟩, ?_, ?_⟩
    · unfold freelistDealloc; rw [h1]; rfl
    · intro _ _ _ _ _; rw [hmem]
    · intro _ _; rw [hmem]
    · refine dl_cinv_of h habs (h.wf.incDiscarded size) ?_ ?_ (by rw [hmem])
        (dl_incDiscarded_minSeg c s size)
      · rw [hmem, incDiscarded_free]; exact h.chain
      · rw [dl_incDiscarded_sentinel, incDiscarded_free]; exact h.sent
    · intro _ _ _; rw [hmem]
  · have hge := alignUp8_ge off
    have hlt8 := alignUp8_lt off
    have hwl : WF c (s.abs free) ((off, off + size) :: lives) →
        WF c { s.abs free with free := insertSeg c.kind (Seg.mk (alignUp 8 off) (size - (alignUp 8 off - off + NODE))) (s.abs free).free } lives :=
      fun hw1 => hw1.link hk off size (Nat.le_refl _) (Nat.le_refl _) hlt
    generalize alignUp 8 off = al at *
    simp only [NODE] at hlt
    have hszlt : size - (al - off + NODE) < TWO32 := by
      unfold St.cap at hcap; unfold TWO32 at *; omega
    generalize size - (al - off + NODE) = sz at *
    have hr : r = (true, ({ s.abs free with free := insertSeg c.kind (Seg.mk al sz) free }).incDiscarded c NODE) := by
      show (s.abs free).freelistDealloc c off size = _
      unfold A.freelistDealloc; rw [h2]; rfl
    have hmiss : MissesNodes al (al + 8) free := by
      intro g hg
      have := hdf g hg
      unfold disj at this
      simp only [Seg.ext, Seg.lo, Seg.hi, NODE] at this
      omega
    obtain ⟨s', hrun, hch, hsent, hsize, hall, hmin, hdisc, hfr⟩ :=
      insertLoop_spec c s free (SegRef.mk al (al + NODE) sz)
        (t + 1) t h.chain h.sent (dl_apart h.wf) hmiss
        (by show al + 8 ≤ s.mem.size; omega)
        (fun g hg => (dl_seg_bounds h g hg).1) (fun g hg => (dl_seg_bounds h g hg).2.1)
        (fun g hg => (dl_seg_bounds h g hg).2.2.1)
        (by unfold St.cap at hcap; unfold MAXU32 TWO32 at *
            show al < 4294967295; omega)
        hszlt (by omega)
    simp only [] at hrun hch hsent hfr
    have hnode : al + NODE - al = NODE := by omega
    rw [hnode] at hrun
    rw [hr]
    have hwf : WF c (({ s.abs free with free := insertSeg c.kind (Seg.mk al sz) free }).incDiscarded c NODE) lives := by
      have hw1 : WF c (s.abs free) ((off, off + size) :: lives) :=
        dl_wf_add h.wf (off, off + size) hlo (by simp only; omega) hhi hdf hdl
      exact (hwl hw1).incDiscarded _
    have habs : (s'.incDiscarded c NODE).abs
        (({ s.abs free with free := insertSeg c.kind (Seg.mk al sz) free }).incDiscarded c NODE).free =
        ({ s.abs free with free := insertSeg c.kind (Seg.mk al sz) free }).incDiscarded c NODE := by
      rw [incDiscarded_free, dl_incDiscarded_abs]
      congr 1
      simp only [St.abs, St.cap, hsize, hall, hmin, hdisc]
    have hmem := dl_incDiscarded_mem c s' NODE
    have hfr' : ∀ i, (i < off ∨ off + size ≤ i) → (∀ g ∈ free, i < g.off ∨ g.off + 8 ≤ i) →
        (s'.incDiscarded c NODE).mem.rd i = s.mem.rd i := by
      intro i hi hg
      rw [hmem]
      refine hfr i ?_ hg
      omega
    refine ⟨s'.incDiscarded c NODE, ?_, ?_, ?_, hfr'⟩
    · unfold freelistDealloc; rw [h1]
      simp only [bind, Except.bind, hrun]; rfl
    · exact dl_stepOK_of_frame off size h habs (by rw [hmem]; exact hsize) hlo hdl hfr'
    · refine dl_cinv_of h habs hwf ?_ ?_ (by rw [hmem]; exact hsize)
        (by rw [dl_incDiscarded_minSeg]; exact hmin)
      · rw [hmem, incDiscarded_free]; exact hch
      · rw [dl_incDiscarded_sentinel, incDiscarded_free]; exact hsent


theorem dl_addU32_ok (site : String) (a b : Nat) (h : a + b < TWO32) : addU32 site a b = .ok (a + b) := by
  unfold addU32; rw [if_pos h]; rfl

theorem dl_st_incDiscarded_zero (c : Cfg) (s : St) (h : s.discarded < TWO32) : s.incDiscarded c 0 = s := by
  unfold St.incDiscarded
  split
  · rfl
  · cases s; simp only [Nat.add_zero, St.mk.injEq, true_and]; exact Nat.mod_eq_of_lt h

/-- `dealloc(memOff, memSize)` of a handle whose owned extent is in `lives` -/
theorem dealloc_refines (c : Cfg) (s : St) (free : List Seg) (lives : List Ext) (m : Meta) (fuel : Nat)
    (h : CInv c s free lives) (hro : c.ro = false) (hm : m.owned ∈ lives) (hne : m.memSize ≠ 0)
    (hfuel : free.length + 2 ≤ fuel) :
    let r := (s.abs free).dealloc c m.memOff m.memSize
    ∃ s', dealloc c s m.memOff m.memSize fuel = .ok (r.1, s') ∧ StepOK c s s' r.2 (lives.erase m.owned) ∧
      CInv c s' r.2.free (lives.erase m.owned) := by
  intro r
  have hin := h.wf.lives_in _ hm
  simp only [Meta.owned] at hin
  have hcap := h.capGuard
  have hal : s.allocated ≤ s.mem.size := h.wf.hi
  have hall : (s.abs free).allocated = s.allocated := rfl
  have htop : addU32 "dealloc:offset+size" m.memOff m.memSize = .ok (m.memOff + m.memSize) :=
    dl_addU32_ok _ _ _ (by unfold St.cap at hcap; unfold TWO32 at *; omega)
  have hwf : WF c r.2 (lives.erase m.owned) := dealloc_wf c (s.abs free) lives m h.wf hm hne
  have hw' : WF c (s.abs free) (m.owned :: lives.erase m.owned) := h.wf.perm (List.perm_cons_erase hm)
  by_cases heq : s.allocated = m.memOff + m.memSize
  · have hr : r = (true, { s.abs free with allocated := m.memOff }) := by
      show (s.abs free).dealloc c m.memOff m.memSize = _
      unfold A.dealloc; rw [if_pos (show (s.abs free).allocated = m.memOff + m.memSize from heq)]
    rw [hr] at hwf ⊢
    refine ⟨{ s with allocated := m.memOff }, ?_, ⟨rfl, rfl, fun _ _ _ _ _ => rfl, fun _ _ => rfl⟩, ?_⟩
    · unfold dealloc
      simp only [htop, bind, Except.bind]
      rw [if_pos heq]; rfl
    · exact dl_cinv_of (s' := { s with allocated := m.memOff }) h rfl hwf h.chain h.sent rfl rfl
  · have heq' : ¬ (s.abs free).allocated = m.memOff + m.memSize := heq
    cases hk : c.kind with
    | none =>
      have hr : r = (true, (s.abs free).incDiscarded c m.memSize) := by
        show (s.abs free).dealloc c m.memOff m.memSize = _
        unfold A.dealloc; rw [if_neg heq']; simp only [hk]
      rw [hr] at hwf ⊢
      have habs : (s.incDiscarded c m.memSize).abs ((s.abs free).incDiscarded c m.memSize).free =
          (s.abs free).incDiscarded c m.memSize := by
        rw [incDiscarded_free]; exact dl_incDiscarded_abs c s free m.memSize
      have hmem := dl_incDiscarded_mem c s m.memSize
      refine ⟨s.incDiscarded c m.memSize, ?_, ⟨habs, by rw [hmem], ?_, ?_⟩, ?_⟩
      · unfold dealloc
        simp only [htop, bind, Except.bind]
        rw [if_neg heq]; simp only [hk]; rfl
      · intro _ _ _ _ _; rw [hmem]
      · intro _ _; rw [hmem]
      · refine dl_cinv_of h habs hwf ?_ ?_ (by rw [hmem]) (dl_incDiscarded_minSeg c s m.memSize)
        · rw [hmem, incDiscarded_free]; exact h.chain
        · rw [dl_incDiscarded_sentinel, incDiscarded_free]; exact h.sent
    | opt | pess =>
      all_goals
        have hr : r = (s.abs free).freelistDealloc c m.memOff m.memSize := by
          show (s.abs free).dealloc c m.memOff m.memSize = _
          unfold A.dealloc; rw [if_neg heq']; simp only [hk]
        have hd := hw'.disjoint
        rw [List.pairwise_append, List.pairwise_cons] at hd
        obtain ⟨_, ⟨heL, _⟩, hFL⟩ := hd
        have hc' : CInv c s free (lives.erase m.owned) :=
          ⟨hw'.drop, h.chain, h.sent, h.capGuard, h.minSegLt, h.retriesOK⟩
        obtain ⟨s', hrun, hstep, hcinv, _⟩ := freelistDealloc_refines c s free (lives.erase m.owned)
          m.memOff m.memSize fuel hc' (by rw [hk]; simp) hro hin.1 (by omega)
          (fun g hg => disj_sub (disj_symm (hFL g.ext (List.mem_map_of_mem hg) m.owned (List.mem_cons_self ..)))
            (Nat.le_refl _) (by simp only [Meta.owned]; omega))
          (fun e he => disj_sub (heL e he) (Nat.le_refl _) (by simp only [Meta.owned]; omega)) hfuel
        rw [hr]
        refine ⟨s', ?_, hstep, hcinv⟩
        unfold dealloc
        simp only [htop, bind, Except.bind]
        rw [if_neg heq]; simp only [hk]; exact hrun

/-- dropping the null handle of a zero-size request calls `dealloc(0, 0)`, which changes nothing -/
theorem dealloc_null_refines (c : Cfg) (s : St) (free : List Seg) (lives : List Ext) (fuel : Nat)
    (h : CInv c s free lives) : ∃ b, dealloc c s 0 0 fuel = .ok (b, s) := by
  have h1 := h.wf.lo
  have h2 : c.dataOffset ≤ s.allocated := h.wf.mid
  have hd : s.discarded < TWO32 := h.wf.disc
  have htop : addU32 "dealloc:offset+size" 0 0 = .ok 0 := dl_addU32_ok _ 0 0 (by unfold TWO32; omega)
  have hne : ¬ s.allocated = 0 := by omega
  unfold dealloc
  simp only [htop, bind, Except.bind]
  rw [if_neg hne]
  cases hk : c.kind with
  | none => exact ⟨true, by simp only [dl_st_incDiscarded_zero c s hd]; rfl⟩
  | opt | pess =>
    all_goals
      refine ⟨false, ?_⟩
      simp only [freelistDealloc, tryNewSegment, true_or, if_true, bind, Except.bind, pure, Except.pure]

end Rarena
