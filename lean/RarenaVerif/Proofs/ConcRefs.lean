/-
  Proofs.ConcRefs — the reference-count protocol of `sync::Arena` (`Clone for Arena` / `Drop for Arena`) under
  EVERY interleaving, for any number of threads.

  Setting: thread `i` starts with `cfg[i].1` references ("tokens") and runs `refProg cfg[i].2`, a sequence of
  `cloneC` / `dropArenaC` calls (`RefOp`); `Balanced` says that it never clones from or drops a reference it does
  not hold at that moment; `WellFormed` says that initially `refs` = number of tokens, nothing is released, and
  the tokens that can exist simultaneously fit the 64-bit counter (otherwise `fetch_add` wraps).

  Proof architecture:
  * `TSt` is the ghost state of a thread (initial tokens, executed ops `pre`, remaining ops `ops`, flag `unm` =
    "its last `fetch_sub` returned 1; acquire load + `unmount` pending"). Its program is `TSt.prog`, the tokens it
    holds are `TSt.tok = finalTok h0 pre` (an executed `faa` has added one, an executed `fas` has removed one).
    A thread is at a scheduling point only in one of these two shapes, because `Global.step` settles after the
    access: the `na unmount` is executed in the same step as the acquire load.
  * `tstep_nil/clone/drop/unm` compute one `Global.step` of a thread in each shape; `thread_step` summarises them.
  * `Inv`: `refs = Σ tok`, `Σ (tok + clones left) < 2^64`, `released + #unm ≤ 1`, `released + #unm = 1 → refs = 0`,
    and (if there was a token initially) `refs = 0 → released + #unm = 1`. Preserved by every step (`Inv.step`),
    hence by every schedule (`Inv.run`).
  * `ghost_unique`: the ghost state is determined by the thread programs and the initial configuration.
  * `Inv.run_trace` / `trace_accounting`: the same facts in terms of the returned trace of atomic accesses
    (`refs` = initial + #fetch_add − #fetch_sub; at most one `fetch_sub` returns 1; no release before it).
  * The theorems at the end: `refs_counts_tokens`, `released_at_most_once`, `released_only_at_zero`,
    `nothing_after_release`, `all_dropped_releases`, `held_token_prevents_release`, and non-vacuity examples.
-/
import RarenaVerif.Model.Conc

namespace Rarena.Conc.Refs
open Rarena Rarena.Conc

inductive RefOp where
  | clone | drop
  deriving DecidableEq, Repr

def refProg : List RefOp → Prog Unit
  | [] => pure ()
  | .clone :: rest => do cloneC; refProg rest
  | .drop :: rest => do dropArenaC; refProg rest

def unmK (rest : List RefOp) : Prog Unit :=
  .load .refs ⟨"drop", 1⟩ (fun _ => .na .unmount (fun _ => refProg rest))

theorem refProg_nil : refProg [] = .ret () := rfl

theorem refProg_clone (rest : List RefOp) :
    refProg (.clone :: rest) = .rmw .refs 1 false ⟨"clone", 0⟩ (fun _ => refProg rest) := rfl

theorem bind_ite {α β : Type} (c : Prop) [Decidable c] (a b : Prog α) (f : α → Prog β) :
    (if c then a else b).bind f = if c then a.bind f else b.bind f := by
  split <;> rfl

theorem refProg_drop (rest : List RefOp) :
    refProg (.drop :: rest) =
      .rmw .refs 1 true ⟨"drop", 0⟩ (fun old => if old ≠ 1 then refProg rest else unmK rest) := by
  show Prog.rmw .refs 1 true ⟨"drop", 0⟩ _ = _
  congr 1
  funext old
  show Prog.bind (if old ≠ 1 then _ else _) _ = _
  by_cases h : old ≠ 1
  · rw [if_pos h, if_pos h]; rfl
  · rw [if_neg h, if_neg h]; rfl

/-! ### one thread step -/

def toProg {α : Type} : Settled α → Prog α
  | .done a => .ret a
  | .failed (.trap s) => .trap s
  | .failed .diverge => .diverge
  | .blocked p => p

/-- the part of `Global.step` that concerns the stepping thread -/
def tstep {α : Type} (sh : Shared) (p : Prog α) (sp : Bool) : Shared × Prog α :=
  match settle 100000 sh p [] with
  | (sh1, .blocked p1, _) =>
    match stepAccess sh1 p1 sp with
    | .ok (sh2, p2, _) =>
      match settle 100000 sh2 p2 [] with
      | (sh3, s, _) => (sh3, toProg s)
    | .error (.trap s) => (sh1, .trap s)
    | .error .diverge => (sh1, .diverge)
  | (sh1, s, _) => (sh1, toProg s)

theorem step_none {α : Type} (g : Global α) (tid : Nat) (sp : Bool) (h : g.threads[tid]? = none) :
    (g.step tid sp).1 = g := by
  unfold Global.step
  simp only [h]

theorem step_some {α : Type} (g : Global α) (tid : Nat) (sp : Bool) (p : Prog α) (h : g.threads[tid]? = some p) :
    (g.step tid sp).1 = { sh := (tstep g.sh p sp).1, threads := g.threads.set tid (tstep g.sh p sp).2 } := by
  unfold Global.step tstep
  simp only [h]
  rcases hs : settle 100000 g.sh p [] with ⟨sh1, s, nas⟩
  rcases s with a | (s | _) | p1 <;> simp only [toProg]
  rcases ha : stepAccess sh1 p1 sp with (s | _) | ⟨sh2, p2, e⟩ <;> simp only []
  rcases hs2 : settle 100000 sh2 p2 [] with ⟨sh3, s, nas⟩
  rcases s with a | (s | _) | p3 <;> simp only []

theorem fuel_eq : (100000 : Nat) = 99998 + 1 + 1 := rfl

theorem settle_ret {α : Type} (f : Nat) (sh : Shared) (a : α) (nas : List NA) :
    settle (f + 1) sh (.ret a) nas = (sh, .done a, nas) := rfl

theorem settle_rmw {α : Type} (f : Nat) (sh : Shared) (l v sb s) (k : Nat → Prog α) (nas : List NA) :
    settle (f + 1) sh (.rmw l v sb s k) nas = (sh, .blocked (.rmw l v sb s k), nas) := rfl

theorem settle_load {α : Type} (f : Nat) (sh : Shared) (l s) (k : Nat → Prog α) (nas : List NA) :
    settle (f + 1) sh (.load l s k) nas = (sh, .blocked (.load l s k), nas) := rfl

theorem settle_unmount {α : Type} (f : Nat) (sh : Shared) (k : Unit → Prog α) (nas : List NA) :
    settle (f + 1) sh (.na .unmount k) nas =
      settle f { sh with released := sh.released + 1 } (k ()) (nas ++ [.unmount]) := rfl

/-- settling a program that is between two operations does nothing -/
theorem settle_refProg (f : Nat) (sh : Shared) (ops : List RefOp) (nas : List NA) :
    ∃ s, settle (f + 1) sh (refProg ops) nas = (sh, s, nas) ∧ toProg s = refProg ops := by
  rcases ops with _ | ⟨op, rest⟩
  · exact ⟨.done (), settle_ret .., rfl⟩
  · cases op
    · exact ⟨.blocked (refProg (.clone :: rest)), by rw [refProg_clone, settle_rmw], rfl⟩
    · exact ⟨.blocked (refProg (.drop :: rest)), by rw [refProg_drop, settle_rmw], rfl⟩

theorem stepAccess_rmw_refs {α : Type} (sh : Shared) (v : Nat) (sb : Bool) (s : Site) (k : Nat → Prog α) (sp : Bool) :
    ∃ ev, stepAccess sh (.rmw .refs v sb s k) sp =
      .ok ({ sh with refs := if sb then (sh.refs + TWO64 - v % TWO64) % TWO64 else (sh.refs + v) % TWO64 },
        k sh.refs, ev) := ⟨_, rfl⟩

theorem stepAccess_load_refs {α : Type} (sh : Shared) (s : Site) (k : Nat → Prog α) (sp : Bool) :
    ∃ ev, stepAccess sh (.load .refs s k) sp = .ok (sh, k sh.refs, ev) := ⟨_, rfl⟩

theorem tstep_nil (sh : Shared) (sp : Bool) : tstep sh (refProg []) sp = (sh, refProg []) := by
  unfold tstep
  rw [fuel_eq, refProg_nil, settle_ret]
  rfl

theorem tstep_clone (sh : Shared) (rest : List RefOp) (sp : Bool) :
    tstep sh (refProg (.clone :: rest)) sp = ({ sh with refs := (sh.refs + 1) % TWO64 }, refProg rest) := by
  obtain ⟨s, h1, h2⟩ := settle_refProg (99998 + 1) { sh with refs := (sh.refs + 1) % TWO64 } rest []
  obtain ⟨ev, h3⟩ := stepAccess_rmw_refs sh 1 false ⟨"clone", 0⟩ (fun _ => refProg rest) sp
  simp only [Bool.false_eq_true, if_false] at h3
  unfold tstep
  rw [fuel_eq, refProg_clone, settle_rmw]
  simp only [h3, h1, h2]

theorem tstep_drop (sh : Shared) (rest : List RefOp) (sp : Bool) :
    tstep sh (refProg (.drop :: rest)) sp =
      ({ sh with refs := (sh.refs + TWO64 - 1) % TWO64 },
        if sh.refs ≠ 1 then refProg rest else unmK rest) := by
  obtain ⟨ev, h3⟩ := stepAccess_rmw_refs sh 1 true ⟨"drop", 0⟩
    (fun old => if old ≠ 1 then refProg rest else unmK rest) sp
  have e1 : 1 % TWO64 = 1 := by decide
  simp only [if_true, e1] at h3
  unfold tstep
  rw [fuel_eq, refProg_drop, settle_rmw]
  simp only [h3]
  by_cases h : sh.refs ≠ 1
  · obtain ⟨s, h1, h2⟩ := settle_refProg (99998 + 1) { sh with refs := (sh.refs + TWO64 - 1) % TWO64 } rest []
    simp only [if_pos h, h1, h2]
  · simp only [if_neg h, unmK, settle_load, toProg]

theorem tstep_unm (sh : Shared) (rest : List RefOp) (sp : Bool) :
    tstep sh (unmK rest) sp = ({ sh with released := sh.released + 1 }, refProg rest) := by
  obtain ⟨s, h1, h2⟩ := settle_refProg 99998 { sh with released := sh.released + 1 } rest ([] ++ [.unmount])
  obtain ⟨ev, h3⟩ := stepAccess_load_refs sh ⟨"drop", 1⟩ (fun _ => Prog.na .unmount (fun _ => refProg rest)) sp
  unfold tstep
  rw [fuel_eq]
  simp only [unmK, settle_load, h3, settle_unmount, h1, h2]

/-- the event reported by `Global.step` for the stepping thread -/
def tev {α : Type} (sh : Shared) (p : Prog α) (sp : Bool) : Option Event :=
  match settle 100000 sh p [] with
  | (sh1, .blocked p1, _) =>
    match stepAccess sh1 p1 sp with
    | .ok (_, _, e) => some e
    | .error _ => none
  | _ => none

theorem step_none_ev {α : Type} (g : Global α) (tid : Nat) (sp : Bool) (h : g.threads[tid]? = none) :
    (g.step tid sp).2 = none := by
  unfold Global.step
  simp only [h]

theorem step_some_ev {α : Type} (g : Global α) (tid : Nat) (sp : Bool) (p : Prog α) (h : g.threads[tid]? = some p) :
    (g.step tid sp).2 = tev g.sh p sp := by
  unfold Global.step tev
  simp only [h]
  rcases hs : settle 100000 g.sh p [] with ⟨sh1, s, nas⟩
  rcases s with a | (s | _) | p1 <;> simp only []
  rcases ha : stepAccess sh1 p1 sp with (s | _) | ⟨sh2, p2, e⟩ <;> simp only []
  rcases hs2 : settle 100000 sh2 p2 [] with ⟨sh3, s, nas⟩
  rcases s with a | (s | _) | p3 <;> simp only []

theorem stepAccess_rmw_ev {α : Type} (sh : Shared) (v : Nat) (sb : Bool) (s : Site) (k : Nat → Prog α) (sp : Bool) :
    ∃ sh' p' new, stepAccess sh (.rmw .refs v sb s k) sp =
      .ok (sh', p', ⟨if sb then .fas else .faa, .refs, s, sh.refs, new, true⟩) := ⟨_, _, _, rfl⟩

theorem stepAccess_load_ev {α : Type} (sh : Shared) (s : Site) (k : Nat → Prog α) (sp : Bool) :
    ∃ sh' p', stepAccess sh (.load .refs s k) sp = .ok (sh', p', ⟨.ld, .refs, s, sh.refs, sh.refs, true⟩) :=
  ⟨_, _, rfl⟩

theorem tev_nil (sh : Shared) (sp : Bool) : tev sh (refProg []) sp = none := by
  unfold tev
  rw [fuel_eq, refProg_nil, settle_ret]

theorem tev_clone (sh : Shared) (rest : List RefOp) (sp : Bool) :
    ∃ new, tev sh (refProg (.clone :: rest)) sp = some ⟨.faa, .refs, ⟨"clone", 0⟩, sh.refs, new, true⟩ := by
  obtain ⟨sh', p', new, h⟩ := stepAccess_rmw_ev sh 1 false ⟨"clone", 0⟩ (fun _ => refProg rest) sp
  refine ⟨new, ?_⟩
  unfold tev
  rw [fuel_eq, refProg_clone, settle_rmw]
  simp only [h, Bool.false_eq_true, if_false]

theorem tev_drop (sh : Shared) (rest : List RefOp) (sp : Bool) :
    ∃ new, tev sh (refProg (.drop :: rest)) sp = some ⟨.fas, .refs, ⟨"drop", 0⟩, sh.refs, new, true⟩ := by
  obtain ⟨sh', p', new, h⟩ := stepAccess_rmw_ev sh 1 true ⟨"drop", 0⟩
    (fun old => if old ≠ 1 then refProg rest else unmK rest) sp
  refine ⟨new, ?_⟩
  unfold tev
  rw [fuel_eq, refProg_drop, settle_rmw]
  simp only [h, if_true]

theorem tev_unm (sh : Shared) (rest : List RefOp) (sp : Bool) :
    tev sh (unmK rest) sp = some ⟨.ld, .refs, ⟨"drop", 1⟩, sh.refs, sh.refs, true⟩ := by
  obtain ⟨sh', p', h⟩ := stepAccess_load_ev sh ⟨"drop", 1⟩ (fun _ => Prog.na .unmount (fun _ => refProg rest)) sp
  unfold tev
  rw [fuel_eq]
  simp only [unmK, settle_load, h]

/-- does the step report a `fetch_add` / a `fetch_sub` / a `fetch_sub` that returned 1, on `refs`? -/
def evFaa : Option Event → Nat
  | some e => if e.kind = .faa ∧ e.loc = .refs then 1 else 0
  | none => 0
def evFas : Option Event → Nat
  | some e => if e.kind = .fas ∧ e.loc = .refs then 1 else 0
  | none => 0
def evOne : Option Event → Nat
  | some e => if e.kind = .fas ∧ e.loc = .refs ∧ e.old = 1 then 1 else 0
  | none => 0

/-! ### ghost state of a thread -/

/-- tokens held after executing `ops` starting with `h` tokens -/
def finalTok : Nat → List RefOp → Nat
  | h, [] => h
  | h, .clone :: r => finalTok (h + 1) r
  | h, .drop :: r => finalTok (h - 1) r

/-- the thread never drops (or clones from) a reference it does not hold -/
def Balanced : Nat → List RefOp → Prop
  | _, [] => True
  | h, .clone :: r => 1 ≤ h ∧ Balanced (h + 1) r
  | h, .drop :: r => 1 ≤ h ∧ Balanced (h - 1) r

instance decBalanced : (h : Nat) → (ops : List RefOp) → Decidable (Balanced h ops)
  | _, [] => isTrue trivial
  | h, .clone :: r => @instDecidableAnd _ _ _ (decBalanced (h + 1) r)
  | h, .drop :: r => @instDecidableAnd _ _ _ (decBalanced (h - 1) r)

def clones : List RefOp → Nat
  | [] => 0
  | .clone :: r => clones r + 1
  | .drop :: r => clones r

theorem finalTok_append (h : Nat) (a b : List RefOp) : finalTok h (a ++ b) = finalTok (finalTok h a) b := by
  induction a generalizing h with
  | nil => rfl
  | cons op a ih => cases op <;> exact ih _

theorem balanced_zero (ops : List RefOp) (h : Balanced 0 ops) : ops = [] := by
  rcases ops with _ | ⟨op, rest⟩
  · rfl
  · cases op <;> exact absurd h.1 (by decide)

structure TSt where
  /-- tokens the thread started with -/
  h0 : Nat
  /-- operations whose RMW on `refs` has been executed -/
  pre : List RefOp
  /-- operations not yet started -/
  ops : List RefOp
  /-- the last executed `drop` observed `old = 1`: its acquire load and `unmount` are pending -/
  unm : Bool

def TSt.tok (s : TSt) : Nat := finalTok s.h0 s.pre
def TSt.prog (s : TSt) : Prog Unit := if s.unm then unmK s.ops else refProg s.ops
def TSt.orig (s : TSt) : Nat × List RefOp := (s.h0, s.pre ++ s.ops)
def TSt.cap (s : TSt) : Nat := s.tok + clones s.ops
def TSt.unmN (s : TSt) : Nat := if s.unm then 1 else 0

theorem thread_step (sh : Shared) (s : TSt) (sp : Bool) (hb : Balanced s.tok s.ops) (hle : s.tok ≤ sh.refs)
    (hlt : sh.refs + clones s.ops < TWO64) :
    ∃ s' : TSt, (tstep sh s.prog sp).2 = s'.prog ∧ s'.orig = s.orig ∧ Balanced s'.tok s'.ops ∧ s'.cap ≤ s.cap ∧
      (tstep sh s.prog sp).1.refs + s.tok = sh.refs + s'.tok ∧
      (((tstep sh s.prog sp).1.released + s'.unmN = sh.released + s.unmN ∧
          ((tstep sh s.prog sp).1.refs = 0 ↔ sh.refs = 0)) ∨
        ((tstep sh s.prog sp).1.released = sh.released ∧ s.unmN = 0 ∧ s'.unmN = 1 ∧ sh.refs = 1 ∧
          (tstep sh s.prog sp).1.refs = 0)) ∧
      (tstep sh s.prog sp).1.refs + evFas (tev sh s.prog sp) = sh.refs + evFaa (tev sh s.prog sp) ∧
      (tstep sh s.prog sp).1.released + s'.unmN = sh.released + s.unmN + evOne (tev sh s.prog sp) := by
  obtain ⟨h0, pre, ops, unm⟩ := s
  cases unm with
  | true =>
    refine ⟨⟨h0, pre, ops, false⟩, ?_, rfl, hb, Nat.le_refl _, ?_, .inl ⟨?_, ?_⟩, ?_, ?_⟩ <;>
      simp only [TSt.prog, if_true, tstep_unm, tev_unm, TSt.unmN, TSt.tok, evFas, evFaa, evOne] <;> simp
  | false =>
    rcases ops with _ | ⟨op, rest⟩
    · have e : tstep sh (TSt.prog ⟨h0, pre, [], false⟩) sp = (sh, refProg []) := tstep_nil sh sp
      have e' : tev sh (TSt.prog ⟨h0, pre, [], false⟩) sp = none := tev_nil sh sp
      rw [e, e']
      exact ⟨⟨h0, pre, [], false⟩, rfl, rfl, hb, Nat.le_refl _, rfl, .inl ⟨rfl, Iff.rfl⟩, rfl, rfl⟩
    · cases op with
      | clone =>
        simp only [TSt.tok, clones] at hb hle hlt
        have e : (sh.refs + 1) % TWO64 = sh.refs + 1 := Nat.mod_eq_of_lt (by omega)
        have ht : finalTok h0 (pre ++ [.clone]) = finalTok h0 pre + 1 := by rw [finalTok_append]; rfl
        obtain ⟨new, hev⟩ := tev_clone sh rest sp
        refine ⟨⟨h0, pre ++ [.clone], rest, false⟩, ?_, ?_, ?_, ?_, ?_, .inl ⟨?_, ?_⟩, ?_, ?_⟩ <;>
          simp only [TSt.prog, Bool.false_eq_true, if_false, tstep_clone, TSt.orig, TSt.tok, TSt.cap, TSt.unmN,
            clones, List.append_assoc, List.singleton_append, e, ht, hev, evFas, evFaa, evOne]
        · exact hb.2
        · omega
        · omega
        · have := hb.1; omega
        · simp
        · simp
      | drop =>
        simp only [TSt.tok, clones] at hb hle hlt
        have h1 := hb.1
        have e : (sh.refs + TWO64 - 1) % TWO64 = sh.refs - 1 := by
          have : sh.refs + TWO64 - 1 = (sh.refs - 1) + TWO64 := by omega
          rw [this, Nat.add_mod_right]; exact Nat.mod_eq_of_lt (by omega)
        have ht : finalTok h0 (pre ++ [.drop]) = finalTok h0 pre - 1 := by rw [finalTok_append]; rfl
        obtain ⟨new, hev⟩ := tev_drop sh rest sp
        by_cases hr : sh.refs ≠ 1
        · refine ⟨⟨h0, pre ++ [.drop], rest, false⟩, ?_, ?_, ?_, ?_, ?_, .inl ⟨?_, ?_⟩, ?_, ?_⟩ <;>
            simp only [TSt.prog, Bool.false_eq_true, if_false, tstep_drop, TSt.orig, TSt.tok, TSt.cap, TSt.unmN,
              clones, List.append_assoc, List.singleton_append, e, ht, if_pos hr, hev, evFas, evFaa, evOne]
          · exact hb.2
          · omega
          · omega
          · omega
          · simp; omega
          · simp; exact hr
        · refine ⟨⟨h0, pre ++ [.drop], rest, true⟩, ?_, ?_, ?_, ?_, ?_, .inr ⟨?_, ?_, ?_, ?_, ?_⟩, ?_, ?_⟩ <;>
            try simp only [TSt.prog, Bool.false_eq_true, if_false, if_true, tstep_drop, TSt.orig, TSt.tok, TSt.cap, TSt.unmN,
              clones, List.append_assoc, List.singleton_append, e, ht, if_neg hr, hev, evFas, evFaa, evOne]
          · exact hb.2
          · omega
          · omega
          · omega
          · omega
          · simp; omega
          · simp; omega

/-! ### sums over the thread list -/

theorem sum_set {β : Type} (f : β → Nat) : ∀ (l : List β) (i : Nat) (b b' : β), l[i]? = some b →
    ((l.set i b').map f).sum + f b = (l.map f).sum + f b'
  | [], _, _, _, h => by simp at h
  | a :: l, 0, b, b', h => by
    simp only [List.getElem?_cons_zero, Option.some.injEq] at h
    subst h
    simp only [List.set_cons_zero, List.map_cons, List.sum_cons]; omega
  | a :: l, i + 1, b, b', h => by
    simp only [List.getElem?_cons_succ] at h
    have := sum_set f l i b b' h
    simp only [List.set_cons_succ, List.map_cons, List.sum_cons]; omega

theorem le_sum {β : Type} (f : β → Nat) (l : List β) (b : β) (h : b ∈ l) : f b ≤ (l.map f).sum := by
  induction l with
  | nil => cases h
  | cons a l ih =>
    simp only [List.map_cons, List.sum_cons]
    rcases List.mem_cons.mp h with rfl | h
    · omega
    · have := ih h; omega

theorem sum_add {β : Type} (f g : β → Nat) (l : List β) :
    (l.map (fun b => f b + g b)).sum = (l.map f).sum + (l.map g).sum := by
  induction l with
  | nil => rfl
  | cons a l ih => simp only [List.map_cons, List.sum_cons, ih]; omega

theorem map_set_same {β γ : Type} (f : β → γ) : ∀ (l : List β) (i : Nat) (b b' : β), l[i]? = some b →
    f b' = f b → (l.set i b').map f = l.map f
  | [], _, _, _, h, _ => by simp at h
  | a :: l, 0, b, b', h, hf => by
    simp only [List.getElem?_cons_zero, Option.some.injEq] at h
    subst h
    simp only [List.set_cons_zero, List.map_cons, hf]
  | a :: l, i + 1, b, b', h, hf => by
    simp only [List.getElem?_cons_succ] at h
    simp only [List.set_cons_succ, List.map_cons, map_set_same f l i b b' h hf]

/-! ### the global invariant -/

abbrev Config := List (Nat × List RefOp)

/-- `ts` is the ghost state of the threads of `g`, which started from `cfg` -/
structure Inv (cfg : Config) (g : Global Unit) (ts : List TSt) : Prop where
  progs : g.threads = ts.map TSt.prog
  orig : ts.map TSt.orig = cfg
  bal : ∀ s ∈ ts, Balanced s.tok s.ops
  cnt : g.sh.refs = (ts.map TSt.tok).sum
  bound : (ts.map TSt.cap).sum < TWO64
  once : g.sh.released + (ts.map TSt.unmN).sum ≤ 1
  zero : g.sh.released + (ts.map TSt.unmN).sum = 1 → g.sh.refs = 0
  pos : 0 < (cfg.map (·.1)).sum → g.sh.refs = 0 → g.sh.released + (ts.map TSt.unmN).sum = 1

theorem Inv.step {cfg : Config} {g : Global Unit} {ts : List TSt} (h : Inv cfg g ts) (tid : Nat) (sp : Bool) :
    ∃ ts', Inv cfg (g.step tid sp).1 ts' ∧
      (g.step tid sp).1.sh.refs + evFas (g.step tid sp).2 = g.sh.refs + evFaa (g.step tid sp).2 ∧
      (g.step tid sp).1.sh.released + (ts'.map TSt.unmN).sum =
        g.sh.released + (ts.map TSt.unmN).sum + evOne (g.step tid sp).2 := by
  rcases hs : ts[tid]? with _ | s
  · have hp : g.threads[tid]? = none := by rw [h.progs, List.getElem?_map, hs]; rfl
    rw [step_none g tid sp hp, step_none_ev g tid sp hp]; exact ⟨ts, h, rfl, rfl⟩
  · have hp : g.threads[tid]? = some s.prog := by rw [h.progs, List.getElem?_map, hs]; rfl
    rw [step_some g tid sp _ hp, step_some_ev g tid sp _ hp]
    have hmem : s ∈ ts := List.mem_of_getElem? hs
    have hcap : (ts.map TSt.cap).sum = (ts.map TSt.tok).sum + (ts.map (fun s => clones s.ops)).sum :=
      sum_add TSt.tok (fun s => clones s.ops) ts
    have h1 := le_sum TSt.tok ts s hmem
    have h2 := le_sum (fun s => clones s.ops) ts s hmem
    have hb := h.bound
    have hc := h.cnt
    obtain ⟨s', e1, e2, e3, e4, e5, e6, e7, e8⟩ :=
      thread_step g.sh s sp (h.bal s hmem) (by omega) (by omega)
    have t1 := sum_set TSt.tok ts tid s s' hs
    have t2 := sum_set TSt.cap ts tid s s' hs
    have t3 := sum_set TSt.unmN ts tid s s' hs
    have ho := h.once
    have hz := h.zero
    have hps := h.pos
    refine ⟨ts.set tid s', ⟨?_, ?_, ?_, ?_, ?_, ?_, ?_, ?_⟩, e7, ?_⟩
    · show g.threads.set tid _ = _
      rw [e1, h.progs, List.map_set]
    · rw [map_set_same TSt.orig ts tid s s' hs e2]; exact h.orig
    · intro x hx
      rcases List.mem_or_eq_of_mem_set hx with hx | rfl
      · exact h.bal x hx
      · exact e3
    · show (tstep g.sh s.prog sp).1.refs = _
      omega
    · omega
    · show (tstep g.sh s.prog sp).1.released + _ ≤ 1
      rcases e6 with ⟨a, b⟩ | ⟨a, b, c, d, e⟩
      · omega
      · have : g.sh.released + (ts.map TSt.unmN).sum ≠ 1 := fun hh => by have := hz hh; omega
        omega
    · show (tstep g.sh s.prog sp).1.released + _ = 1 → (tstep g.sh s.prog sp).1.refs = 0
      rcases e6 with ⟨a, b⟩ | ⟨a, b, c, d, e⟩
      · intro hh; exact b.mpr (hz (by omega))
      · intro _; exact e
    · intro hpos
      show (tstep g.sh s.prog sp).1.refs = 0 → (tstep g.sh s.prog sp).1.released + _ = 1
      rcases e6 with ⟨a, b⟩ | ⟨a, b, c, d, e⟩
      · intro hh; have := hps hpos (b.mp hh); omega
      · intro _
        have : g.sh.released + (ts.map TSt.unmN).sum ≠ 1 := fun hh => by have := hz hh; omega
        omega
    · show (tstep g.sh s.prog sp).1.released + _ = _
      omega

theorem Inv.run {cfg : Config} : ∀ (sched : List (Nat × Bool)) {g : Global Unit} {ts : List TSt},
    Inv cfg g ts → ∃ ts', Inv cfg (g.run sched).1 ts'
  | [], _, ts, h => ⟨ts, h⟩
  | (tid, sp) :: rest, g, _, h => by
    obtain ⟨ts1, h1, _⟩ := h.step tid sp
    have := Inv.run rest h1
    simpa only [Global.run] using this

/-- number of `fetch_add`s / `fetch_sub`s / `fetch_sub`s returning 1 on `refs` in a trace -/
def nFaa (es : List (Nat × Event)) : Nat := (es.map (fun x => evFaa (some x.2))).sum
def nFas (es : List (Nat × Event)) : Nat := (es.map (fun x => evFas (some x.2))).sum
def nOne (es : List (Nat × Event)) : Nat := (es.map (fun x => evOne (some x.2))).sum

/-- the trace of a run accounts for the change of the counter and of the release count -/
theorem Inv.run_trace {cfg : Config} : ∀ (sched : List (Nat × Bool)) {g : Global Unit} {ts : List TSt},
    Inv cfg g ts → ∃ ts', Inv cfg (g.run sched).1 ts' ∧
      (g.run sched).1.sh.refs + nFas (g.run sched).2 = g.sh.refs + nFaa (g.run sched).2 ∧
      (g.run sched).1.sh.released + (ts'.map TSt.unmN).sum =
        g.sh.released + (ts.map TSt.unmN).sum + nOne (g.run sched).2
  | [], _, ts, h => ⟨ts, h, rfl, rfl⟩
  | (tid, sp) :: rest, g, ts, h => by
    obtain ⟨ts1, h1, a1, a2⟩ := h.step tid sp
    obtain ⟨ts2, h2, b1, b2⟩ := Inv.run_trace rest h1
    have e0 : evFas none = 0 ∧ evFaa none = 0 ∧ evOne none = 0 := ⟨rfl, rfl, rfl⟩
    refine ⟨ts2, by simpa only [Global.run] using h2, ?_, ?_⟩
    · rcases he : (g.step tid sp).2 with _ | e <;> rw [he] at a1 <;>
        simp only [Global.run, he, nFas, nFaa, List.map_cons, List.sum_cons] <;>
        simp only [nFas, nFaa] at b1 <;> omega
    · rcases he : (g.step tid sp).2 with _ | e <;> rw [he] at a2 <;>
        simp only [Global.run, he, nOne, List.map_cons, List.sum_cons] <;>
        simp only [nOne] at b2 <;> omega

/-! ### initial configurations -/

/-- the machine in which thread `i` runs `refProg (cfg[i].2)` -/
def initial (sh : Shared) (cfg : Config) : Global Unit :=
  { sh := sh, threads := cfg.map (fun c => refProg c.2) }

/-- thread `i` starts with `cfg[i].1` references and performs the operations `cfg[i].2`; the counter holds the
    number of references, nothing has been released, no thread clones or drops a reference it does not hold, and
    the references that may exist at the same time fit into the 64-bit counter -/
-- CHANGED: the bound needed for `fetch_add` not to wrap is not "initial number of tokens < 2^64" (clones create
-- tokens) but "tokens that can ever exist simultaneously < 2^64": Σ_i (initial tokens + number of clones of thread i).
structure WellFormed (sh : Shared) (cfg : Config) : Prop where
  refs : sh.refs = (cfg.map (·.1)).sum
  released : sh.released = 0
  balanced : ∀ c ∈ cfg, Balanced c.1 c.2
  bound : (cfg.map (fun c => c.1 + clones c.2)).sum < TWO64

theorem sum_zero {β : Type} (f : β → Nat) (l : List β) (h : ∀ b ∈ l, f b = 0) : (l.map f).sum = 0 := by
  induction l with
  | nil => rfl
  | cons a l ih =>
    simp only [List.map_cons, List.sum_cons, h a List.mem_cons_self,
      ih (fun b hb => h b (List.mem_cons_of_mem _ hb))]

theorem init_unm (cfg : Config) :
    ((cfg.map (fun c => (⟨c.1, [], c.2, false⟩ : TSt))).map TSt.unmN).sum = 0 :=
  sum_zero _ _ (fun b hb => by
    obtain ⟨c, _, rfl⟩ := List.mem_map.mp hb
    rfl)

theorem Inv.init {sh : Shared} {cfg : Config} (hw : WellFormed sh cfg) :
    Inv cfg (initial sh cfg) (cfg.map (fun c => ⟨c.1, [], c.2, false⟩)) := by
  have hu := init_unm cfg
  have ht : (cfg.map (fun c => (⟨c.1, [], c.2, false⟩ : TSt))).map TSt.tok = cfg.map (·.1) := by
    rw [List.map_map]; rfl
  refine ⟨?_, ?_, ?_, ?_, ?_, ?_, ?_, ?_⟩
  · rw [List.map_map]; rfl
  · rw [List.map_map]
    exact List.map_id'' (fun c => rfl) cfg
  · intro s hs
    obtain ⟨c, hc, rfl⟩ := List.mem_map.mp hs
    exact hw.balanced c hc
  · rw [ht]; exact hw.refs
  · have : (cfg.map (fun c => (⟨c.1, [], c.2, false⟩ : TSt))).map TSt.cap = cfg.map (fun c => c.1 + clones c.2) := by
      rw [List.map_map]; rfl
    rw [this]; exact hw.bound
  · rw [hu]; show sh.released + 0 ≤ 1; rw [hw.released]; decide
  · rw [hu]; show sh.released + 0 = 1 → _; rw [hw.released]; intro h; cases h
  · intro hpos hz
    have : sh.refs = 0 := hz
    rw [hw.refs] at this
    omega

/-- the state reached from the initial machine under `sched` -/
abbrev reach (sh : Shared) (cfg : Config) (sched : List (Nat × Bool)) : Global Unit :=
  ((initial sh cfg).run sched).1

/-- every reachable state satisfies the invariant -/
theorem reachable_inv {sh : Shared} {cfg : Config} (hw : WellFormed sh cfg) (sched : List (Nat × Bool)) :
    ∃ ts, Inv cfg (reach sh cfg sched) ts :=
  Inv.run sched (Inv.init hw)

/-! ### consequences of the invariant -/

def finished : Prog Unit → Bool
  | .ret _ => true
  | _ => false

theorem finished_prog (s : TSt) (h : finished s.prog = true) : s.unm = false ∧ s.ops = [] := by
  obtain ⟨h0, pre, ops, unm⟩ := s
  cases unm with
  | true => exact absurd h (by simp [TSt.prog, unmK, finished])
  | false =>
    rcases ops with _ | ⟨op, rest⟩
    · exact ⟨rfl, rfl⟩
    · cases op
      · exact absurd h (by simp [TSt.prog, refProg_clone, finished])
      · exact absurd h (by simp [TSt.prog, refProg_drop, finished])

theorem Inv.no_tokens {cfg : Config} {g : Global Unit} {ts : List TSt} (h : Inv cfg g ts) (hz : g.sh.refs = 0) :
    ∀ s ∈ ts, s.ops = [] := by
  intro s hs
  have h1 := le_sum TSt.tok ts s hs
  have h2 := h.cnt
  have h3 := h.bal s hs
  have : s.tok = 0 := by omega
  rw [this] at h3
  exact balanced_zero _ h3

theorem Inv.released_done {cfg : Config} {g : Global Unit} {ts : List TSt} (h : Inv cfg g ts)
    (hr : g.sh.released = 1) : ∀ p ∈ g.threads, p = .ret () := by
  intro p hp
  rw [h.progs] at hp
  obtain ⟨s, hs, rfl⟩ := List.mem_map.mp hp
  have ho := h.once
  have hz := h.zero (by omega)
  have h1 := le_sum TSt.unmN ts s hs
  have h2 := h.no_tokens hz s hs
  have h3 : s.unm = false := by
    cases hu : s.unm with
    | false => rfl
    | true => simp only [TSt.unmN, hu, if_true] at h1; omega
  simp only [TSt.prog, h2, h3, Bool.false_eq_true, if_false, refProg_nil]

theorem Inv.final_tokens {cfg : Config} {g : Global Unit} {ts : List TSt} (h : Inv cfg g ts)
    (hf : ∀ p ∈ g.threads, finished p = true) :
    g.sh.refs = (cfg.map (fun c => finalTok c.1 c.2)).sum ∧ (ts.map TSt.unmN).sum = 0 := by
  have hall : ∀ s ∈ ts, s.unm = false ∧ s.ops = [] := fun s hs =>
    finished_prog s (hf _ (by rw [h.progs]; exact List.mem_map_of_mem hs))
  refine ⟨?_, sum_zero _ _ (fun s hs => by simp only [TSt.unmN, (hall s hs).1, Bool.false_eq_true, if_false])⟩
  rw [h.cnt, ← h.orig, List.map_map]
  congr 1
  apply List.map_congr_left
  intro s hs
  simp only [Function.comp, TSt.orig, TSt.tok, (hall s hs).2, List.append_nil]

/-! ### the ghost description is determined by the machine state -/

theorem refProg_inj : ∀ (a b : List RefOp), refProg a = refProg b → a = b
  | [], [], _ => rfl
  | [], .clone :: _, h => by rw [refProg_nil, refProg_clone] at h; cases h
  | [], .drop :: _, h => by rw [refProg_nil, refProg_drop] at h; cases h
  | .clone :: _, [], h => by rw [refProg_nil, refProg_clone] at h; cases h
  | .drop :: _, [], h => by rw [refProg_nil, refProg_drop] at h; cases h
  | .clone :: a, .drop :: b, h => by
    rw [refProg_clone, refProg_drop] at h
    simp only [Prog.rmw.injEq] at h
    exact absurd h.2.2.1 (by decide)
  | .drop :: a, .clone :: b, h => by
    rw [refProg_clone, refProg_drop] at h
    simp only [Prog.rmw.injEq] at h
    exact absurd h.2.2.1 (by decide)
  | .clone :: a, .clone :: b, h => by
    rw [refProg_clone, refProg_clone] at h
    simp only [Prog.rmw.injEq] at h
    rw [refProg_inj a b (congrFun h.2.2.2.2 0)]
  | .drop :: a, .drop :: b, h => by
    rw [refProg_drop, refProg_drop] at h
    simp only [Prog.rmw.injEq] at h
    have := congrFun h.2.2.2.2 0
    simp only [ne_eq, Nat.zero_ne_one, not_false_eq_true, if_true] at this
    rw [refProg_inj a b this]

theorem unmK_inj (a b : List RefOp) (h : unmK a = unmK b) : a = b := by
  simp only [unmK, Prog.load.injEq] at h
  have := congrFun h.2.2 0
  simp only [Prog.na.injEq] at this
  exact refProg_inj a b (congrFun this.2 ())

theorem unmK_ne_refProg (a b : List RefOp) : unmK a ≠ refProg b := by
  intro h
  rcases b with _ | ⟨op, rest⟩
  · rw [refProg_nil] at h; cases h
  · cases op
    · rw [refProg_clone] at h; cases h
    · rw [refProg_drop] at h; cases h

theorem TSt.ext_of_prog_orig (s s' : TSt) (hp : s.prog = s'.prog) (ho : s.orig = s'.orig) : s = s' := by
  obtain ⟨h0, pre, ops, unm⟩ := s
  obtain ⟨h0', pre', ops', unm'⟩ := s'
  simp only [TSt.orig, Prod.mk.injEq] at ho
  obtain ⟨rfl, ho⟩ := ho
  have key : unm = unm' ∧ ops = ops' := by
    cases unm <;> cases unm' <;> simp only [TSt.prog, Bool.false_eq_true, if_false, if_true] at hp
    · exact ⟨rfl, refProg_inj _ _ hp⟩
    · exact absurd hp.symm (unmK_ne_refProg _ _)
    · exact absurd hp (unmK_ne_refProg _ _)
    · exact ⟨rfl, unmK_inj _ _ hp⟩
  obtain ⟨rfl, rfl⟩ := key
  rw [List.append_cancel_right ho]

/-- the ghost state is a function of the thread programs and the initial configuration -/
theorem ghost_unique : ∀ (ts ts' : List TSt), ts.map TSt.prog = ts'.map TSt.prog →
    ts.map TSt.orig = ts'.map TSt.orig → ts = ts'
  | [], [], _, _ => rfl
  | [], _ :: _, h, _ => by cases h
  | _ :: _, [], h, _ => by cases h
  | s :: ts, s' :: ts', h1, h2 => by
    simp only [List.map_cons, List.cons.injEq] at h1 h2
    rw [TSt.ext_of_prog_orig s s' h1.1 h2.1, ghost_unique ts ts' h1.2 h2.2]

/-! ### after the release nothing moves -/

theorem step_finished (g : Global Unit) (tid : Nat) (sp : Bool) (h : ∀ p ∈ g.threads, p = .ret ()) :
    g.step tid sp = (g, none) := by
  unfold Global.step
  rcases hp : g.threads[tid]? with _ | p
  · rfl
  · have := h p (List.mem_of_getElem? hp)
    subst this
    obtain ⟨hlt, he⟩ := List.getElem?_eq_some_iff.mp hp
    have hset : g.threads.set tid (.ret ()) = g.threads := by
      rw [← he]; exact List.set_getElem_self hlt
    simp only [fuel_eq, settle_ret, hset]

theorem run_finished (g : Global Unit) (h : ∀ p ∈ g.threads, p = .ret ()) :
    ∀ sched : List (Nat × Bool), g.run sched = (g, [])
  | [] => rfl
  | (tid, sp) :: rest => by
    simp only [Global.run, step_finished g tid sp h, run_finished g h rest]

/-! ### the same facts read off the trace of atomic accesses -/

/-- (1) and (3) in terms of the observable trace of the run: the counter is the initial number of references
    plus the `fetch_add`s minus the `fetch_sub`s performed on it; at most one `fetch_sub` returns 1 (its thread
    was the unique last holder), from then on the counter is 0, and the memory is not released before it -/
theorem trace_accounting (sh : Shared) (cfg : Config) (hw : WellFormed sh cfg) (sched : List (Nat × Bool)) :
    ((initial sh cfg).run sched).1.sh.refs + nFas ((initial sh cfg).run sched).2 =
      (cfg.map (·.1)).sum + nFaa ((initial sh cfg).run sched).2 ∧
    nOne ((initial sh cfg).run sched).2 ≤ 1 ∧
    ((initial sh cfg).run sched).1.sh.released ≤ nOne ((initial sh cfg).run sched).2 ∧
    (nOne ((initial sh cfg).run sched).2 = 1 → ((initial sh cfg).run sched).1.sh.refs = 0) := by
  obtain ⟨ts, h, a1, a2⟩ := Inv.run_trace sched (Inv.init hw)
  rw [init_unm cfg] at a2
  have r0 : (initial sh cfg).sh.released = 0 := hw.released
  have r1 : (initial sh cfg).sh.refs = (cfg.map (·.1)).sum := hw.refs
  have ho := h.once
  have hz := h.zero
  refine ⟨by omega, by omega, by omega, fun h1 => hz (by omega)⟩

/-! ### the theorems -/

/-- `ts` describes the threads of `g`: thread `i` started with `h0` references and the operations
    `pre ++ ops = cfg[i].2`, has executed the RMW on `refs` of every operation in `pre` (so it holds
    `tok = finalTok h0 pre` references: one more per executed `faa`, one less per executed `fas`), has not started
    `ops`, may legally perform them, and its program is `refProg ops` — or, if `unm`, the pending acquire load and
    `unmount` of its last `drop` followed by `refProg ops`. By `ghost_unique` there is at most one such `ts`. -/
def Describes (cfg : Config) (g : Global Unit) (ts : List TSt) : Prop :=
  g.threads = ts.map TSt.prog ∧ ts.map TSt.orig = cfg ∧ ∀ s ∈ ts, Balanced s.tok s.ops

theorem Describes.unique {cfg : Config} {g : Global Unit} {ts ts' : List TSt}
    (h : Describes cfg g ts) (h' : Describes cfg g ts') : ts = ts' :=
  ghost_unique ts ts' (h.1.symm.trans h'.1) (h.2.1.trans h'.2.1.symm)

/-- (1) in every reachable state the counter equals the number of references held by the threads -/
theorem refs_counts_tokens (sh : Shared) (cfg : Config) (hw : WellFormed sh cfg) (sched : List (Nat × Bool)) :
    ∃ ts, Describes cfg (reach sh cfg sched) ts ∧ (reach sh cfg sched).sh.refs = (ts.map TSt.tok).sum := by
  obtain ⟨ts, h⟩ := reachable_inv hw sched
  exact ⟨ts, ⟨h.progs, h.orig, h.bal⟩, h.cnt⟩

/-- (2a) the memory is released at most once; more precisely executed releases plus threads that are committed
    to releasing (they saw `old = 1` and have the acquire load and `unmount` ahead) are at most one -/
theorem released_at_most_once (sh : Shared) (cfg : Config) (hw : WellFormed sh cfg) (sched : List (Nat × Bool)) :
    (reach sh cfg sched).sh.released ≤ 1 ∧
    ∃ ts, Describes cfg (reach sh cfg sched) ts ∧
      (reach sh cfg sched).sh.released + (ts.filter TSt.unm).length ≤ 1 := by
  obtain ⟨ts, h⟩ := reachable_inv hw sched
  have ho := h.once
  have e : (ts.map TSt.unmN).sum = (ts.filter TSt.unm).length := by
    clear h ho
    induction ts with
    | nil => rfl
    | cons a l ih =>
      cases ha : a.unm <;>
        simp [TSt.unmN, ha, ih, Nat.add_comm]
  exact ⟨by omega, ts, ⟨h.progs, h.orig, h.bal⟩, by omega⟩

/-- (2b) it is released only after the counter has reached zero (and the counter stays zero: see
    `nothing_after_release`) -/
theorem released_only_at_zero (sh : Shared) (cfg : Config) (hw : WellFormed sh cfg) (sched : List (Nat × Bool)) :
    (reach sh cfg sched).sh.released = 1 → (reach sh cfg sched).sh.refs = 0 := by
  obtain ⟨ts, h⟩ := reachable_inv hw sched
  intro hr
  have ho := h.once
  exact h.zero (by omega)

/-- (3) once the memory is released every thread has finished: no operation is left or in progress, no thread
    holds a reference, and whatever is scheduled afterwards changes nothing and performs no access -/
theorem nothing_after_release (sh : Shared) (cfg : Config) (hw : WellFormed sh cfg) (sched : List (Nat × Bool))
    (hr : (reach sh cfg sched).sh.released = 1) :
    (∀ p ∈ (reach sh cfg sched).threads, p = .ret ()) ∧
    (∃ ts, Describes cfg (reach sh cfg sched) ts ∧ ∀ s ∈ ts, s.ops = [] ∧ s.unm = false ∧ s.tok = 0) ∧
    (∀ more, (reach sh cfg sched).run more = (reach sh cfg sched, [])) := by
  obtain ⟨ts, h⟩ := reachable_inv hw sched
  have hdone := h.released_done hr
  refine ⟨hdone, ⟨ts, ⟨h.progs, h.orig, h.bal⟩, fun s hs => ?_⟩, run_finished _ hdone⟩
  have hfin := finished_prog s (by
    rw [hdone s.prog (by rw [h.progs]; exact List.mem_map_of_mem hs)]; rfl)
  have ho := h.once
  have hz := h.zero (by omega)
  have h1 := le_sum TSt.tok ts s hs
  have h2 := h.cnt
  exact ⟨hfin.2, hfin.1, by omega⟩

/-- (4a) if every thread has run to completion and every thread dropped everything it held (and there was a
    reference to begin with), the memory has been released (exactly once, by `released_at_most_once`) -/
theorem all_dropped_releases (sh : Shared) (cfg : Config) (hw : WellFormed sh cfg) (sched : List (Nat × Bool))
    (hfin : ∀ p ∈ (reach sh cfg sched).threads, finished p = true)
    (hall : ∀ c ∈ cfg, finalTok c.1 c.2 = 0) (hpos : 0 < (cfg.map (·.1)).sum) :
    (reach sh cfg sched).sh.released = 1 := by
  obtain ⟨ts, h⟩ := reachable_inv hw sched
  obtain ⟨h1, h2⟩ := h.final_tokens hfin
  have h3 := sum_zero (fun c : Nat × List RefOp => finalTok c.1 c.2) cfg hall
  have := h.pos hpos (by omega)
  omega

/-- (4b) if every thread has run to completion and some thread still holds a reference, the memory has not been
    released (more generally, by `released_only_at_zero`, whenever the counter is not zero) -/
theorem held_token_prevents_release (sh : Shared) (cfg : Config) (hw : WellFormed sh cfg)
    (sched : List (Nat × Bool)) (hfin : ∀ p ∈ (reach sh cfg sched).threads, finished p = true)
    (hheld : ∃ c ∈ cfg, 0 < finalTok c.1 c.2) :
    (reach sh cfg sched).sh.released = 0 := by
  obtain ⟨ts, h⟩ := reachable_inv hw sched
  obtain ⟨h1, h2⟩ := h.final_tokens hfin
  obtain ⟨c, hc, hc'⟩ := hheld
  have h3 := le_sum (fun c : Nat × List RefOp => finalTok c.1 c.2) cfg c hc
  have ho := h.once
  have hz := h.zero
  rcases Nat.lt_or_ge (reach sh cfg sched).sh.released 1 with hlt | hge
  · omega
  · have := hz (by omega)
    omega

/-! ### non-vacuity: two threads holding one reference each, the two drops interleaved -/

def cfg2 : Config := [(1, [.drop]), (1, [.drop])]
def sh2 : Shared := { st := default, refs := 2 }
/-- thread 0 decrements (old = 2), thread 1 decrements (old = 1), thread 1 loads and unmounts -/
def sched2 : List (Nat × Bool) := [(0, false), (1, false), (1, false)]

theorem wf2 : WellFormed sh2 cfg2 := ⟨by decide, by decide, by decide, by decide⟩

example : (reach sh2 cfg2 sched2).sh.released = 1 :=
  all_dropped_releases sh2 cfg2 wf2 sched2 (by decide) (by decide) (by decide)

/-- the hypotheses hold and the conclusion is what the machine computes -/
example : (reach sh2 cfg2 sched2).sh.released = 1 ∧ (reach sh2 cfg2 sched2).sh.refs = 0 ∧
    (reach sh2 cfg2 sched2).threads.all finished = true := by decide

/-- its trace: two `fetch_sub`s, exactly one of them returned 1 -/
example : nFas ((initial sh2 cfg2).run sched2).2 = 2 ∧ nOne ((initial sh2 cfg2).run sched2).2 = 1 ∧
    nFaa ((initial sh2 cfg2).run sched2).2 = 0 := by decide

/-- in between (both decrements done, unmount pending) nothing is released yet and thread 1 is committed -/
example : (reach sh2 cfg2 [(0, false), (1, false)]).sh.released = 0 ∧
    (reach sh2 cfg2 [(0, false), (1, false)]).sh.refs = 0 := by decide

/-- a thread that clones and keeps the clone prevents the release -/
example : (reach sh2 [(1, [.clone, .drop]), (1, [.drop])] [(0, false), (1, false), (0, false), (1, false)]).sh.released = 0 :=
  held_token_prevents_release sh2 _ ⟨by decide, by decide, by decide, by decide⟩ _ (by decide) (by decide)

end Rarena.Conc.Refs
