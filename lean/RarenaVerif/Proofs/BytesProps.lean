/-
  Proofs.BytesProps — buffer writers/readers (C14), arena-level readers (C15), page-chunked checksum (C19).
  (statement file: every `sorry` below is a proof obligation)
-/
import RarenaVerif.Model.Bytes
import RarenaVerif.Proofs.Mem

namespace Rarena

/-- the integer types of the API -/
def IntTy.valid (t : IntTy) : Prop := t.bytes = 1 ∨ t.bytes = 2 ∨ t.bytes = 4 ∨ t.bytes = 8 ∨ t.bytes = 16

/-- the buffer lies inside the memory -/
def Handle.inMem (h : Handle) (mem : Mem) : Prop := h.mt.ptrOff + h.mt.ptrSize ≤ mem.size ∧ h.len ≤ h.mt.ptrSize

/-- `m'` differs from `m` only inside `[lo, hi)` -/
def Mem.sameOutside (m m' : Mem) (lo hi : Nat) : Prop := m'.size = m.size ∧ ∀ i, (i < lo ∨ hi ≤ i) → m'.rd i = m.rd i

/-! ### C14: fixed-width puts and gets -/

theorem encode_decode (t : IntTy) (v : Int) (ht : t.valid) (hv : t.inRange v = true) : t.decode (t.encode v) = v := by
  sorry

theorem encode_lt (t : IntTy) (v : Int) (ht : t.valid) : t.encode v < 256 ^ t.bytes := by
  sorry

theorem readBE_writeBE_same (m : Mem) (off w v : Nat) (hb : off + w ≤ m.size) :
    (m.writeBE off w v).readBE off w = v % 256 ^ w := by
  sorry

theorem readInt_writeInt (m : Mem) (off : Nat) (t : IntTy) (o : Order) (v : Int) (ht : t.valid)
    (hv : t.inRange v = true) (hb : off + t.bytes ≤ m.size) : (m.writeInt off t o v).readInt off t o = v := by
  sorry

/-- a put that fits stores inside the buffer, right after the written part, and advances `len` -/
theorem bufPut_ok (mem : Mem) (h : Handle) (t : IntTy) (o : Order) (v : Int) (hfit : h.len + t.bytes ≤ h.mt.ptrSize) :
    ∃ mem' h', bufPut mem h t o v = .ok (mem', h') ∧ h'.len = h.len + t.bytes ∧ h'.mt = h.mt ∧
      mem.sameOutside mem' (h.mt.ptrOff + h.len) (h.mt.ptrOff + h.len + t.bytes) := by
  sorry

/-- a put that does not fit fails and (returning no new memory) leaves every byte and `len` unchanged -/
theorem bufPut_err (mem : Mem) (h : Handle) (t : IntTy) (o : Order) (v : Int) (hfit : ¬ h.len + t.bytes ≤ h.mt.ptrSize) :
    bufPut mem h t o v = .error .insufficient := by
  sorry

/-- put followed by the get of the same type and order returns the value and restores `len` -/
theorem bufPut_get (mem mem' : Mem) (h h' : Handle) (t : IntTy) (o : Order) (v : Int) (ht : t.valid)
    (hv : t.inRange v = true) (hin : h.inMem mem) (hp : bufPut mem h t o v = .ok (mem', h')) :
    ∃ h'', bufGet mem' h' t o = .ok (v, h'') ∧ h''.len = h.len ∧ h''.mt = h.mt := by
  sorry

theorem bufGet_err (mem : Mem) (h : Handle) (t : IntTy) (o : Order) (hlen : h.len < t.bytes) :
    bufGet mem h t o = .error .incomplete := by
  sorry

theorem bufPutSlice_ok (mem : Mem) (h : Handle) (l : Nat) (b : UInt8) (hfit : h.len + l ≤ h.mt.ptrSize) :
    ∃ mem' h', bufPutSlice mem h l b = .ok (mem', h') ∧ h'.len = h.len + l ∧
      mem.sameOutside mem' (h.mt.ptrOff + h.len) (h.mt.ptrOff + h.len + l) ∧
      ∀ i, h.mt.ptrOff + h.len ≤ i → i < h.mt.ptrOff + h.len + l → i < mem.size → mem'.rd i = b.toNat := by
  sorry

theorem bufPutSlice_err (mem : Mem) (h : Handle) (l : Nat) (b : UInt8) (hfit : ¬ h.len + l ≤ h.mt.ptrSize) :
    bufPutSlice mem h l b = .error .insufficient := by
  sorry

/-- `set_len` zero-fills the bytes it exposes or hides and touches nothing else -/
theorem bufSetLen_spec (mem : Mem) (h : Handle) (n : Nat) (hn : n ≤ h.mt.ptrSize) (hin : h.inMem mem) :
    ∃ mem' h', bufSetLen mem h n = .ok (mem', h') ∧ h'.len = n ∧ h'.mt = h.mt ∧
      mem.sameOutside mem' (h.mt.ptrOff + min n h.len) (h.mt.ptrOff + max n h.len) ∧
      ∀ i, h.mt.ptrOff + min n h.len ≤ i → i < h.mt.ptrOff + max n h.len → mem'.rd i = 0 := by
  sorry

/-- `align_to` yields an offset aligned for `T` inside `[offset, offset+capacity]`, or an error -/
theorem bufAlignTo_spec (h : Handle) (ta ts : Nat) (hta : ta = 1 ∨ ta = 2 ∨ ta = 4 ∨ ta = 8 ∨ ta = 16) (hts : ts ≠ 0)
    (hsmall : h.mt.ptrOff + h.mt.ptrSize + 16 < TWO32) (hlen : h.len ≤ h.mt.ptrSize) :
    (∃ p h', bufAlignTo h ta ts = .ok (.ok (some p, h')) ∧ p % ta = 0 ∧ h.mt.ptrOff + h.len ≤ p ∧
        p ≤ h.mt.ptrOff + h.mt.ptrSize ∧ h'.len = p - h.mt.ptrOff ∧ h'.mt = h.mt) ∨
    bufAlignTo h ta ts = .ok (.error .insufficient) := by
  sorry

/-- `put_aligned` either stores `size_of::<T>()` bytes at an aligned position inside the buffer, or fails
    without touching memory or `len` -/
theorem bufPutAligned_spec (mem : Mem) (h : Handle) (ta ts : Nat) (b : UInt8)
    (hta : ta = 1 ∨ ta = 2 ∨ ta = 4 ∨ ta = 8 ∨ ta = 16) (hts : ts ≠ 0)
    (hsmall : h.mt.ptrOff + h.mt.ptrSize + 16 < TWO32) (hlen : h.len ≤ h.mt.ptrSize) :
    (∃ p mem' h', bufPutAligned mem h ta ts b = .ok (.ok (some p, mem', h')) ∧ p % ta = 0 ∧
        h.mt.ptrOff + h.len ≤ p ∧ p + ts ≤ h.mt.ptrOff + h.mt.ptrSize ∧ h'.len = p - h.mt.ptrOff + ts ∧
        mem.sameOutside mem' p (p + ts)) ∨
    bufPutAligned mem h ta ts b = .ok (.error .insufficient) := by
  sorry

/-! ### C14: LEB128 -/

/-- a varint put writes only inside the remaining part of the buffer, whether it succeeds or not -/
theorem bufPutVarint_frame (mem : Mem) (h : Handle) (t : IntTy) (v : Int) (hlen : h.len ≤ h.mt.ptrSize) :
    mem.sameOutside (bufPutVarint mem h t v).1 (h.mt.ptrOff + h.len) (h.mt.ptrOff + h.mt.ptrSize) := by
  sorry

theorem bufPutVarint_len (mem : Mem) (h h' : Handle) (t : IntTy) (v : Int) (n : Nat) (mem' : Mem)
    (hp : bufPutVarint mem h t v = (mem', .ok (n, h'))) :
    h'.len = h.len + n ∧ h.len + n ≤ h.mt.ptrSize ∧ 1 ≤ n := by
  sorry

theorem unzigzag_zigzag (t : IntTy) (v : Int) (ht : t.valid) (hs : t.signed = true) (hv : t.inRange v = true) :
    unzigzag (zigzag t v) = v := by
  sorry

/-- encoding then decoding an unsigned payload `u < 256^bytes` (bytes ∈ {2,4,8,16}) gives it back,
    together with the number of bytes written -/
theorem decode_encode_varint (mem mem' : Mem) (off room bytes u n : Nat)
    (hb : bytes = 2 ∨ bytes = 4 ∨ bytes = 8 ∨ bytes = 16) (hu : u < 256 ^ bytes) (hm : off + room ≤ mem.size)
    (he : encodeVarintTo mem off room 40 u 0 = (mem', some n)) (avail : Nat) (ha : n ≤ avail) :
    decodeVarint mem' off avail bytes 40 0 0 0 = .ok (n, u) := by
  sorry

/-- a LEB128 put on an empty buffer followed by the matching varint get returns the encoded length and the value -/
theorem leb_roundtrip (mem mem' : Mem) (h h' : Handle) (t : IntTy) (v : Int) (n : Nat)
    (ht : t.bytes = 2 ∨ t.bytes = 4 ∨ t.bytes = 8 ∨ t.bytes = 16) (hv : t.inRange v = true)
    (hin : h.inMem mem) (hempty : h.len = 0) (hp : bufPutVarint mem h t v = (mem', .ok (n, h'))) :
    bufGetVarint mem' h' t = .ok (n, v) := by
  sorry

/-! ### C15: arena-level readers -/

/-- the fixed-width readers succeed exactly when the whole value lies below `allocated`, for every `usize` offset -/
theorem rdFixed_ok_iff (img : Mem) (allocated offset : Nat) (t : IntTy) (o : Order) (ht : t.valid)
    (hoff : offset < TWO64) (hal : allocated < TWO32) :
    (∃ v, rdFixed img allocated offset t o = .ok v) ↔ offset + t.bytes ≤ allocated := by
  sorry

theorem rdFixed_val (img : Mem) (allocated offset : Nat) (t : IntTy) (o : Order) (v : Int)
    (h : rdFixed img allocated offset t o = .ok v) : v = img.readInt offset t o ∧ offset + t.bytes ≤ allocated := by
  sorry

theorem rdFixed_oob (img : Mem) (allocated offset : Nat) (t : IntTy) (o : Order) (ht : t.valid)
    (h : ¬ offset + t.bytes ≤ allocated) : rdFixed img allocated offset t o = .error .outOfBounds := by
  sorry

/-- varint readers never consume bytes at or above `allocated` -/
theorem rdVarint_below (img : Mem) (allocated offset : Nat) (t : IntTy) (n : Nat) (v : Int)
    (h : rdVarint img allocated offset t = .ok (n, v)) : offset + n ≤ allocated ∧ 1 ≤ n := by
  sorry

theorem rdVarint_oob (img : Mem) (allocated offset : Nat) (t : IntTy) (h : allocated ≤ offset) :
    rdVarint img allocated offset t = .error .outOfBounds := by
  sorry

/-- the decoder's result depends only on the bytes below `allocated` -/
theorem rdVarint_congr (img img' : Mem) (allocated offset : Nat) (t : IntTy)
    (h : ∀ i, i < allocated → img.rd i = img'.rd i) :
    rdVarint img allocated offset t = rdVarint img' allocated offset t := by
  sorry

/-! ### C19: checksum -/

/-- feeding full pages and then the remainder equals feeding the whole slice, for every streaming
    checksummer, every data and every page size > 0 -/
theorem checksum_chunking {σ : Type} (c : Checksummer σ) (page : Nat) (hp : 0 < page) (data : List UInt8) :
    c.chunked page data = c.oneShot data := by
  sorry

theorem checksumData_length (img : Mem) (reserved allocated : Nat) (h1 : reserved ≤ allocated) (h2 : allocated ≤ img.size) :
    (checksumData img reserved allocated).length = allocated - reserved := by
  sorry

theorem checksumData_get (img : Mem) (reserved allocated k : Nat) (h1 : reserved ≤ allocated) (h2 : allocated ≤ img.size)
    (hk : k < allocated - reserved) : ((checksumData img reserved allocated)[k]?.map UInt8.toNat) = some (img.rd (reserved + k)) := by
  sorry

end Rarena
