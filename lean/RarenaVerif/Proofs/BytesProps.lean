/-
  Proofs.BytesProps — buffer writers/readers (C14), arena-level readers (C15), page-chunked checksum (C19).
  (all proof obligations of the statement file are discharged below)
-/
import RarenaVerif.Model.Bytes
import RarenaVerif.Proofs.Mem

namespace Rarena

/-- the integer types of the API -/
def IntTy.valid (t : IntTy) : Prop := t.bytes = 1 ∨ t.bytes = 2 ∨ t.bytes = 4 ∨ t.bytes = 8 ∨ t.bytes = 16

/-- the buffer lies inside the memory -/
def Handle.inMem (h : Handle) (mem : Mem) : Prop := h.mt.ptrOff + h.mt.ptrSize ≤ mem.size ∧ h.len ≤ h.mt.ptrSize

/-- `m'` differs from `m` only inside `[lo, hi)` -/
def Mem.sameOutside (m m' : Mem) (lo hi : Nat) : Prop := m'.size = m.size ∧ ∀ i, (i < lo ∨ hi ≤ i) → m'.rd i = m.rd i

/-! ### C14: fixed-width puts and gets -/

theorem encode_decode (t : IntTy) (v : Int) (ht : t.valid) (hv : t.inRange v = true) : t.decode (t.encode v) = v := by
  obtain ⟨b, s⟩ := t
  unfold IntTy.valid at ht
  simp only at ht
  unfold IntTy.inRange at hv
  unfold IntTy.decode IntTy.encode IntTy.modulus at *
  simp only at *
  rcases ht with h|h|h|h|h <;> subst h <;> cases s <;> simp at hv ⊢ <;> omega

theorem encode_lt (t : IntTy) (v : Int) (ht : t.valid) : t.encode v < 256 ^ t.bytes := by
  obtain ⟨b, s⟩ := t
  unfold IntTy.valid at ht
  simp only at ht
  unfold IntTy.encode IntTy.modulus at *
  simp only at *
  rcases ht with h|h|h|h|h <;> subst h <;> simp <;> omega

theorem Mem.readBE_of_bytes (m : Mem) (off w : Nat) (v : Nat)
    (h : ∀ k, k < w → m.rd (off + k) = v / 256 ^ (w - 1 - k) % 256) : m.readBE off w = v % 256 ^ w := by
  induction w generalizing off with
  | zero => simp [Mem.readBE, Nat.mod_one]
  | succ w ih =>
    simp only [Mem.readBE]
    have h0 := h 0 (by omega)
    simp at h0
    rw [h0]
    have := ih (off + 1) (by
      intro k hk
      have := h (k + 1) (by omega)
      rw [show off + 1 + k = off + (k + 1) by omega, this]
      congr 3; omega)
    rw [this, Nat.pow_succ, Nat.mod_mul]
    rw [Nat.mul_comm]; omega

theorem readBE_writeBE_same (m : Mem) (off w v : Nat) (hb : off + w ≤ m.size) :
    (m.writeBE off w v).readBE off w = v % 256 ^ w := by
  apply Mem.readBE_of_bytes
  intro k hk
  unfold Mem.writeBE
  rw [Mem.rd_update, if_pos (by omega), Mem.byteLE_toNat]
  simp

theorem readInt_writeInt (m : Mem) (off : Nat) (t : IntTy) (o : Order) (v : Int) (ht : t.valid)
    (hv : t.inRange v = true) (hb : off + t.bytes ≤ m.size) : (m.writeInt off t o v).readInt off t o = v := by
  unfold Mem.readInt Mem.writeInt
  have hlt := encode_lt t v ht
  cases o <;> simp only
  · rw [readBE_writeBE_same _ _ _ _ hb, Nat.mod_eq_of_lt hlt, encode_decode t v ht hv]
  · rw [Mem.readLE_writeLE_same _ _ _ _ hb, Nat.mod_eq_of_lt hlt, encode_decode t v ht hv]

theorem Mem.sameOutside_update (m : Mem) (lo hi : Nat) (f : Nat → UInt8) (lo' hi' : Nat) (h1 : lo' ≤ lo) (h2 : hi ≤ hi') :
    m.sameOutside (m.update lo hi f) lo' hi' :=
  ⟨Mem.size_update _ _ _ _, fun i hi => Mem.rd_update_out _ _ _ _ _ (by omega)⟩

theorem Mem.sameOutside_writeInt (m : Mem) (off : Nat) (t : IntTy) (o : Order) (v : Int) :
    m.sameOutside (m.writeInt off t o v) off (off + t.bytes) := by
  unfold Mem.writeInt
  cases o <;> simp only [Mem.writeBE, Mem.writeLE] <;> exact Mem.sameOutside_update _ _ _ _ _ _ (Nat.le_refl _) (Nat.le_refl _)

/-- a put that fits stores inside the buffer, right after the written part, and advances `len` -/
theorem bufPut_ok (mem : Mem) (h : Handle) (t : IntTy) (o : Order) (v : Int) (hfit : h.len + t.bytes ≤ h.mt.ptrSize) :
    ∃ mem' h', bufPut mem h t o v = .ok (mem', h') ∧ h'.len = h.len + t.bytes ∧ h'.mt = h.mt ∧
      mem.sameOutside mem' (h.mt.ptrOff + h.len) (h.mt.ptrOff + h.len + t.bytes) := by
  unfold bufPut
  rw [if_neg (by omega)]
  exact ⟨_, _, rfl, rfl, rfl, Mem.sameOutside_writeInt _ _ _ _ _⟩

/-- a put that does not fit fails and (returning no new memory) leaves every byte and `len` unchanged -/
theorem bufPut_err (mem : Mem) (h : Handle) (t : IntTy) (o : Order) (v : Int) (hfit : ¬ h.len + t.bytes ≤ h.mt.ptrSize) :
    bufPut mem h t o v = .error .insufficient := by
  unfold bufPut
  rw [if_pos (by omega)]

/-- put followed by the get of the same type and order returns the value and restores `len` -/
theorem bufPut_get (mem mem' : Mem) (h h' : Handle) (t : IntTy) (o : Order) (v : Int) (ht : t.valid)
    (hv : t.inRange v = true) (hin : h.inMem mem) (hp : bufPut mem h t o v = .ok (mem', h')) :
    ∃ h'', bufGet mem' h' t o = .ok (v, h'') ∧ h''.len = h.len ∧ h''.mt = h.mt := by
  unfold bufPut at hp
  obtain ⟨hin1, hin2⟩ := hin
  split at hp
  · cases hp
  · rename_i hfit
    simp only [Except.ok.injEq, Prod.mk.injEq] at hp
    obtain ⟨rfl, rfl⟩ := hp
    unfold bufGet
    simp only
    rw [if_neg (by omega)]
    refine ⟨{ h with len := h.len + t.bytes - t.bytes }, ?_, ?_, rfl⟩
    · rw [show h.mt.ptrOff + (h.len + t.bytes) - t.bytes = h.mt.ptrOff + h.len by omega,
        readInt_writeInt _ _ _ _ _ ht hv (by omega)]
    · simp

theorem bufGet_err (mem : Mem) (h : Handle) (t : IntTy) (o : Order) (hlen : h.len < t.bytes) :
    bufGet mem h t o = .error .incomplete := by
  unfold bufGet
  rw [if_pos hlen]

theorem bufPutSlice_ok (mem : Mem) (h : Handle) (l : Nat) (b : UInt8) (hfit : h.len + l ≤ h.mt.ptrSize) :
    ∃ mem' h', bufPutSlice mem h l b = .ok (mem', h') ∧ h'.len = h.len + l ∧
      mem.sameOutside mem' (h.mt.ptrOff + h.len) (h.mt.ptrOff + h.len + l) ∧
      ∀ i, h.mt.ptrOff + h.len ≤ i → i < h.mt.ptrOff + h.len + l → i < mem.size → mem'.rd i = b.toNat := by
  unfold bufPutSlice
  rw [if_neg (by omega)]
  refine ⟨_, _, rfl, rfl, ?_, ?_⟩
  · exact Mem.sameOutside_update _ _ _ _ _ _ (Nat.le_refl _) (Nat.le_refl _)
  · intro i h1 h2 h3
    rw [Mem.rd_fill, if_pos ⟨h1, h2, h3⟩]

theorem bufPutSlice_err (mem : Mem) (h : Handle) (l : Nat) (b : UInt8) (hfit : ¬ h.len + l ≤ h.mt.ptrSize) :
    bufPutSlice mem h l b = .error .insufficient := by
  unfold bufPutSlice
  rw [if_pos (by omega)]

/-- `set_len` zero-fills the bytes it exposes or hides and touches nothing else -/
theorem bufSetLen_spec (mem : Mem) (h : Handle) (n : Nat) (hn : n ≤ h.mt.ptrSize) (hin : h.inMem mem) :
    ∃ mem' h', bufSetLen mem h n = .ok (mem', h') ∧ h'.len = n ∧ h'.mt = h.mt ∧
      mem.sameOutside mem' (h.mt.ptrOff + min n h.len) (h.mt.ptrOff + max n h.len) ∧
      ∀ i, h.mt.ptrOff + min n h.len ≤ i → i < h.mt.ptrOff + max n h.len → mem'.rd i = 0 := by
  have _ := hin
  unfold bufSetLen
  rw [if_neg (by omega)]
  by_cases h1 : n = h.len
  · rw [if_pos h1]
    refine ⟨_, _, rfl, h1.symm, rfl, ⟨rfl, fun _ _ => rfl⟩, ?_⟩
    intro i h2 h3; omega
  · rw [if_neg h1]
    by_cases h2 : n > h.len
    · rw [if_pos h2]
      refine ⟨_, _, rfl, rfl, rfl, ⟨Mem.size_zero _ _ _, ?_⟩, ?_⟩
      · intro i hi; exact Mem.rd_zero_out _ _ _ _ (by omega)
      · intro i h3 h4; exact Mem.rd_zero_in _ _ _ _ (by omega) (by omega)
    · rw [if_neg h2]
      refine ⟨_, _, rfl, rfl, rfl, ⟨Mem.size_zero _ _ _, ?_⟩, ?_⟩
      · intro i hi; exact Mem.rd_zero_out _ _ _ _ (by omega)
      · intro i h3 h4; exact Mem.rd_zero_in _ _ _ _ (by omega) (by omega)

theorem alignOffset_ok_small (a x : Nat) (ha : a = 1 ∨ a = 2 ∨ a = 4 ∨ a = 8 ∨ a = 16) (hx : x + 16 < TWO32) :
    ∃ p, alignOffset a x = .ok p ∧ p % a = 0 ∧ x ≤ p ∧ p < x + a := by
  unfold alignOffset
  rw [if_pos (by rcases ha with rfl|rfl|rfl|rfl|rfl <;> omega)]
  refine ⟨_, rfl, ?_⟩
  rcases ha with rfl|rfl|rfl|rfl|rfl <;> omega

/-- `align_to` yields an offset aligned for `T` inside `[offset, offset+capacity]`, or an error -/
theorem bufAlignTo_spec (h : Handle) (ta ts : Nat) (hta : ta = 1 ∨ ta = 2 ∨ ta = 4 ∨ ta = 8 ∨ ta = 16) (hts : ts ≠ 0)
    (hsmall : h.mt.ptrOff + h.mt.ptrSize + 16 < TWO32) (hlen : h.len ≤ h.mt.ptrSize) :
    (∃ p h', bufAlignTo h ta ts = .ok (.ok (some p, h')) ∧ p % ta = 0 ∧ h.mt.ptrOff + h.len ≤ p ∧
        p ≤ h.mt.ptrOff + h.mt.ptrSize ∧ h'.len = p - h.mt.ptrOff ∧ h'.mt = h.mt) ∨
    bufAlignTo h ta ts = .ok (.error .insufficient) := by
  obtain ⟨p, hp, hp1, hp2, hp3⟩ := alignOffset_ok_small ta (h.mt.ptrOff + h.len) hta (by omega)
  unfold bufAlignTo
  rw [if_neg hts, hp]
  by_cases hc : p > h.mt.ptrOff + h.mt.ptrSize
  · right
    show (if p > h.mt.ptrOff + h.mt.ptrSize then _ else _) = _
    rw [if_pos hc]; rfl
  · left
    refine ⟨p, { h with len := p - h.mt.ptrOff }, ?_, hp1, hp2, by omega, rfl, rfl⟩
    show (if p > h.mt.ptrOff + h.mt.ptrSize then _ else _) = _
    rw [if_neg hc]; rfl

/-- `put_aligned` either stores `size_of::<T>()` bytes at an aligned position inside the buffer, or fails
    without touching memory or `len` -/
theorem bufPutAligned_spec (mem : Mem) (h : Handle) (ta ts : Nat) (b : UInt8)
    (hta : ta = 1 ∨ ta = 2 ∨ ta = 4 ∨ ta = 8 ∨ ta = 16) (hts : ts ≠ 0)
    (hsmall : h.mt.ptrOff + h.mt.ptrSize + 16 < TWO32) (hlen : h.len ≤ h.mt.ptrSize) :
    (∃ p mem' h', bufPutAligned mem h ta ts b = .ok (.ok (some p, mem', h')) ∧ p % ta = 0 ∧
        h.mt.ptrOff + h.len ≤ p ∧ p + ts ≤ h.mt.ptrOff + h.mt.ptrSize ∧ h'.len = p - h.mt.ptrOff + ts ∧
        mem.sameOutside mem' p (p + ts)) ∨
    bufPutAligned mem h ta ts b = .ok (.error .insufficient) := by
  unfold bufPutAligned
  rcases bufAlignTo_spec h ta ts hta hts hsmall hlen with ⟨p, h1, he, hp1, hp2, hp3, hl, hm⟩ | he
  · rw [he]
    by_cases hc : h1.len + ts > h1.mt.ptrSize
    · right
      show (if h1.len + ts > h1.mt.ptrSize then _ else _) = _
      rw [if_pos hc]; rfl
    · left
      refine ⟨p, mem.fill (h1.mt.ptrOff + h1.len) ts b, { h1 with len := h1.len + ts }, ?_, hp1, hp2, ?_, ?_, ?_⟩
      · show (if h1.len + ts > h1.mt.ptrSize then _ else _) = _
        rw [if_neg hc]; rfl
      · rw [hl, hm] at hc; omega
      · show h1.len + ts = _
        rw [hl]
      · rw [hm, hl, show h.mt.ptrOff + (p - h.mt.ptrOff) = p by omega]
        exact Mem.sameOutside_update _ _ _ _ _ _ (Nat.le_refl _) (Nat.le_refl _)
  · right
    rw [he]; rfl

/-! ### C14: LEB128 -/

theorem Mem.sameOutside_refl (m : Mem) (lo hi : Nat) : m.sameOutside m lo hi := ⟨rfl, fun _ _ => rfl⟩

theorem Mem.sameOutside_trans (m1 m2 m3 : Mem) (lo hi lo' hi' : Nat) (h12 : m1.sameOutside m2 lo hi)
    (h23 : m2.sameOutside m3 lo' hi') (h1 : lo ≤ lo') (h2 : hi' ≤ hi) : m1.sameOutside m3 lo hi :=
  ⟨h23.1.trans h12.1, fun i hi => (h23.2 i (by omega)).trans (h12.2 i hi)⟩

theorem encodeVarintTo_frame (off room fuel : Nat) (mem : Mem) (x i : Nat) :
    mem.sameOutside (encodeVarintTo mem off room fuel x i).1 (off + i) (off + room) := by
  induction fuel generalizing mem x i with
  | zero => exact Mem.sameOutside_refl _ _ _
  | succ fuel ih =>
    simp only [encodeVarintTo]
    by_cases hr : i ≥ room
    · simp only [if_pos hr, ite_self]
      exact Mem.sameOutside_refl _ _ _
    · simp only [if_neg hr]
      split
      · refine Mem.sameOutside_trans _ _ _ _ _ _ _ ?_ (ih _ _ _) (by omega) (Nat.le_refl _)
        exact Mem.sameOutside_update _ _ _ _ _ _ (Nat.le_refl _) (by omega)
      · exact Mem.sameOutside_update _ _ _ _ _ _ (Nat.le_refl _) (by omega)

theorem encodeVarintTo_len (off room fuel : Nat) (mem mem' : Mem) (x i n : Nat)
    (h : encodeVarintTo mem off room fuel x i = (mem', some n)) : i < n ∧ n ≤ room := by
  induction fuel generalizing mem x i with
  | zero => simp [encodeVarintTo] at h
  | succ fuel ih =>
    simp only [encodeVarintTo] at h
    by_cases hr : i ≥ room
    · simp [if_pos hr] at h
    · simp only [if_neg hr] at h
      split at h
      · have := ih _ _ _ h; omega
      · simp only [Prod.mk.injEq, Option.some.injEq] at h
        omega

/-- a varint put writes only inside the remaining part of the buffer, whether it succeeds or not -/
theorem bufPutVarint_frame (mem : Mem) (h : Handle) (t : IntTy) (v : Int) (hlen : h.len ≤ h.mt.ptrSize) :
    mem.sameOutside (bufPutVarint mem h t v).1 (h.mt.ptrOff + h.len) (h.mt.ptrOff + h.mt.ptrSize) := by
  have := encodeVarintTo_frame (h.mt.ptrOff + h.len) (h.mt.ptrSize - h.len) 40 mem (varintPayload t v) 0
  rw [show h.mt.ptrOff + h.len + (h.mt.ptrSize - h.len) = h.mt.ptrOff + h.mt.ptrSize by omega] at this
  unfold bufPutVarint
  rcases hr : encodeVarintTo mem (h.mt.ptrOff + h.len) (h.mt.ptrSize - h.len) 40 (varintPayload t v) 0 with ⟨m1, _ | n⟩
  <;> rw [hr] at this <;> exact this

theorem bufPutVarint_len (mem : Mem) (h h' : Handle) (t : IntTy) (v : Int) (n : Nat) (mem' : Mem)
    (hp : bufPutVarint mem h t v = (mem', .ok (n, h'))) :
    h'.len = h.len + n ∧ h.len + n ≤ h.mt.ptrSize ∧ 1 ≤ n := by
  unfold bufPutVarint at hp
  rcases hr : encodeVarintTo mem (h.mt.ptrOff + h.len) (h.mt.ptrSize - h.len) 40 (varintPayload t v) 0 with ⟨m1, _ | k⟩
  · rw [hr] at hp; simp at hp
  · rw [hr] at hp
    simp only [Prod.mk.injEq, Except.ok.injEq] at hp
    obtain ⟨rfl, rfl, rfl⟩ := hp
    have := encodeVarintTo_len _ _ _ _ _ _ _ _ hr
    exact ⟨rfl, by omega, by omega⟩

theorem unzigzag_zigzag (t : IntTy) (v : Int) (ht : t.valid) (hs : t.signed = true) (hv : t.inRange v = true) :
    unzigzag (zigzag t v) = v := by
  obtain ⟨b, s⟩ := t
  unfold IntTy.valid at ht
  simp only at ht hs
  subst hs
  unfold IntTy.inRange at hv
  unfold unzigzag zigzag IntTy.modulus at *
  simp only at *
  rcases ht with h|h|h|h|h <;> subst h <;> simp at hv ⊢ <;> split <;> omega

/-- one iteration of the decoder when no error fires -/
theorem decodeVarint_step (mem : Mem) (off avail bytes fuel index shift result : Nat)
    (hidx : index ≠ maxVarintLen bytes) (hav : index < avail)
    (hno : shift < 8 * bytes / 7 * 7 ∨
      (shift = 8 * bytes / 7 * 7 ∧ mem.rd (off + index) &&& lastGroupMask bytes = 0)) :
    decodeVarint mem off avail bytes (fuel + 1) index shift result =
      if mem.rd (off + index) < 128 then .ok (index + 1, result + mem.rd (off + index) % 128 * 2 ^ shift)
      else decodeVarint mem off avail bytes fuel (index + 1) (shift + 7) (result + mem.rd (off + index) % 128 * 2 ^ shift) := by
  rw [decodeVarint]
  rw [if_neg hidx, if_neg (by omega)]
  rcases hno with h | ⟨h1, h2⟩
  · simp [h]
  · simp [h1, h2]

theorem varint_bound (bytes x i : Nat) (hb : bytes = 2 ∨ bytes = 4 ∨ bytes = 8 ∨ bytes = 16)
    (h : x * 2 ^ (7 * i) < 256 ^ bytes) (hx : i = 0 ∨ 1 ≤ x) :
    i < maxVarintLen bytes ∧ (7 * i < 8 * bytes / 7 * 7 ∨ (7 * i = 8 * bytes / 7 * 7 ∧ x < 2 ^ (bytes % 7))) := by
  unfold maxVarintLen
  rcases hx with rfl | hx
  · rcases hb with rfl|rfl|rfl|rfl <;> simp
  · have h1 : 2 ^ (7 * i) < 2 ^ (8 * bytes) := by
      have : 256 ^ bytes = 2 ^ (8 * bytes) := by
        rw [show (256 : Nat) = 2 ^ 8 by decide, ← Nat.pow_mul]
      rw [← this]
      exact Nat.lt_of_le_of_lt (Nat.le_mul_of_pos_left _ hx) h
    have h2 : 7 * i < 8 * bytes := (Nat.pow_lt_pow_iff_right (by decide)).mp h1
    rcases hb with rfl|rfl|rfl|rfl
    · refine ⟨by omega, ?_⟩
      by_cases hi : 7 * i < 14
      · left; omega
      · right
        have : i = 2 := by omega
        subst this
        simp at h ⊢; omega
    · refine ⟨by omega, ?_⟩
      by_cases hi : 7 * i < 28
      · left; omega
      · right
        have : i = 4 := by omega
        subst this
        simp at h ⊢; omega
    · refine ⟨by omega, ?_⟩
      by_cases hi : 7 * i < 63
      · left; omega
      · right
        have : i = 9 := by omega
        subst this
        simp at h ⊢; omega
    · refine ⟨by omega, ?_⟩
      by_cases hi : 7 * i < 126
      · left; omega
      · right
        have : i = 18 := by omega
        subst this
        simp at h ⊢; omega

theorem lastGroup_ok (bytes x : Nat) (hb : bytes = 2 ∨ bytes = 4 ∨ bytes = 8 ∨ bytes = 16)
    (hx : x < 2 ^ (bytes % 7)) : x &&& lastGroupMask bytes = 0 := by
  unfold lastGroupMask
  rcases hb with rfl|rfl|rfl|rfl <;> simp at hx ⊢
  all_goals
    revert x
    decide

theorem varint_key (mem' : Mem) (off room bytes u n avail : Nat)
    (hb : bytes = 2 ∨ bytes = 4 ∨ bytes = 8 ∨ bytes = 16) (hu : u < 256 ^ bytes) (ha : n ≤ avail)
    (fuel : Nat) (mem : Mem) (x i r : Nat)
    (he : encodeVarintTo mem off room fuel x i = (mem', some n)) (hm : off + room ≤ mem.size)
    (hinv : u = r + x * 2 ^ (7 * i)) (hx : i = 0 ∨ 1 ≤ x) :
    decodeVarint mem' off avail bytes fuel i (7 * i) r = .ok (n, u) := by
  induction fuel generalizing mem x i r with
  | zero => simp [encodeVarintTo] at he
  | succ fuel ih =>
    obtain ⟨hi1, hi2⟩ := varint_bound bytes x i hb (by omega) hx
    have hlen := encodeVarintTo_len _ _ _ _ _ _ _ _ he
    simp only [encodeVarintTo] at he
    by_cases hr : i ≥ room
    · simp [if_pos hr] at he
    · simp only [if_neg hr] at he
      by_cases hx128 : x ≥ 128
      · rw [if_pos hx128] at he
        have hfr := encodeVarintTo_frame off room fuel (mem.fill (off + i) 1 (UInt8.ofNat (x % 128 + 128))) (x / 128) (i + 1)
        rw [he] at hfr
        have hlen2 := encodeVarintTo_len _ _ _ _ _ _ _ _ he
        have hbyte : mem'.rd (off + i) = x % 128 + 128 := by
          rw [hfr.2 (off + i) (by omega), Mem.rd_fill, if_pos (by omega), UInt8.toNat_ofNat']
          omega
        have hno : 7 * i < 8 * bytes / 7 * 7 := by
          rcases hi2 with h | ⟨_, h⟩
          · exact h
          · exfalso
            rcases hb with rfl|rfl|rfl|rfl <;> simp at h <;> omega
        rw [decodeVarint_step _ _ _ _ _ _ _ _ (by omega) (by omega) (Or.inl hno), hbyte, if_neg (by omega)]
        have := ih (mem.fill (off + i) 1 (UInt8.ofNat (x % 128 + 128))) (x / 128) (i + 1)
          (r + (x % 128 + 128) % 128 * 2 ^ (7 * i)) he (by simpa using hm) (by
            rw [hinv, show 7 * (i + 1) = 7 * i + 7 by omega, Nat.pow_add, Nat.add_assoc]
            congr 1
            rw [show (x % 128 + 128) % 128 = x % 128 by omega]
            rw [show x / 128 * (2 ^ (7 * i) * 2 ^ 7) = (128 * (x / 128)) * 2 ^ (7 * i) by
              rw [Nat.mul_comm (2 ^ (7 * i)), ← Nat.mul_assoc]; congr 1; omega]
            rw [← Nat.add_mul]
            congr 1; omega) (by omega)
        rw [show 7 * (i + 1) = 7 * i + 7 by omega] at this
        exact this
      · rw [if_neg hx128] at he
        simp only [Prod.mk.injEq, Option.some.injEq] at he
        obtain ⟨rfl, rfl⟩ := he
        have hbyte : (mem.fill (off + i) 1 (UInt8.ofNat x)).rd (off + i) = x := by
          rw [Mem.rd_fill, if_pos (by omega), UInt8.toNat_ofNat']
          omega
        have hno : 7 * i < 8 * bytes / 7 * 7 ∨ (7 * i = 8 * bytes / 7 * 7 ∧
            (mem.fill (off + i) 1 (UInt8.ofNat x)).rd (off + i) &&& lastGroupMask bytes = 0) := by
          rcases hi2 with h | ⟨h1, h2⟩
          · exact Or.inl h
          · exact Or.inr ⟨h1, by rw [hbyte]; exact lastGroup_ok bytes x hb h2⟩
        rw [decodeVarint_step _ _ _ _ _ _ _ _ (by omega) (by omega) hno, hbyte, if_pos (by omega)]
        rw [hinv, Nat.mod_eq_of_lt (by omega : x < 128)]

/-- encoding then decoding an unsigned payload `u < 256^bytes` (bytes ∈ {2,4,8,16}) gives it back,
    together with the number of bytes written -/
theorem decode_encode_varint (mem mem' : Mem) (off room bytes u n : Nat)
    (hb : bytes = 2 ∨ bytes = 4 ∨ bytes = 8 ∨ bytes = 16) (hu : u < 256 ^ bytes) (hm : off + room ≤ mem.size)
    (he : encodeVarintTo mem off room 40 u 0 = (mem', some n)) (avail : Nat) (ha : n ≤ avail) :
    decodeVarint mem' off avail bytes 40 0 0 0 = .ok (n, u) :=
  varint_key mem' off room bytes u n avail hb hu ha 40 mem u 0 0 he hm (by simp) (Or.inl rfl)

theorem varintPayload_lt (t : IntTy) (v : Int) (ht : t.valid) : varintPayload t v < 256 ^ t.bytes := by
  unfold varintPayload
  split
  · unfold zigzag IntTy.modulus
    split <;> exact Nat.mod_lt _ (Nat.pow_pos (by decide))
  · exact encode_lt t v ht

theorem encode_unsigned (t : IntTy) (v : Int) (hs : t.signed = false) (hv : t.inRange v = true) :
    (t.encode v : Int) = v := by
  unfold IntTy.inRange at hv
  rw [hs] at hv
  simp at hv
  unfold IntTy.encode
  rw [Int.emod_eq_of_lt hv.1 hv.2]
  omega

/-- a LEB128 put on an empty buffer followed by the matching varint get returns the encoded length and the value -/
theorem leb_roundtrip (mem mem' : Mem) (h h' : Handle) (t : IntTy) (v : Int) (n : Nat)
    (ht : t.bytes = 2 ∨ t.bytes = 4 ∨ t.bytes = 8 ∨ t.bytes = 16) (hv : t.inRange v = true)
    (hin : h.inMem mem) (hempty : h.len = 0) (hp : bufPutVarint mem h t v = (mem', .ok (n, h'))) :
    bufGetVarint mem' h' t = .ok (n, v) := by
  have htv : t.valid := Or.inr ht
  unfold bufPutVarint at hp
  rcases hr : encodeVarintTo mem (h.mt.ptrOff + h.len) (h.mt.ptrSize - h.len) 40 (varintPayload t v) 0 with ⟨m1, _ | k⟩
  · rw [hr] at hp; simp at hp
  · rw [hr] at hp
    simp only [Prod.mk.injEq, Except.ok.injEq] at hp
    obtain ⟨rfl, rfl, rfl⟩ := hp
    rw [hempty] at hr
    simp only [Nat.add_zero, Nat.sub_zero] at hr
    have hd := decode_encode_varint mem m1 h.mt.ptrOff h.mt.ptrSize t.bytes (varintPayload t v) k ht
      (varintPayload_lt t v htv) hin.1 hr k (Nat.le_refl _)
    unfold bufGetVarint decodeVarintTy
    simp only [hempty, Nat.zero_add]
    rw [hd]
    simp only
    congr 2
    unfold varintPayload
    cases hs : t.signed
    · simp [encode_unsigned t v hs hv]
    · simp [unzigzag_zigzag t v htv hs hv]

/-! ### C15: arena-level readers -/
/-- the fixed-width readers succeed exactly when the whole value lies below `allocated`, for every `usize` offset -/
theorem rdFixed_ok_iff (img : Mem) (allocated offset : Nat) (t : IntTy) (o : Order) (ht : t.valid)
    (hoff : offset < TWO64) (hal : allocated < TWO32) :
    (∃ v, rdFixed img allocated offset t o = .ok v) ↔ offset + t.bytes ≤ allocated := by
  have _ := ht
  have _ := hoff
  unfold rdFixed
  unfold TWO64 at *
  unfold TWO32 at hal
  by_cases h1 : t.bytes = 1
  · rw [if_pos h1]
    by_cases h2 : offset ≥ allocated
    · rw [if_pos h2]; simp; omega
    · rw [if_neg h2]; simp; omega
  · rw [if_neg h1]
    by_cases h2 : offset + t.bytes ≥ 18446744073709551616 ∨ offset + t.bytes > allocated
    · rw [if_pos h2]; simp; omega
    · rw [if_neg h2]; simp; omega

theorem rdFixed_val (img : Mem) (allocated offset : Nat) (t : IntTy) (o : Order) (v : Int)
    (h : rdFixed img allocated offset t o = .ok v) : v = img.readInt offset t o ∧ offset + t.bytes ≤ allocated := by
  unfold rdFixed at h
  split at h
  · split at h
    · cases h
    · simp only [Except.ok.injEq] at h
      exact ⟨h.symm, by omega⟩
  · split at h
    · cases h
    · simp only [Except.ok.injEq] at h
      exact ⟨h.symm, by omega⟩

theorem rdFixed_oob (img : Mem) (allocated offset : Nat) (t : IntTy) (o : Order) (ht : t.valid)
    (h : ¬ offset + t.bytes ≤ allocated) : rdFixed img allocated offset t o = .error .outOfBounds := by
  have _ := ht
  unfold rdFixed
  by_cases h1 : t.bytes = 1
  · rw [if_pos h1, if_pos (by omega)]
  · rw [if_neg h1, if_pos (by omega)]

theorem decodeVarint_below (mem : Mem) (off avail bytes fuel index shift result n u : Nat)
    (h : decodeVarint mem off avail bytes fuel index shift result = .ok (n, u)) : index < n ∧ n ≤ avail := by
  induction fuel generalizing index shift result with
  | zero => simp [decodeVarint] at h
  | succ fuel ih =>
    rw [decodeVarint] at h
    by_cases h1 : index = maxVarintLen bytes
    · rw [if_pos h1] at h; cases h
    · rw [if_neg h1] at h
      by_cases h2 : index ≥ avail
      · rw [if_pos h2] at h; cases h
      · rw [if_neg h2] at h
        simp only at h
        generalize (if shift < 8 * bytes / 7 * 7 then false
          else if shift = 8 * bytes / 7 * 7 then decide (mem.rd (off + index) &&& lastGroupMask bytes ≠ 0) else true) = ov at h
        cases ov
        · simp only [Bool.false_eq_true, if_false] at h
          by_cases h3 : mem.rd (off + index) < 128
          · rw [if_pos h3] at h
            simp only [Except.ok.injEq, Prod.mk.injEq] at h
            omega
          · rw [if_neg h3] at h
            have := ih _ _ _ h
            omega
        · simp at h

theorem decodeVarint_congr (mem mem' : Mem) (off avail bytes fuel index shift result : Nat)
    (h : ∀ k, k < avail → mem.rd (off + k) = mem'.rd (off + k)) :
    decodeVarint mem off avail bytes fuel index shift result = decodeVarint mem' off avail bytes fuel index shift result := by
  induction fuel generalizing index shift result with
  | zero => simp [decodeVarint]
  | succ fuel ih =>
    rw [decodeVarint, decodeVarint]
    by_cases h1 : index = maxVarintLen bytes
    · rw [if_pos h1, if_pos h1]
    · rw [if_neg h1, if_neg h1]
      by_cases h2 : index ≥ avail
      · rw [if_pos h2, if_pos h2]
      · rw [if_neg h2, if_neg h2]
        simp only [h index (by omega), ih]

/-- varint readers never consume bytes at or above `allocated` -/
theorem rdVarint_below (img : Mem) (allocated offset : Nat) (t : IntTy) (n : Nat) (v : Int)
    (h : rdVarint img allocated offset t = .ok (n, v)) : offset + n ≤ allocated ∧ 1 ≤ n := by
  unfold rdVarint at h
  split at h
  · cases h
  · simp only at h
    unfold decodeVarintTy at h
    rcases hd : decodeVarint img offset (min (allocated - offset) (maxVarintLen t.bytes)) t.bytes 40 0 0 0 with e | ⟨k, u⟩
    · rw [hd] at h; cases h
    · rw [hd] at h
      simp only [Except.ok.injEq, Prod.mk.injEq] at h
      have := decodeVarint_below _ _ _ _ _ _ _ _ _ _ hd
      omega

theorem rdVarint_oob (img : Mem) (allocated offset : Nat) (t : IntTy) (h : allocated ≤ offset) :
    rdVarint img allocated offset t = .error .outOfBounds := by
  unfold rdVarint
  rw [if_pos h]

/-- the decoder's result depends only on the bytes below `allocated` -/
theorem rdVarint_congr (img img' : Mem) (allocated offset : Nat) (t : IntTy)
    (h : ∀ i, i < allocated → img.rd i = img'.rd i) :
    rdVarint img allocated offset t = rdVarint img' allocated offset t := by
  unfold rdVarint
  by_cases h1 : offset ≥ allocated
  · rw [if_pos h1, if_pos h1]
  · rw [if_neg h1, if_neg h1]
    simp only
    unfold decodeVarintTy
    rw [decodeVarint_congr img img' offset _ t.bytes 40 0 0 0 (fun k hk => h _ (by omega))]

/-! ### C19: checksum -/
theorem feed_append {σ : Type} (c : Checksummer σ) (s : σ) (a b : List UInt8) :
    c.feed (c.feed s a) b = c.feed s (a ++ b) := by
  unfold Checksummer.feed
  rw [List.foldl_append]

theorem feed_pages {σ : Type} (c : Checksummer σ) (page : Nat) (data : List UInt8) (k : Nat) :
    (List.range k).foldl (fun s j => c.feed s ((data.drop (j * page)).take page)) c.init
      = c.feed c.init (data.take (k * page)) := by
  induction k with
  | zero => simp [Checksummer.feed]
  | succ k ih =>
    rw [List.range_succ, List.foldl_append, ih]
    simp only [List.foldl_cons, List.foldl_nil]
    rw [feed_append]
    congr 1
    rw [Nat.succ_mul, List.take_add]

/-- feeding full pages and then the remainder equals feeding the whole slice, for every streaming
    checksummer, every data and every page size > 0 -/
theorem checksum_chunking {σ : Type} (c : Checksummer σ) (page : Nat) (hp : 0 < page) (data : List UInt8) :
    c.chunked page data = c.oneShot data := by
  have _ := hp
  unfold Checksummer.chunked Checksummer.oneShot
  simp only
  rw [feed_pages]
  congr 1
  split
  · rw [feed_append, List.take_append_drop]
  · rename_i hrem
    have h0 : data.length % page = 0 := by omega
    have : data.length / page * page = data.length := by
      have := Nat.div_add_mod data.length page
      rw [Nat.mul_comm]; omega
    rw [this, List.take_length]

theorem checksumData_length (img : Mem) (reserved allocated : Nat) (h1 : reserved ≤ allocated) (h2 : allocated ≤ img.size) :
    (checksumData img reserved allocated).length = allocated - reserved := by
  unfold checksumData
  simp
  omega

theorem checksumData_get (img : Mem) (reserved allocated k : Nat) (h1 : reserved ≤ allocated) (h2 : allocated ≤ img.size)
    (hk : k < allocated - reserved) : ((checksumData img reserved allocated)[k]?.map UInt8.toNat) = some (img.rd (reserved + k)) := by
  unfold checksumData Mem.rd
  rw [List.getElem?_drop, List.getElem?_take, if_pos (by omega)]
  have : reserved + k < img.size := by omega
  simp [this]

end Rarena
