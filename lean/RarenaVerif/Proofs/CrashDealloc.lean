/-
  Proofs.CrashDealloc — a crash in the MIDDLE of a release (sync flavour, free-list kind none / optimistic /
  pessimistic).

  One thread runs `deallocC` (Model/Conc.lean) alone on a state satisfying the concrete invariant `CInv`,
  releasing a block that is one of the live extents. `soloSteps k` is the state of the machine after `k`
  scheduling grants (`soloGrant` = the body of `Global.step` for that thread: pending non-atomic prefix, ONE
  atomic access, the non-atomic code that follows; `soloSteps_global` identifies it with `Global.run` under the
  schedule `replicate k (0, false)`). For EVERY `k`:

  * `crash_dealloc_stage` — the allocator state is one of the six explicitly described stages of `RelStage`
    (untouched / cursor rewound / counted as discarded / own node word stored inside the released range /
    linked, counter lagging by 8 / linked and counted), each with the path condition under which it occurs;
  * `crash_dealloc` (`crash_dealloc_global` for `Global.run`) — hence it satisfies `MidRelease`: `CInv` holds for
    the live extents WITHOUT the released block and for a free list that is the old one or the old one with the
    new segment inserted (`insertSeg`), the cursor is unchanged or rewound to the block, capacity and
    `min_segment_size` are unchanged, `discarded` is unchanged or + 8 (segment on the list) or + size (list
    unchanged), every other live extent and the prefix `[0, data_offset)` keep their bytes.
    In words: a crash in the middle of a release can only LEAK the block (it is no longer live, not yet on the
    list and not counted as discarded — stages `header`; in stage `linked` only the 8 header bytes are
    unaccounted); it never corrupts the list or a live range.
  * layers: `crash_dealloc_top`, `crash_dealloc_none`, `crash_dealloc_small`, `crash_dealloc_insert`
    (`_insert_opt`, `_insert_pess`) say which stages occur on which path;
  * `crash_dealloc_completes` — left alone, the thread reaches exactly the final state of the sequential `dealloc`;
  * consequences: `crash_dealloc_reopens` (the image of ANY intermediate state reopens writable with the same
    options to an arena satisfying `CInv`, other live extents holding their bytes — `C06.boundary` applied
    mid-operation), `crash_dealloc_later_ops` / `crash_dealloc_reopened_later_ops` (`C06.later_ops_terminate`
    applies to the intermediate state and to the reopened arena).

  Method: `SoloI I` is the big-step relation `Solo` of Proofs/ConcSolo.lean with a predicate `I` asserted of every
  state of the derivation; `SoloI.steps` transfers it to `soloSteps k` for all `k`. `deallocC_stages` follows the
  program access by access (the link CAS cannot fail: nobody else runs, and `insert_top` of Proofs/Chain.lean
  tells which word the predecessor holds); `RelStage.mid` is the semantic half (frame lemmas of Chain /
  RefineDealloc, `WF.link`, `WF.rewind`).
-/
import RarenaVerif.Proofs.RefineDealloc
import RarenaVerif.Proofs.ConcSolo
import RarenaVerif.Props.C06

set_option linter.unusedVariables false

namespace Rarena.Conc

open Rarena

/-! ### the thread running alone, grant by grant -/

/-- one scheduling grant to a thread that runs alone — the body of `Global.step` for that thread: the pending
    non-atomic prefix, one atomic access (a weak CAS does not fail spuriously), the non-atomic code after it.
    A finished or failed program is left alone. -/
def soloGrant {α : Type} (sh : Shared) (p : Prog α) : Shared × Prog α :=
  match settle 100000 sh p [] with
  | (sh1, .blocked p1, _) =>
    match stepAccess sh1 p1 false with
    | .ok (sh2, p2, _) =>
      match settle 100000 sh2 p2 [] with
      | (sh3, .blocked p3, _) => (sh3, p3)
      | (sh3, .done a, _) => (sh3, .ret a)
      | (sh3, .failed (.trap s), _) => (sh3, .trap s)
      | (sh3, .failed .diverge, _) => (sh3, .diverge)
    | .error (.trap s) => (sh1, .trap s)
    | .error .diverge => (sh1, .diverge)
  | (sh1, .done a, _) => (sh1, .ret a)
  | (sh1, .failed (.trap s), _) => (sh1, .trap s)
  | (sh1, .failed .diverge, _) => (sh1, .diverge)

/-- shared state and remaining program after `k` grants -/
def soloSteps {α : Type} : Nat → Shared → Prog α → Shared × Prog α
  | 0, sh, p => (sh, p)
  | k + 1, sh, p => soloSteps k (soloGrant sh p).1 (soloGrant sh p).2

/-- `soloGrant` IS the machine's step for a single thread -/
theorem soloGrant_global {α : Type} (sh : Shared) (p : Prog α) :
    (Global.step ⟨sh, [p]⟩ 0 false).1 = ⟨(soloGrant sh p).1, [(soloGrant sh p).2]⟩ := by
  unfold Global.step soloGrant
  simp only [List.getElem?_cons_zero]
  rcases settle 100000 sh p [] with ⟨sh1, r1, n1⟩
  cases r1 with
  | done a => rfl
  | failed f => cases f <;> rfl
  | blocked p1 =>
    dsimp only
    cases stepAccess sh1 p1 false with
    | error f => cases f <;> rfl
    | ok r =>
      obtain ⟨sh2, p2, e⟩ := r
      dsimp only
      rcases settle 100000 sh2 p2 [] with ⟨sh3, r3, n3⟩
      cases r3 with
      | done a => rfl
      | failed f => cases f <;> rfl
      | blocked p3 => rfl

/-- `soloSteps k` IS the machine run under the schedule that grants `k` steps to the only thread -/
theorem soloSteps_global {α : Type} (k : Nat) (sh : Shared) (p : Prog α) :
    (Global.run ⟨sh, [p]⟩ (List.replicate k (0, false))).1 = ⟨(soloSteps k sh p).1, [(soloSteps k sh p).2]⟩ := by
  induction k generalizing sh p with
  | zero => rfl
  | succ k ih =>
    simp only [List.replicate_succ, Global.run, soloSteps]
    rw [← ih]
    rw [← soloGrant_global]

/-! ### solo executions all of whose intermediate states satisfy a predicate -/

/-- `Solo` (Proofs/ConcSolo.lean) for programs without non-atomic effects, with the predicate `I` asserted of the
    allocator state before the first access, between any two accesses and at the end -/
inductive SoloI {α : Type} (I : St → Prop) : Shared → Prog α → α → Shared → Prop where
  | ret (sh : Shared) (a : α) : I sh.st → SoloI I sh (.ret a) a sh
  | acc (sh sh1 sh2 : Shared) (p p1 : Prog α) (ev : Event) (a : α) :
      I sh.st → stepAccess sh p false = .ok (sh1, p1, ev) → SoloI I sh1 p1 a sh2 → SoloI I sh p a sh2

theorem SoloI.toSolo {α : Type} {I : St → Prop} {sh sh' : Shared} {p : Prog α} {a : α}
    (h : SoloI I sh p a sh') : Solo sh p a sh' := by
  induction h with
  | ret sh a _ => exact Solo.ret _ _
  | acc sh sh1 sh2 p p1 ev a _ hs _ ih => exact Solo.acc _ _ _ _ _ _ _ hs ih

theorem SoloI.first {α : Type} {I : St → Prop} {sh sh' : Shared} {p : Prog α} {a : α}
    (h : SoloI I sh p a sh') : I sh.st := by
  cases h with
  | ret _ _ h => exact h
  | acc _ _ _ _ _ _ _ h _ _ => exact h

theorem SoloI.last {α : Type} {I : St → Prop} {sh sh' : Shared} {p : Prog α} {a : α}
    (h : SoloI I sh p a sh') : I sh'.st := by
  induction h with
  | ret _ _ h => exact h
  | acc _ _ _ _ _ _ _ _ _ _ ih => exact ih

theorem SoloI.bind {α β : Type} {I : St → Prop} {sh sh1 sh2 : Shared} {p : Prog α} {f : α → Prog β} {a : α} {b : β}
    (h1 : SoloI I sh p a sh1) (h2 : SoloI I sh1 (f a) b sh2) : SoloI I sh (p.bind f) b sh2 := by
  induction h1 with
  | ret sh a _ => exact h2
  | acc sh sh1 sh2' p p1 ev a hi hstep _ ih => exact SoloI.acc _ _ _ _ _ _ _ hi (stepAccess_bind f hstep) (ih h2)

theorem SoloI.bind' {α β : Type} {I : St → Prop} {sh sh1 sh2 : Shared} {p : Prog α} {f : α → Prog β} {a : α} {b : β}
    (h1 : SoloI I sh p a sh1) (h2 : SoloI I sh1 (f a) b sh2) : SoloI I sh (p >>= f) b sh2 := SoloI.bind h1 h2

/-- the head of a program that can take an access step is that access: `settle` leaves it alone -/
theorem settle_of_stepAccess {α : Type} {sh sh1 : Shared} {p p1 : Prog α} {ev : Event} {sp : Bool} (sh0 : Shared)
    (h : stepAccess sh p sp = .ok (sh1, p1, ev)) : settle 100000 sh0 p [] = (sh0, .blocked p, []) := by
  cases p with
  | ret a => cases h
  | trap s => cases h
  | diverge => cases h
  | na e k => cases h
  | load l s k => rfl
  | store l v s k => rfl
  | cas l e n w s k => rfl
  | rmw l v sb s k => rfl

/-- one grant performs exactly the next access of a `SoloI` derivation -/
theorem SoloI.grant {α : Type} {I : St → Prop} {sh sh1 sh2 : Shared} {p p1 : Prog α} {ev : Event} {a : α}
    (hs : stepAccess sh p false = .ok (sh1, p1, ev)) (h : SoloI I sh1 p1 a sh2) : soloGrant sh p = (sh1, p1) := by
  unfold soloGrant
  rw [settle_of_stepAccess sh hs]
  simp only [hs]
  cases h with
  | ret _ _ _ => rfl
  | acc _ _ _ _ _ _ _ _ hs' _ => rw [settle_of_stepAccess _ hs']

/-- every state the machine passes through when it runs the program grant by grant satisfies `I`; after the
    last access the state stays the final one -/
theorem SoloI.steps {α : Type} {I : St → Prop} {sh sh' : Shared} {p : Prog α} {a : α}
    (h : SoloI I sh p a sh') (k : Nat) : I (soloSteps k sh p).1.st := by
  induction h generalizing k with
  | ret sh a hi =>
    induction k with
    | zero => exact hi
    | succ k ih => exact ih
  | acc sh sh1 sh2 p p1 ev a hi hs hrest ih =>
    cases k with
    | zero => exact hi
    | succ k =>
      show I (soloSteps k (soloGrant sh p).1 (soloGrant sh p).2).1.st
      rw [SoloI.grant hs hrest]
      exact ih k

/-- the run reaches the final state of the derivation and stays there -/
theorem SoloI.steps_final {α : Type} {I : St → Prop} {sh sh' : Shared} {p : Prog α} {a : α}
    (h : SoloI I sh p a sh') : ∃ K, ∀ k, K ≤ k → soloSteps k sh p = (sh', .ret a) := by
  induction h with
  | ret sh a hi =>
    refine ⟨0, fun k hk => ?_⟩
    clear hk
    induction k with
    | zero => rfl
    | succ k ih => exact ih
  | acc sh sh1 sh2 p p1 ev a hi hs hrest ih =>
    obtain ⟨K, hK⟩ := ih
    refine ⟨K + 1, fun k hk => ?_⟩
    obtain ⟨k', rfl⟩ : ∃ k', k = k' + 1 := ⟨k - 1, by omega⟩
    show soloSteps k' (soloGrant sh p).1 (soloGrant sh p).2 = _
    rw [SoloI.grant hs hrest]
    exact hK k' (by omega)

/-! ### primitives -/

theorem soloI_pure {α : Type} {I : St → Prop} (sh : Shared) (a : α) (h : I sh.st) :
    SoloI I sh (pure a : Prog α) a sh := SoloI.ret sh a h

theorem soloI_liftM {α : Type} {I : St → Prop} {sh : Shared} {x : M α} {a : α} (h : x = .ok a) (hi : I sh.st) :
    SoloI I sh (liftM' x) a sh := by
  subst h; exact SoloI.ret _ _ hi

/-- a single access whose continuation returns -/
theorem soloI_one {α : Type} {I : St → Prop} {sh sh1 : Shared} {p : Prog α} {a : α} {ev : Event}
    (h : stepAccess sh p false = .ok (sh1, .ret a, ev)) (h0 : I sh.st) (h1 : I sh1.st) : SoloI I sh p a sh1 :=
  SoloI.acc _ _ _ _ _ _ _ h0 h (SoloI.ret _ _ h1)

theorem soloI_load {I : St → Prop} {sh : Shared} {l : ALoc} {fn : String} {i v : Nat} (h : sh.read l = .ok v)
    (hi : I sh.st) : SoloI I sh (load l fn i) v sh := by
  refine soloI_one (ev := ⟨.ld, l, ⟨fn, i⟩, v, v, true⟩) ?_ hi hi
  simp only [load, stepAccess, h, ok_bind]; rfl

theorem soloI_cas_alloc {I : St → Prop} (sh : Shared) (s : St) (e n : Nat) (w : Bool) (site : Site)
    (h0 : I s) (h1 : s.allocated = e → I { s with allocated := n }) :
    SoloI I (withSt sh s) (.cas .alloc e n w site .ret) (s.allocated, decide (s.allocated = e))
      (withSt sh (if s.allocated = e then { s with allocated := n } else s)) := by
  by_cases hc : s.allocated = e
  · refine soloI_one (ev := ⟨if w then .casw else .cas, .alloc, site, s.allocated, n, true⟩) ?_ h0 ?_
    · simp [stepAccess, Shared.read, Shared.write, withSt, hc]; rfl
    · rw [if_pos hc]; exact h1 hc
  · refine soloI_one (ev := ⟨if w then .casw else .cas, .alloc, site, s.allocated, s.allocated, false⟩) ?_ h0 ?_
    · simp [stepAccess, Shared.read, Shared.write, withSt, hc]; rfl
    · rw [if_neg hc]; exact h0

theorem soloI_store_node {I : St → Prop} {sh : Shared} {s : St} {off v : Nat} (fn : String) (i : Nat)
    (hb : off + 8 ≤ s.mem.size) (h0 : I s) (h1 : I { s with mem := s.mem.writeWord off v }) :
    SoloI I (withSt sh s) (store (.node off) v fn i) () (withSt sh { s with mem := s.mem.writeWord off v }) := by
  refine soloI_one (ev := ⟨.st, .node off, ⟨fn, i⟩, s.mem.readWord off, v, true⟩) ?_ h0 h1
  have hr : s.mem.readWord? off = .ok (s.mem.readWord off) := by unfold Mem.readWord?; rw [if_pos hb]; rfl
  have hw : s.mem.writeWord? off v = .ok (s.mem.writeWord off v) := by unfold Mem.writeWord?; rw [if_pos hb]; rfl
  simp only [store, stepAccess, Shared.read, Shared.write, withSt, hr, hw, ok_bind]; rfl

/-- a successful CAS on a node word or on the sentinel -/
theorem soloI_casLoc_ok {I : St → Prop} {sh : Shared} {s s' : St} {loc : Loc} {e n : Nat} (fn : String) (i : Nat)
    (hr : s.readLoc loc = .ok e) (hw : s.writeLoc loc n = .ok s') (h0 : I s) (h1 : I s') :
    SoloI I (withSt sh s) (cas (locOf loc) e n fn i) (e, true) (withSt sh s') := by
  refine soloI_one (ev := ⟨.cas, locOf loc, ⟨fn, i⟩, e, n, true⟩) ?_ h0 h1
  simp only [cas, stepAccess, read_locOf, hr, ok_bind]
  simp [write_locOf hw]; rfl

theorem soloI_incDiscarded {I : St → Prop} (sh : Shared) (s : St) (c : Cfg) (n : Nat)
    (h0 : I s) (h1 : I (s.incDiscarded c n)) :
    SoloI I (withSt sh s) (incDiscardedC c n) () (withSt sh (s.incDiscarded c n)) := by
  unfold incDiscardedC
  by_cases hc : c.ro = true
  · have : s.incDiscarded c n = s := by unfold St.incDiscarded; rw [if_pos hc]
    rw [if_pos hc, this]; exact SoloI.ret _ _ h0
  · have e : s.incDiscarded c n = { s with discarded := (s.discarded + n) % TWO32 } := by
      unfold St.incDiscarded; rw [if_neg hc]
    rw [if_neg hc]
    rw [e] at h1 ⊢
    refine SoloI.bind' (a := s.discarded) ?_ (SoloI.ret _ _ h1)
    refine soloI_one (ev := ⟨.faa, .disc, ⟨"increase_discarded", 0⟩, s.discarded, (s.discarded + n) % TWO32, true⟩) ?_ h0 h1
    simp [faa, stepAccess, Shared.read, Shared.write, withSt, ALoc.modulus]; rfl

/-- the traversal only loads: the state never changes -/
theorem findPosition_soloI {I : St → Prop} (sh : Shared) (s : St) (hi : I s) (val : Nat) (cmp : Nat → Nat → Bool) :
    ∀ (fuel : Nat) (loc : Loc) (cur : Nat) (r : Nat × Loc), findPosS s val cmp fuel loc cur = .ok r →
      SoloI I (withSt sh s) (findPositionC val cmp fuel loc cur) r (withSt sh s) := by
  intro fuel
  induction fuel with
  | zero => intro loc cur r h; cases h
  | succ fuel ih =>
    intro loc cur r h
    simp only [findPosS] at h
    simp only [findPositionC]
    ifboth
    · cases h; exact SoloI.ret _ _ hi
    ifboth
    · cases h; exact SoloI.ret _ _ hi
    ifboth
    · obtain ⟨cur', h1, h⟩ := bind_ok h
      exact SoloI.bind' (soloI_load (by rw [read_locOf]; exact h1) hi) (ih _ _ _ h)
    ifboth
    · cases h; exact SoloI.ret _ _ hi
    obtain ⟨nw, h1, h⟩ := bind_ok h
    refine SoloI.bind' (soloI_load (l := .node _) (sh := withSt sh s) h1 hi) ?_
    ifboth
    · exact SoloI.bind' (soloI_load (l := .sent) (sh := withSt sh s) rfl hi) (ih _ _ _ h)
    ifboth
    · cases h; exact SoloI.ret _ _ hi
    exact ih _ _ _ h

theorem findPositionTop_soloI {I : St → Prop} (sh : Shared) (s : St) (hi : I s) (val : Nat) (cmp : Nat → Nat → Bool)
    (fuel : Nat) (r : Nat × Loc) (h : findPosS s val cmp fuel .hdr s.sentinel = .ok r) :
    SoloI I (withSt sh s) (findPositionTop val cmp fuel) r (withSt sh s) :=
  SoloI.bind' (soloI_load (l := .sent) (sh := withSt sh s) rfl hi) (findPosition_soloI sh s hi val cmp _ _ _ _ h)

/-! ### the stages of a release -/

/-- the state once the new node `seg` is linked into the list `free` of `s0`: the bytes encode the list with the
    segment inserted, the header fields other than the sentinel are those of `s0`, and only the node word of the
    new segment and node words of the old list have been written -/
structure Linked (k : Kind) (s0 : St) (free : List Seg) (seg : Seg) (s : St) : Prop where
  chain : Chain s.mem (insertSeg k seg free)
  sent : s.sentinel = enc MAXU32 (hd (insertSeg k seg free))
  size : s.mem.size = s0.mem.size
  allocated : s.allocated = s0.allocated
  minSeg : s.minSeg = s0.minSeg
  discarded : s.discarded = s0.discarded
  frame : ∀ i, (i < seg.off ∨ seg.off + 8 ≤ i) → (∀ g ∈ free, i < g.off ∨ g.off + 8 ≤ i) → s.mem.rd i = s0.mem.rd i

/-- one successful iteration of the insertion loop, access by access: the traversal (loads only), the store of
    the new node's own word, the link CAS on the predecessor (which succeeds: nobody else runs), the counter -/
theorem insertLoopC_soloI {I : St → Prop} (sh : Shared) (c : Cfg) (s : St) (l : List Seg) (sr : SegRef)
    (fuel tries : Nat)
    (hc : Chain s.mem l) (hsent : s.sentinel = enc MAXU32 (hd l)) (hap : NodesApart l)
    (hmiss : MissesNodes sr.ptr (sr.ptr + 8) l) (hb : sr.ptr + 8 ≤ s.mem.size)
    (hsz : ∀ g ∈ l, g.size < TWO32) (hpos : ∀ g ∈ l, 1 ≤ g.size) (hoff : ∀ g ∈ l, g.off < MAXU32)
    (hso : sr.ptr < MAXU32) (hss : sr.size < TWO32) (hf : l.length < fuel)
    (hI0 : I s) (hI1 : ∀ nxt, I { s with mem := s.mem.writeWord sr.ptr (enc sr.size nxt) })
    (hI2 : ∀ s', Linked c.kind s l ⟨sr.ptr, sr.size⟩ s' → I s' ∧ I (s'.incDiscarded c (sr.data - sr.ptr))) :
    ∃ s', Linked c.kind s l ⟨sr.ptr, sr.size⟩ s' ∧
      SoloI I (withSt sh s) (insertLoopC c sr fuel (tries + 1)) true
        (withSt sh (s'.incDiscarded c (sr.data - sr.ptr))) := by
  have hfp : findPosS s sr.size (cmpInsert c.kind) fuel .hdr s.sentinel =
      .ok (posOf (cmpInsert c.kind) sr.size MAXU32 .hdr l) := by
    rw [hsent]; exact findPosS_spec s _ _ l hc hsz hpos hoff fuel hf .hdr MAXU32 maxu32_ne_zero
  have hsol : sr.ptr < TWO32 := Nat.lt_trans hso maxu32_lt
  simp only [insertLoopC]
  rcases insert_top c.kind ⟨sr.ptr, sr.size⟩ s.mem l hc hap hmiss hb hsz hpos hoff hso hss with
    ⟨hp, hne, hch, hhd⟩ | ⟨p, cur, hp, hpb, ⟨x, hx, hxp⟩, hrd, hws, hwn, hch, hhd⟩
  · -- the new node becomes the head: the predecessor is the sentinel
    rw [hp] at hfp
    have hdl : hd l < TWO32 := hd_lt l hoff
    have hw1 : wsize (enc MAXU32 (hd l)) = MAXU32 := wsize_enc _ _ hdl
    have hw2 : wnext (enc MAXU32 (hd l)) = hd l := wnext_enc _ _ hdl
    have hlk : Linked c.kind s l ⟨sr.ptr, sr.size⟩
        { s with mem := s.mem.writeWord sr.ptr (enc sr.size (hd l)), sentinel := enc MAXU32 sr.ptr } :=
      ⟨hch, by simp only [hhd], by simp, rfl, rfl, rfl, fun i hi _ => Mem.rd_writeWord_out _ _ _ _ hi⟩
    refine ⟨_, hlk, ?_⟩
    refine SoloI.bind' (findPositionTop_soloI sh s hI0 _ _ _ _ hfp) ?_
    dsimp only
    rw [if_neg (by rw [hw1]; exact maxu32_ne_zero), if_neg (by rw [hw2]; exact fun h => hne h.symm), hw1, hw2]
    refine SoloI.bind' (soloI_store_node _ _ hb hI0 (hI1 _)) ?_
    refine SoloI.bind' (soloI_casLoc_ok (loc := .hdr) _ _ ?_ rfl (hI1 _) (hI2 _ hlk).1) ?_
    · simp only [St.readLoc, hsent]; rfl
    dsimp only
    rw [if_pos rfl]
    exact SoloI.bind' (soloI_incDiscarded _ _ _ _ (hI2 _ hlk).1 (hI2 _ hlk).2) (SoloI.ret _ _ (hI2 _ hlk).2)
  · -- the predecessor is the node at `p`
    rw [hp] at hfp
    have hxm := hmiss x hx
    rw [hxp] at hxm
    have hlk : Linked c.kind s l ⟨sr.ptr, sr.size⟩
        { s with mem := (s.mem.writeWord sr.ptr (enc sr.size (wnext cur))).writeWord p (enc (wsize cur) sr.ptr) } := by
      refine ⟨hch, by simp only [hhd]; exact hsent, by simp, rfl, rfl, rfl, ?_⟩
      intro i hi hg
      have := hg x hx
      rw [hxp] at this
      rw [Mem.rd_writeWord_out _ _ _ _ this, Mem.rd_writeWord_out _ _ _ _ hi]
    refine ⟨_, hlk, ?_⟩
    refine SoloI.bind' (findPositionTop_soloI sh s hI0 _ _ _ _ hfp) ?_
    dsimp only
    rw [if_neg hws, if_neg (fun h => hwn h.symm)]
    refine SoloI.bind' (soloI_store_node _ _ hb hI0 (hI1 _)) ?_
    refine SoloI.bind' (soloI_casLoc_ok (loc := .node p) _ _ ?_ ?_ (hI1 _) (hI2 _ hlk).1) ?_
    · simp only [St.readLoc, Mem.readWord?, Mem.size_writeWord, if_pos hpb]
      rw [Mem.readWord_writeWord_disjoint _ _ _ _ (by omega), hrd]; rfl
    · simp only [St.writeLoc, Mem.writeWord?, Mem.size_writeWord, if_pos hpb]; rfl
    dsimp only
    rw [if_pos rfl]
    exact SoloI.bind' (soloI_incDiscarded _ _ _ _ (hI2 _ hlk).1 (hI2 _ hlk).2) (SoloI.ret _ _ (hI2 _ hlk).2)

/-- the segment that the release of `[off, off+size)` puts on the free list: the node word at the next multiple
    of 8, the data bytes after it -/
def relSeg (off size : Nat) : Seg := ⟨alignUp 8 off, size - (alignUp 8 off - off + NODE)⟩

/-- `try_new_segment` accepts the range: after aligning there is room for the node word and at least
    `min_segment_size` data bytes -/
def Fits (s0 : St) (off size : Nat) : Prop :=
  alignUp 8 off - off + NODE < size ∧ ¬ size - (alignUp 8 off - off + NODE) < s0.minSeg

/-- ALL the allocator states a release of `[off, off+size)` started in `s0` (free list `free`) passes through
    when the thread runs alone, each with the path condition under which it occurs -/
inductive RelStage (c : Cfg) (s0 : St) (free : List Seg) (off size : Nat) : St → Prop where
  /-- nothing written yet (before the cursor CAS; during `try_new_segment`'s load; during the traversal) -/
  | start : RelStage c s0 free off size s0
  /-- top release: the cursor CAS succeeded — the release is complete -/
  | rewound : s0.allocated = off + size → RelStage c s0 free off size { s0 with allocated := off }
  /-- `Freelist::None`, or the range is too small for a segment: the range is counted as discarded — complete -/
  | counted : s0.allocated ≠ off + size → (c.kind = .none ∨ ¬ Fits s0 off size) →
      RelStage c s0 free off size (s0.incDiscarded c size)
  /-- the new node's own word has been stored INSIDE the released range; nothing points to it (LEAK point 1) -/
  | header (nxt : Nat) : s0.allocated ≠ off + size → c.kind ≠ .none → Fits s0 off size →
      RelStage c s0 free off size
        { s0 with mem := s0.mem.writeWord (relSeg off size).off (enc (relSeg off size).size nxt) }
  /-- the link CAS succeeded: the segment is on the list, the 8 header bytes are not yet counted
      (`discarded` lags by 8) -/
  | linked (s : St) : s0.allocated ≠ off + size → c.kind ≠ .none → Fits s0 off size →
      Linked c.kind s0 free (relSeg off size) s → RelStage c s0 free off size s
  /-- the counter has been incremented by 8 — complete -/
  | done (s : St) : s0.allocated ≠ off + size → c.kind ≠ .none → Fits s0 off size →
      Linked c.kind s0 free (relSeg off size) s → RelStage c s0 free off size (s.incDiscarded c NODE)

theorem freelistDeallocC_stages (sh : Shared) (c : Cfg) (s0 : St) (free : List Seg) (lives : List Ext)
    (off size fuel : Nat) (h : CInv c s0 free lives) (hlo : c.dataOffset ≤ off) (hsz : size ≠ 0)
    (hhi : off + size ≤ s0.allocated) (hdf : ∀ g ∈ free, disj (off, off + size) g.ext)
    (hfuel : free.length + 2 ≤ fuel) (hnt : s0.allocated ≠ off + size) (hk : c.kind ≠ .none) :
    ∃ b s', SoloI (RelStage c s0 free off size) (withSt sh s0) (freelistDeallocC c off size fuel) b
      (withSt sh s') := by
  have hcap := h.capGuard
  have hal : s0.allocated ≤ s0.mem.size := h.wf.hi
  have hlo1 := h.wf.lo
  have hI0 : RelStage c s0 free off size s0 := .start
  have h0 : ¬ (off = 0 ∨ size = 0) := by omega
  have hal8 : alignOffset 8 off = .ok (alignUp 8 off) := by
    unfold alignOffset alignUp
    rw [if_pos (by unfold St.cap at hcap; unfold TWO32 at *; omega)]; rfl
  have hge := alignUp8_ge off
  have hlt8 := alignUp8_lt off
  simp only [freelistDeallocC]
  by_cases hfit : Fits s0 off size
  · have htn : SoloI (RelStage c s0 free off size) (withSt sh s0) (tryNewSegmentC c off size)
        (some ⟨alignUp 8 off, alignUp 8 off + NODE, size - (alignUp 8 off - off + NODE)⟩) (withSt sh s0) := by
      simp only [tryNewSegmentC]
      rw [if_neg h0]
      refine SoloI.bind' (soloI_liftM hal8 hI0) ?_
      rw [if_neg (by have := hfit.1; omega)]
      refine SoloI.bind' (soloI_load (l := .minseg) (sh := withSt sh s0) (v := s0.minSeg) rfl hI0) ?_
      rw [if_neg hfit.2]
      exact SoloI.ret _ _ hI0
    obtain ⟨t, rfl⟩ : ∃ t, fuel = t + 1 := ⟨fuel - 1, by omega⟩
    have hlt := hfit.1
    simp only [NODE] at hlt
    have hmiss : MissesNodes (alignUp 8 off) (alignUp 8 off + 8) free := by
      intro g hg
      have := hdf g hg
      unfold disj at this
      simp only [Seg.ext, Seg.lo, Seg.hi, NODE] at this
      omega
    have hnode : alignUp 8 off + NODE - alignUp 8 off = NODE := by omega
    obtain ⟨s', hlk, hrun⟩ := insertLoopC_soloI (I := RelStage c s0 free off size) sh c s0 free
      (SegRef.mk (alignUp 8 off) (alignUp 8 off + NODE) (size - (alignUp 8 off - off + NODE)))
      (t + 1) t h.chain h.sent (dl_apart h.wf) hmiss
      (by show alignUp 8 off + 8 ≤ s0.mem.size; omega)
      (fun g hg => (dl_seg_bounds h g hg).1) (fun g hg => (dl_seg_bounds h g hg).2.1)
      (fun g hg => (dl_seg_bounds h g hg).2.2.1)
      (by unfold St.cap at hcap; unfold MAXU32 TWO32 at *
          show alignUp 8 off < 4294967295; omega)
      (by unfold St.cap at hcap; unfold TWO32 at *
          show size - (alignUp 8 off - off + NODE) < 4294967296; omega)
      (by omega) hI0 (fun nxt => RelStage.header nxt hnt hk hfit)
      (fun s' hl => by
        rw [hnode]
        exact ⟨RelStage.linked s' hnt hk hfit hl, RelStage.done s' hnt hk hfit hl⟩)
    exact ⟨true, _, SoloI.bind' htn hrun⟩
  · have hIc : RelStage c s0 free off size (s0.incDiscarded c size) := .counted hnt (Or.inr hfit)
    refine ⟨false, s0.incDiscarded c size,
      SoloI.bind' (a := none) ?_ (SoloI.ret (I := RelStage c s0 free off size) _ _ hIc)⟩
    simp only [tryNewSegmentC]
    rw [if_neg h0]
    refine SoloI.bind' (soloI_liftM hal8 hI0) ?_
    by_cases h1 : alignUp 8 off - off + NODE ≥ size
    · rw [if_pos h1]
      exact SoloI.bind' (soloI_incDiscarded _ _ _ _ hI0 hIc) (SoloI.ret _ _ hIc)
    · rw [if_neg h1]
      refine SoloI.bind' (soloI_load (l := .minseg) (sh := withSt sh s0) (v := s0.minSeg) rfl hI0) ?_
      have h2 : size - (alignUp 8 off - off + NODE) < s0.minSeg := by
        apply Classical.byContradiction
        intro hn
        exact hfit ⟨by omega, hn⟩
      rw [if_pos h2]
      exact SoloI.bind' (soloI_incDiscarded _ _ _ _ hI0 hIc) (SoloI.ret _ _ hIc)

/-- the release followed access by access: every state is one of the stages -/
theorem deallocC_stages (sh : Shared) (c : Cfg) (s0 : St) (free : List Seg) (lives : List Ext)
    (off size fuel : Nat) (h : CInv c s0 free lives) (hlo : c.dataOffset ≤ off) (hsz : size ≠ 0)
    (hhi : off + size ≤ s0.allocated) (hdf : ∀ g ∈ free, disj (off, off + size) g.ext)
    (hfuel : free.length + 2 ≤ fuel) :
    ∃ b s', SoloI (RelStage c s0 free off size) (withSt sh s0) (deallocC c off size fuel) b (withSt sh s') := by
  have hcap := h.capGuard
  have hal : s0.allocated ≤ s0.mem.size := h.wf.hi
  have hI0 : RelStage c s0 free off size s0 := .start
  have htop : addU32 "dealloc:offset+size" off size = .ok (off + size) :=
    dl_addU32_ok _ _ _ (by unfold St.cap at hcap; unfold TWO32 at *; omega)
  simp only [deallocC]
  by_cases hc : s0.allocated = off + size
  · refine ⟨true, { s0 with allocated := off }, ?_⟩
    refine SoloI.bind' (soloI_liftM htop hI0) ?_
    refine SoloI.bind' (soloI_cas_alloc sh s0 (off + size) off false _ hI0 (fun h => .rewound h)) ?_
    simp only [hc, decide_true, if_true]
    exact SoloI.ret _ _ (.rewound hc)
  · have hcas := soloI_cas_alloc (I := RelStage c s0 free off size) sh s0 (off + size) off false
      ⟨"dealloc", 0⟩ hI0 (fun h => .rewound h)
    rw [if_neg hc] at hcas
    simp only [hc, decide_false] at hcas
    cases hk : c.kind with
    | none =>
      have hIc : RelStage c s0 free off size (s0.incDiscarded c size) := .counted hc (Or.inl hk)
      refine ⟨true, s0.incDiscarded c size, ?_⟩
      refine SoloI.bind' (soloI_liftM htop hI0) ?_
      refine SoloI.bind' hcas ?_
      simp only [Bool.false_eq_true, if_false]
      exact SoloI.bind' (soloI_incDiscarded _ _ _ _ hI0 hIc) (SoloI.ret _ _ hIc)
    | opt =>
      obtain ⟨b, s', hrest⟩ := freelistDeallocC_stages sh c s0 free lives off size fuel h hlo hsz hhi hdf hfuel hc
        (by rw [hk]; simp)
      refine ⟨b, s', ?_⟩
      refine SoloI.bind' (soloI_liftM htop hI0) ?_
      refine SoloI.bind' hcas ?_
      simp only [Bool.false_eq_true, if_false]
      exact hrest
    | pess =>
      obtain ⟨b, s', hrest⟩ := freelistDeallocC_stages sh c s0 free lives off size fuel h hlo hsz hhi hdf hfuel hc
        (by rw [hk]; simp)
      refine ⟨b, s', ?_⟩
      refine SoloI.bind' (soloI_liftM htop hI0) ?_
      refine SoloI.bind' hcas ?_
      simp only [Bool.false_eq_true, if_false]
      exact hrest

/-! ### every stage is a consistent arena without the released block -/

/-- what holds of the allocator state `s` at ANY point of the release of the block of handle `m` that started in
    `s0` (free list `free`, live extents `lives`); `free'` is the abstract free list that `s` represents -/
structure MidRelease (c : Cfg) (s0 : St) (free : List Seg) (lives : List Ext) (m : Meta) (s : St)
    (free' : List Seg) : Prop where
  /-- the list is the old one, or the old one with the new segment inserted (only on the free-list path,
      cursor untouched) -/
  list : free' = free ∨
    (free' = insertSeg c.kind (relSeg m.memOff m.memSize) free ∧ c.kind ≠ .none ∧ s.allocated = s0.allocated)
  /-- the concrete invariant: well-formed abstract state, the bytes encode the list, guards — with the released
      block no longer among the live extents -/
  inv : CInv c s free' (lives.erase m.owned)
  /-- the cursor is unchanged or rewound to the block's offset (top release; then nothing else changed) -/
  cursor : s.allocated = s0.allocated ∨
    (s0.allocated = m.memOff + m.memSize ∧ s.allocated = m.memOff ∧ free' = free ∧ s.discarded = s0.discarded)
  size : s.mem.size = s0.mem.size
  minSeg : s.minSeg = s0.minSeg
  /-- the discarded counter: unchanged (this includes the two leak points: own word stored but not linked,
      and linked but the 8 header bytes not yet counted), or incremented by 8 with the segment on the list, or
      incremented by the block size with the list unchanged -/
  disc : s.discarded = s0.discarded ∨
    (s.discarded = (s0.discarded + NODE) % TWO32 ∧ free' = insertSeg c.kind (relSeg m.memOff m.memSize) free) ∨
    (s.discarded = (s0.discarded + m.memSize) % TWO32 ∧ free' = free ∧ s.allocated = s0.allocated)
  /-- every other live extent keeps its bytes -/
  live : LiveIntact s0 s (lives.erase m.owned)
  /-- the reserved prefix and the header area keep their bytes -/
  pre : PrefixIntact c s0 s

theorem st_incDiscarded_allocated (c : Cfg) (s : St) (n : Nat) : (s.incDiscarded c n).allocated = s.allocated := by
  unfold St.incDiscarded; split <;> rfl

theorem st_incDiscarded_discarded (c : Cfg) (s : St) (n : Nat) (hro : c.ro = false) :
    (s.incDiscarded c n).discarded = (s.discarded + n) % TWO32 := by
  unfold St.incDiscarded; rw [if_neg (by rw [hro]; simp)]

theorem cinv_incDiscarded {c : Cfg} {s : St} {free : List Seg} {lives : List Ext} (h : CInv c s free lives)
    (n : Nat) : CInv c (s.incDiscarded c n) free lives := by
  have habs : (s.incDiscarded c n).abs ((s.abs free).incDiscarded c n).free = (s.abs free).incDiscarded c n := by
    rw [incDiscarded_free]; exact dl_incDiscarded_abs c s free n
  have hmem := dl_incDiscarded_mem c s n
  have := dl_cinv_of h habs (h.wf.incDiscarded n) (by rw [hmem, incDiscarded_free]; exact h.chain)
    (by rw [dl_incDiscarded_sentinel, incDiscarded_free]; exact h.sent) (by rw [hmem])
    (dl_incDiscarded_minSeg c s n)
  rw [incDiscarded_free] at this
  exact this

/-- the semantic half: each stage satisfies the mid-release invariant -/
theorem RelStage.mid {c : Cfg} {s0 : St} {free : List Seg} {lives : List Ext} {m : Meta} {s : St}
    (h : CInv c s0 free lives) (hro : c.ro = false) (hm : m.owned ∈ lives) (hne : m.memSize ≠ 0)
    (hs : RelStage c s0 free m.memOff m.memSize s) : ∃ free', MidRelease c s0 free lives m s free' := by
  have hin : c.dataOffset ≤ m.memOff ∧ m.memOff < max (m.memOff + m.memSize) (m.ptrOff + m.ptrSize) ∧
      max (m.memOff + m.memSize) (m.ptrOff + m.ptrSize) ≤ s0.allocated := h.wf.lives_in _ hm
  have hcap := h.capGuard
  have hal : s0.allocated ≤ s0.mem.size := h.wf.hi
  have hw' : WF c (s0.abs free) (m.owned :: lives.erase m.owned) := h.wf.perm (List.perm_cons_erase hm)
  have hc' : CInv c s0 free (lives.erase m.owned) :=
    ⟨hw'.drop, h.chain, h.sent, h.capGuard, h.minSegLt, h.retriesOK⟩
  have hd := hw'.disjoint
  rw [List.pairwise_append, List.pairwise_cons] at hd
  obtain ⟨_, ⟨heL, _⟩, hFL⟩ := hd
  have hdf : ∀ g ∈ free, disj (m.memOff, m.memOff + m.memSize) g.ext := fun g hg =>
    disj_sub (disj_symm (hFL g.ext (List.mem_map_of_mem hg) m.owned (List.mem_cons_self ..)))
      (Nat.le_refl _) (by simp only [Meta.owned]; omega)
  have hdl : ∀ e ∈ lives.erase m.owned, disj (m.memOff, m.memOff + m.memSize) e := fun e he =>
    disj_sub (heL e he) (Nat.le_refl _) (by simp only [Meta.owned]; omega)
  have hge := alignUp8_ge m.memOff
  cases hs with
  | start =>
    exact ⟨free, Or.inl rfl, hc', Or.inl rfl, rfl, rfl, Or.inl rfl, fun _ _ _ _ _ => rfl, fun _ _ => rfl⟩
  | rewound heq =>
    have he : m.owned.2 = (s0.abs free).allocated := by
      show max (m.memOff + m.memSize) (m.ptrOff + m.ptrSize) = s0.allocated
      omega
    have hwf : WF c { s0.abs free with allocated := m.memOff } (lives.erase m.owned) := hw'.rewind he
    refine ⟨free, Or.inl rfl, ?_, Or.inr ⟨heq, rfl, rfl, rfl⟩, rfl, rfl, Or.inl rfl, fun _ _ _ _ _ => rfl,
      fun _ _ => rfl⟩
    exact dl_cinv_of (s' := { s0 with allocated := m.memOff }) h rfl hwf h.chain h.sent rfl rfl
  | counted hnt _ =>
    have hmem := dl_incDiscarded_mem c s0 m.memSize
    refine ⟨free, Or.inl rfl, cinv_incDiscarded hc' _, Or.inl (st_incDiscarded_allocated ..), by rw [hmem],
      dl_incDiscarded_minSeg .., Or.inr (Or.inr ⟨st_incDiscarded_discarded c s0 _ hro, rfl,
        st_incDiscarded_allocated ..⟩), ?_, ?_⟩
    · intro _ _ _ _ _; rw [hmem]
    · intro _ _; rw [hmem]
  | header nxt hnt hk hfit =>
    have hlt := hfit.1
    simp only [NODE] at hlt
    have hmiss : MissesNodes (alignUp 8 m.memOff) (alignUp 8 m.memOff + 8) free := by
      intro g hg
      have := hdf g hg
      unfold disj at this
      simp only [Seg.ext, Seg.lo, Seg.hi, NODE] at this
      omega
    generalize hw : enc (relSeg m.memOff m.memSize).size nxt = w
    have habs : St.abs { s0 with mem := s0.mem.writeWord (relSeg m.memOff m.memSize).off w } (s0.abs free).free =
        s0.abs free := by
      simp [St.abs, St.cap]
    have hcv := dl_cinv_of (s' := { s0 with mem := s0.mem.writeWord (relSeg m.memOff m.memSize).off w }) hc' habs
      hc'.wf (Chain.writeWord _ _ _ hmiss hc'.chain) h.sent (by simp) rfl
    have hok := dl_stepOK_of_frame m.memOff m.memSize hc' habs (by simp) hin.1 hdl
      (fun i hi _ => Mem.rd_writeWord_out _ _ _ _ (by show i < alignUp 8 m.memOff ∨ alignUp 8 m.memOff + 8 ≤ i; omega))
    exact ⟨free, Or.inl rfl, hcv, Or.inl rfl, by simp, rfl, Or.inl rfl, hok.live, hok.pre⟩
  | linked s hnt hk hfit hl =>
    have hlt := hfit.1
    have hwf : WF c { s0.abs free with free := insertSeg c.kind (relSeg m.memOff m.memSize) free }
        (lives.erase m.owned) :=
      hw'.link hk m.memOff m.memSize (Nat.le_refl _) (by simp only [Meta.owned]; omega) hlt
    have habs : s.abs ({ s0.abs free with free := insertSeg c.kind (relSeg m.memOff m.memSize) free } : A).free =
        { s0.abs free with free := insertSeg c.kind (relSeg m.memOff m.memSize) free } := by
      simp only [St.abs, St.cap, hl.size, hl.allocated, hl.minSeg, hl.discarded]
    have hcv := dl_cinv_of hc' habs hwf hl.chain hl.sent hl.size hl.minSeg
    simp only [NODE] at hlt
    have hok := dl_stepOK_of_frame m.memOff m.memSize hc' habs hl.size hin.1 hdl
      (fun i hi hg => hl.frame i (by show i < alignUp 8 m.memOff ∨ alignUp 8 m.memOff + 8 ≤ i; omega) hg)
    exact ⟨_, Or.inr ⟨rfl, hk, hl.allocated⟩, hcv, Or.inl hl.allocated, hl.size, hl.minSeg,
      Or.inl hl.discarded, hok.live, hok.pre⟩
  | done s hnt hk hfit hl =>
    have hlt := hfit.1
    have hwf : WF c { s0.abs free with free := insertSeg c.kind (relSeg m.memOff m.memSize) free }
        (lives.erase m.owned) :=
      hw'.link hk m.memOff m.memSize (Nat.le_refl _) (by simp only [Meta.owned]; omega) hlt
    have habs : s.abs ({ s0.abs free with free := insertSeg c.kind (relSeg m.memOff m.memSize) free } : A).free =
        { s0.abs free with free := insertSeg c.kind (relSeg m.memOff m.memSize) free } := by
      simp only [St.abs, St.cap, hl.size, hl.allocated, hl.minSeg, hl.discarded]
    have hcv := dl_cinv_of hc' habs hwf hl.chain hl.sent hl.size hl.minSeg
    simp only [NODE] at hlt
    have hok := dl_stepOK_of_frame m.memOff m.memSize hc' habs hl.size hin.1 hdl
      (fun i hi hg => hl.frame i (by show i < alignUp 8 m.memOff ∨ alignUp 8 m.memOff + 8 ≤ i; omega) hg)
    have hmem := dl_incDiscarded_mem c s NODE
    refine ⟨_, Or.inr ⟨rfl, hk, by rw [st_incDiscarded_allocated]; exact hl.allocated⟩, cinv_incDiscarded hcv _,
      Or.inl (by rw [st_incDiscarded_allocated]; exact hl.allocated), by rw [hmem]; exact hl.size,
      by rw [dl_incDiscarded_minSeg]; exact hl.minSeg,
      Or.inr (Or.inl ⟨by rw [st_incDiscarded_discarded c s _ hro, hl.discarded], rfl⟩), ?_, ?_⟩
    · intro e he i h1 h2; rw [hmem]; exact hok.live e he i h1 h2
    · intro i hi; rw [hmem]; exact hok.pre i hi

/-! ### the crash theorems -/

/-- geometry of a release: the released range lies in the data area below the cursor and misses every free
    segment -/
theorem release_facts {c : Cfg} {s0 : St} {free : List Seg} {lives : List Ext} {m : Meta}
    (h : CInv c s0 free lives) (hm : m.owned ∈ lives) (hne : m.memSize ≠ 0) :
    c.dataOffset ≤ m.memOff ∧ m.memOff + m.memSize ≤ s0.allocated ∧
      ∀ g ∈ free, disj (m.memOff, m.memOff + m.memSize) g.ext := by
  have hin : c.dataOffset ≤ m.memOff ∧ m.memOff < max (m.memOff + m.memSize) (m.ptrOff + m.ptrSize) ∧
      max (m.memOff + m.memSize) (m.ptrOff + m.ptrSize) ≤ s0.allocated := h.wf.lives_in _ hm
  have hw' : WF c (s0.abs free) (m.owned :: lives.erase m.owned) := h.wf.perm (List.perm_cons_erase hm)
  have hd := hw'.disjoint
  rw [List.pairwise_append, List.pairwise_cons] at hd
  obtain ⟨_, _, hFL⟩ := hd
  refine ⟨hin.1, by omega, fun g hg => ?_⟩
  exact disj_sub (disj_symm (hFL g.ext (List.mem_map_of_mem hg) m.owned (List.mem_cons_self ..)))
    (Nat.le_refl _) (by simp only [Meta.owned]; omega)

/-- MID-OPERATION CRASH THEOREM FOR RELEASES, precise form: after ANY number `k` of scheduling grants of a thread
    that runs `dealloc` alone (that is: after every prefix of its sequence of atomic accesses) the allocator state
    is one of the six stages of `RelStage` -/
theorem crash_dealloc_stage (c : Cfg) (sh : Shared) (free : List Seg) (lives : List Ext) (m : Meta) (fuel : Nat)
    (h : CInv c sh.st free lives) (hm : m.owned ∈ lives) (hne : m.memSize ≠ 0)
    (hfuel : free.length + 2 ≤ fuel) (k : Nat) :
    RelStage c sh.st free m.memOff m.memSize (soloSteps k sh (deallocC c m.memOff m.memSize fuel)).1.st := by
  obtain ⟨hlo, hhi, hdf⟩ := release_facts h hm hne
  obtain ⟨b, s', hrun⟩ := deallocC_stages sh c sh.st free lives m.memOff m.memSize fuel h hlo hne hhi hdf hfuel
  exact hrun.steps k

/-- MID-OPERATION CRASH THEOREM FOR RELEASES: at every intermediate point the state satisfies the concrete
    invariant for the live extents WITHOUT the released block and for a free list that is the old one or the old
    one with the new segment inserted; the cursor is unchanged or rewound to the block; all other live extents
    and the prefix keep their bytes. A crash in the middle of a release can only leak the block. -/
theorem crash_dealloc (c : Cfg) (sh : Shared) (free : List Seg) (lives : List Ext) (m : Meta) (fuel : Nat)
    (h : CInv c sh.st free lives) (hro : c.ro = false) (hm : m.owned ∈ lives) (hne : m.memSize ≠ 0)
    (hfuel : free.length + 2 ≤ fuel) (k : Nat) :
    ∃ free', MidRelease c sh.st free lives m
      (soloSteps k sh (deallocC c m.memOff m.memSize fuel)).1.st free' :=
  (crash_dealloc_stage c sh free lives m fuel h hm hne hfuel k).mid h hro hm hne

/-- the same statement about the machine's own run: the schedule that grants `k` steps to the only thread -/
theorem crash_dealloc_global (c : Cfg) (sh : Shared) (free : List Seg) (lives : List Ext) (m : Meta) (fuel : Nat)
    (h : CInv c sh.st free lives) (hro : c.ro = false) (hm : m.owned ∈ lives) (hne : m.memSize ≠ 0)
    (hfuel : free.length + 2 ≤ fuel) (k : Nat) :
    ∃ free', MidRelease c sh.st free lives m
      (Global.run ⟨sh, [deallocC c m.memOff m.memSize fuel]⟩ (List.replicate k (0, false))).1.sh.st free' := by
  rw [soloSteps_global]
  exact crash_dealloc c sh free lives m fuel h hro hm hne hfuel k

/-! the layers: which stages occur on which path -/

/-- top release: the only write is the cursor CAS -/
theorem crash_dealloc_top (c : Cfg) (sh : Shared) (free : List Seg) (lives : List Ext) (m : Meta) (fuel : Nat)
    (h : CInv c sh.st free lives) (hm : m.owned ∈ lives) (hne : m.memSize ≠ 0)
    (hfuel : free.length + 2 ≤ fuel) (htop : sh.st.allocated = m.memOff + m.memSize) (k : Nat) :
    (soloSteps k sh (deallocC c m.memOff m.memSize fuel)).1.st = sh.st ∨
    (soloSteps k sh (deallocC c m.memOff m.memSize fuel)).1.st = { sh.st with allocated := m.memOff } := by
  have hs := crash_dealloc_stage c sh free lives m fuel h hm hne hfuel k
  generalize (soloSteps k sh (deallocC c m.memOff m.memSize fuel)).1.st = s at hs
  cases hs with
  | start => exact Or.inl rfl
  | rewound _ => exact Or.inr rfl
  | counted hnt _ => exact absurd htop hnt
  | header _ hnt _ _ => exact absurd htop hnt
  | linked _ hnt _ _ _ => exact absurd htop hnt
  | done _ hnt _ _ _ => exact absurd htop hnt

/-- `Freelist::None` (not a top release): the only write is the increment of `discarded` by the block size -/
theorem crash_dealloc_none (c : Cfg) (sh : Shared) (free : List Seg) (lives : List Ext) (m : Meta) (fuel : Nat)
    (h : CInv c sh.st free lives) (hm : m.owned ∈ lives) (hne : m.memSize ≠ 0)
    (hfuel : free.length + 2 ≤ fuel) (htop : sh.st.allocated ≠ m.memOff + m.memSize) (hk : c.kind = .none) (k : Nat) :
    (soloSteps k sh (deallocC c m.memOff m.memSize fuel)).1.st = sh.st ∨
    (soloSteps k sh (deallocC c m.memOff m.memSize fuel)).1.st = sh.st.incDiscarded c m.memSize := by
  have hs := crash_dealloc_stage c sh free lives m fuel h hm hne hfuel k
  generalize (soloSteps k sh (deallocC c m.memOff m.memSize fuel)).1.st = s at hs
  cases hs with
  | start => exact Or.inl rfl
  | rewound heq => exact absurd heq htop
  | counted _ _ => exact Or.inr rfl
  | header _ _ hk' _ => exact absurd hk hk'
  | linked _ _ hk' _ _ => exact absurd hk hk'
  | done _ _ hk' _ _ => exact absurd hk hk'

/-- a range too small for a segment (not a top release): the only write is the increment of `discarded` -/
theorem crash_dealloc_small (c : Cfg) (sh : Shared) (free : List Seg) (lives : List Ext) (m : Meta) (fuel : Nat)
    (h : CInv c sh.st free lives) (hm : m.owned ∈ lives) (hne : m.memSize ≠ 0)
    (hfuel : free.length + 2 ≤ fuel) (htop : sh.st.allocated ≠ m.memOff + m.memSize)
    (hsmall : ¬ Fits sh.st m.memOff m.memSize) (k : Nat) :
    (soloSteps k sh (deallocC c m.memOff m.memSize fuel)).1.st = sh.st ∨
    (soloSteps k sh (deallocC c m.memOff m.memSize fuel)).1.st = sh.st.incDiscarded c m.memSize := by
  have hs := crash_dealloc_stage c sh free lives m fuel h hm hne hfuel k
  generalize (soloSteps k sh (deallocC c m.memOff m.memSize fuel)).1.st = s at hs
  cases hs with
  | start => exact Or.inl rfl
  | rewound heq => exact absurd heq htop
  | counted _ _ => exact Or.inr rfl
  | header _ _ _ hf => exact absurd hf hsmall
  | linked _ _ _ hf _ => exact absurd hf hsmall
  | done _ _ _ hf _ => exact absurd hf hsmall

/-- the insertion path (optimistic AND pessimistic list; not a top release, the range fits): untouched, own word
    stored inside the released range, linked (counter lags by 8), counted -/
theorem crash_dealloc_insert (c : Cfg) (sh : Shared) (free : List Seg) (lives : List Ext) (m : Meta) (fuel : Nat)
    (h : CInv c sh.st free lives) (hm : m.owned ∈ lives) (hne : m.memSize ≠ 0)
    (hfuel : free.length + 2 ≤ fuel) (htop : sh.st.allocated ≠ m.memOff + m.memSize) (hk : c.kind ≠ .none)
    (hfit : Fits sh.st m.memOff m.memSize) (k : Nat) :
    (soloSteps k sh (deallocC c m.memOff m.memSize fuel)).1.st = sh.st ∨
    (∃ nxt, (soloSteps k sh (deallocC c m.memOff m.memSize fuel)).1.st =
      { sh.st with mem := sh.st.mem.writeWord (relSeg m.memOff m.memSize).off
                            (enc (relSeg m.memOff m.memSize).size nxt) }) ∨
    (∃ s, Linked c.kind sh.st free (relSeg m.memOff m.memSize) s ∧
      ((soloSteps k sh (deallocC c m.memOff m.memSize fuel)).1.st = s ∨
       (soloSteps k sh (deallocC c m.memOff m.memSize fuel)).1.st = s.incDiscarded c NODE)) := by
  have hs := crash_dealloc_stage c sh free lives m fuel h hm hne hfuel k
  generalize (soloSteps k sh (deallocC c m.memOff m.memSize fuel)).1.st = s at hs
  cases hs with
  | start => exact Or.inl rfl
  | rewound heq => exact absurd heq htop
  | counted _ hc =>
    rcases hc with hc | hc
    · exact absurd hc hk
    · exact absurd hfit hc
  | header nxt _ _ _ => exact Or.inr (Or.inl ⟨nxt, rfl⟩)
  | linked s _ _ _ hl => exact Or.inr (Or.inr ⟨s, hl, Or.inl rfl⟩)
  | done s _ _ _ hl => exact Or.inr (Or.inr ⟨s, hl, Or.inr rfl⟩)

theorem crash_dealloc_insert_opt (c : Cfg) (sh : Shared) (free : List Seg) (lives : List Ext) (m : Meta) (fuel : Nat)
    (h : CInv c sh.st free lives) (hro : c.ro = false) (hm : m.owned ∈ lives) (hne : m.memSize ≠ 0)
    (hfuel : free.length + 2 ≤ fuel) (hk : c.kind = .opt) (k : Nat) :
    ∃ free', (free' = free ∨ free' = insertSeg .opt (relSeg m.memOff m.memSize) free) ∧
      CInv c (soloSteps k sh (deallocC c m.memOff m.memSize fuel)).1.st free' (lives.erase m.owned) := by
  obtain ⟨free', hmid⟩ := crash_dealloc c sh free lives m fuel h hro hm hne hfuel k
  refine ⟨free', ?_, hmid.inv⟩
  rcases hmid.list with hl | ⟨hl, _, _⟩
  · exact Or.inl hl
  · rw [hk] at hl; exact Or.inr hl

theorem crash_dealloc_insert_pess (c : Cfg) (sh : Shared) (free : List Seg) (lives : List Ext) (m : Meta) (fuel : Nat)
    (h : CInv c sh.st free lives) (hro : c.ro = false) (hm : m.owned ∈ lives) (hne : m.memSize ≠ 0)
    (hfuel : free.length + 2 ≤ fuel) (hk : c.kind = .pess) (k : Nat) :
    ∃ free', (free' = free ∨ free' = insertSeg .pess (relSeg m.memOff m.memSize) free) ∧
      CInv c (soloSteps k sh (deallocC c m.memOff m.memSize fuel)).1.st free' (lives.erase m.owned) := by
  obtain ⟨free', hmid⟩ := crash_dealloc c sh free lives m fuel h hro hm hne hfuel k
  refine ⟨free', ?_, hmid.inv⟩
  rcases hmid.list with hl | ⟨hl, _, _⟩
  · exact Or.inl hl
  · rw [hk] at hl; exact Or.inr hl

/-- if nothing stops the thread it reaches, after finitely many grants, exactly the final state of the sequential
    `dealloc` (the one `dealloc_refines` describes) and stays there -/
theorem crash_dealloc_completes (c : Cfg) (sh : Shared) (free : List Seg) (lives : List Ext) (m : Meta) (fuel : Nat)
    (hsync : c.sync = true)
    (h : CInv c sh.st free lives) (hro : c.ro = false) (hm : m.owned ∈ lives) (hne : m.memSize ≠ 0)
    (hfuel : free.length + 2 ≤ fuel) :
    ∃ s' K, dealloc c sh.st m.memOff m.memSize fuel =
        .ok (((sh.st.abs free).dealloc c m.memOff m.memSize).1, s') ∧
      CInv c s' ((sh.st.abs free).dealloc c m.memOff m.memSize).2.free (lives.erase m.owned) ∧
      ∀ k, K ≤ k → soloSteps k sh (deallocC c m.memOff m.memSize fuel) =
        (withSt sh s', .ret ((sh.st.abs free).dealloc c m.memOff m.memSize).1) := by
  obtain ⟨s', hrun, _, hcinv⟩ := dealloc_refines c sh.st free lives m fuel h hro hm hne hfuel
  have hsolo := dealloc_solo c hsync sh _ _ _ _ _ hrun
  obtain ⟨hlo, hhi, hdf⟩ := release_facts h hm hne
  obtain ⟨b, s'', hI⟩ := deallocC_stages sh c sh.st free lives m.memOff m.memSize fuel h hlo hne hhi hdf hfuel
  obtain ⟨hb, hs⟩ := Solo.det hI.toSolo hsolo
  obtain ⟨K, hK⟩ := hI.steps_final
  refine ⟨s', K, hrun, hcinv, fun k hk => ?_⟩
  have := hK k hk
  rw [hb, hs] at this
  exact this

/-! ### consequences: the image taken mid-release reopens, later operations terminate -/

/-- the sanity bytes of the file lie in the untouched prefix: the intermediate state still is a well-formed file -/
theorem MidRelease.wellFormedFile {c : Cfg} {s0 s : St} {free free' : List Seg} {lives : List Ext} {m : Meta}
    (hmid : MidRelease c s0 free lives m s free') (magic : Nat) (hwf : C05.WellFormedFile c s0 magic) :
    C05.WellFormedFile c s magic := by
  refine ⟨hwf.1, hwf.2.1, ?_⟩
  rw [← hwf.2.2]
  apply C05.sanityCheck_congr
  intro i h1 h2
  apply hmid.pre i
  rw [hwf.2.1]
  unfold dataOffsetUnify headerOffset HEADER_SIZE
  omega

/-- (a) RECOVERY: the page-cache image of the state at ANY point of a release reopens (`map_mut`, same options) to
    an arena satisfying the concrete invariant for the live extents other than the released block — with the
    cursor where it was or rewound to the block, and with every other live extent holding the bytes it held
    before the release started. This is `C06.boundary` applied to a mid-operation image. -/
theorem crash_dealloc_reopens (c : Cfg) (sh : Shared) (free : List Seg) (lives : List Ext) (m : Meta) (fuel : Nat)
    (h : CInv c sh.st free lives) (hro : c.ro = false) (hm : m.owned ∈ lives) (hne : m.memSize ≠ 0)
    (hfuel : free.length + 2 ≤ fuel) (k : Nat)
    (magic : Nat) (o : OpenOpts) (tail : Mem)
    (hwf : C05.WellFormedFile c sh.st magic) (ho : C05.Matches o c magic)
    (hcap : match o.cap with
      | some n => sh.st.allocated ≤ n ∧ n + 8192 ≤ TWO32
      | none => (sh.st.cap + tail.size) + 8192 ≤ TWO32)
    (hr : o.sync = true → o.retries ≤ 255) :
    ∃ free' r fs',
      (free' = free ∨ free' = insertSeg c.kind (relSeg m.memOff m.memSize) free) ∧
      openWritable o false
        (some (C06.crashImage c (soloSteps k sh (deallocC c m.memOff m.memSize fuel)).1.st tail)) = (.ok r, fs') ∧
      (r.st.allocated = sh.st.allocated ∨ r.st.allocated = m.memOff) ∧
      r.cfg.dataOffset ≤ r.st.allocated ∧ r.st.allocated ≤ r.st.cap ∧
      CInv r.cfg r.st free' (lives.erase m.owned) ∧
      (∀ e ∈ lives.erase m.owned, ∀ i, e.1 ≤ i → i < e.2 → r.st.mem.rd i = sh.st.mem.rd i) := by
  obtain ⟨free', hmid⟩ := crash_dealloc c sh free lives m fuel h hro hm hne hfuel k
  generalize (soloSteps k sh (deallocC c m.memOff m.memSize fuel)).1.st = sk at hmid ⊢
  have hwfk := hmid.wellFormedFile magic hwf
  have hle : sk.allocated ≤ sh.st.allocated := by
    rcases hmid.cursor with hc | ⟨h1, h2, _, _⟩
    · omega
    · omega
  have hcapk : (match o.cap with
      | some n => sk.allocated ≤ n ∧ n + 8192 ≤ TWO32
      | none => (sk.cap + tail.size) + 8192 ≤ TWO32) := by
    have hsz : sk.cap = sh.st.cap := hmid.size
    cases hoc : o.cap with
    | none => rw [hoc] at hcap; simp only at hcap ⊢; omega
    | some n => rw [hoc] at hcap; simp only at hcap ⊢; omega
  obtain ⟨r, fs', h1, h2, h3, h4, h5, h6⟩ := C06.boundary c sk free' (lives.erase m.owned) magic o tail hmid.inv hwfk ho
    hcapk hr
  refine ⟨free', r, fs', ?_, h1, ?_, h3, h4, h6, ?_⟩
  · rcases hmid.list with hl | ⟨hl, _, _⟩
    · exact Or.inl hl
    · exact Or.inr hl
  · rw [h2]
    rcases hmid.cursor with hc | ⟨_, hc, _, _⟩
    · exact Or.inl hc
    · exact Or.inr hc
  · intro e he i hi1 hi2
    have hin : c.dataOffset ≤ e.1 ∧ e.1 < e.2 ∧ e.2 ≤ sk.allocated := hmid.inv.wf.lives_in e he
    rw [h5 i (by omega), C05.image_rd_out c sk i (Or.inr ?_)]
    · exact hmid.live e he i hi1 hi2
    · have := hwf.2.1
      unfold dataOffsetUnify at this
      omega

/-- (b) `C06.later_ops_terminate` applies to the intermediate state itself: on the arena as a crash (or a thread
    that never resumes) leaves it, an allocation terminates with an answer and never hands out a range that is
    live — the released block excluded -/
theorem crash_dealloc_later_ops (c : Cfg) (sh : Shared) (free : List Seg) (lives : List Ext) (m : Meta) (fuel : Nat)
    (h : CInv c sh.st free lives) (hro : c.ro = false) (hm : m.owned ∈ lives) (hne : m.memSize ≠ 0)
    (hfuel : free.length + 2 ≤ fuel) (k : Nat) (n fuel' : Nat) (hn : n < TWO32) (hfuel' : free.length + 3 ≤ fuel') :
    ∃ free' r s', (free' = free ∨ free' = insertSeg c.kind (relSeg m.memOff m.memSize) free) ∧
      allocBytes c (soloSteps k sh (deallocC c m.memOff m.memSize fuel)).1.st n fuel' = .ok (r, s') ∧
      match r with
      | .ok (some m') =>
        CInv c s' (((soloSteps k sh (deallocC c m.memOff m.memSize fuel)).1.st.abs free').allocBytes c n).2.free
          (m'.owned :: lives.erase m.owned)
      | _ => s' = (soloSteps k sh (deallocC c m.memOff m.memSize fuel)).1.st := by
  obtain ⟨free', hmid⟩ := crash_dealloc c sh free lives m fuel h hro hm hne hfuel k
  have hlist : free' = free ∨ free' = insertSeg c.kind (relSeg m.memOff m.memSize) free := by
    rcases hmid.list with hl | ⟨hl, _, _⟩
    · exact Or.inl hl
    · exact Or.inr hl
  have hlen : free'.length + 2 ≤ fuel' := by
    rcases hlist with hl | hl
    · rw [hl]; omega
    · rw [hl, length_insertSeg]; omega
  obtain ⟨r, s', h1, h2⟩ := C06.later_ops_terminate c _ free' (lives.erase m.owned) n fuel' hmid.inv hn hlen
  exact ⟨free', r, s', hlist, h1, h2⟩

/-- (a) + (b): on the arena REOPENED from the image taken at any point of a release, an allocation terminates with
    an answer and never hands out a live range -/
theorem crash_dealloc_reopened_later_ops (c : Cfg) (sh : Shared) (free : List Seg) (lives : List Ext) (m : Meta)
    (fuel : Nat)
    (h : CInv c sh.st free lives) (hro : c.ro = false) (hm : m.owned ∈ lives) (hne : m.memSize ≠ 0)
    (hfuel : free.length + 2 ≤ fuel) (k : Nat)
    (magic : Nat) (o : OpenOpts) (tail : Mem)
    (hwf : C05.WellFormedFile c sh.st magic) (ho : C05.Matches o c magic)
    (hcap : match o.cap with
      | some n => sh.st.allocated ≤ n ∧ n + 8192 ≤ TWO32
      | none => (sh.st.cap + tail.size) + 8192 ≤ TWO32)
    (hr : o.sync = true → o.retries ≤ 255)
    (n fuel' : Nat) (hn : n < TWO32) (hfuel' : free.length + 3 ≤ fuel') :
    ∃ free' r fs' res s',
      openWritable o false
        (some (C06.crashImage c (soloSteps k sh (deallocC c m.memOff m.memSize fuel)).1.st tail)) = (.ok r, fs') ∧
      CInv r.cfg r.st free' (lives.erase m.owned) ∧
      allocBytes r.cfg r.st n fuel' = .ok (res, s') ∧
      match res with
      | .ok (some m') => CInv r.cfg s' ((r.st.abs free').allocBytes r.cfg n).2.free (m'.owned :: lives.erase m.owned)
      | _ => s' = r.st := by
  obtain ⟨free', r, fs', hlist, hopen, _, _, _, hinv, _⟩ :=
    crash_dealloc_reopens c sh free lives m fuel h hro hm hne hfuel k magic o tail hwf ho hcap hr
  have hlen : free'.length + 2 ≤ fuel' := by
    rcases hlist with hl | hl
    · rw [hl]; omega
    · rw [hl, length_insertSeg]; omega
  obtain ⟨res, s', h1, h2⟩ := C06.later_ops_terminate r.cfg r.st free' (lives.erase m.owned) n fuel' hinv hn hlen
  exact ⟨free', r, fs', res, s', hopen, hinv, h1, h2⟩

end Rarena.Conc

/- OPEN (not covered by this file; nothing below is used above):
   * Crash points of a release that runs CONCURRENTLY with other threads' operations (the link CAS may then fail
     and the loop retries; the own-word store is repeated with another successor) — the statement would be
       ∀ schedule, the state after any prefix of `Global.run` satisfies ∃ free', CInv … for the extents that are
       live and not being released at that point,
     and needs a concurrent invariant for `Global.step` (every thread at every program point), which the
     project does not have yet; only the thread running alone is treated here (`SoloI`).
   * Crash points inside ALLOCATIONS from the free list (mark CAS done, unlink CAS not yet: KNOWN FINDING F15, the
     reopened arena's traversal does not terminate) — there the analogue of `crash_dealloc` is FALSE.
   * `Shared.refs` / `Shared.released` are not mentioned by `SoloI` (it tracks `Shared.st` only); `deallocC`
     never accesses them, so they are unchanged, but this is not stated as a theorem.
   * `SoloI` has no constructor for non-atomic effects (`Prog.na`): `deallocC` contains none. For operations
     that zero memory (`Meta::clear`) `SoloI.grant` would have to run `settle` through the `na` prefix. -/
