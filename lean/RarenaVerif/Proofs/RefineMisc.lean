/-
  Proofs.RefineMisc — constructors, client writes, `discard_freelist`, `set_minimum_segment_size`,
  `increase_discarded`, `clear`, `truncate` preserve the concrete invariant and track the abstract state.
  (statement file: every `sorry` below is a proof obligation)
-/
import RarenaVerif.Proofs.RefineDefs
import RarenaVerif.Proofs.SpecWF

namespace Rarena

/-- a freshly constructed arena (Vec, anonymous map, newly created file) satisfies the invariant with an
    empty free list and no handles, and represents `A.fresh` -/
theorem init_cinv (o : Opts) (s : St) (h : o.init = some s) (hcap : o.cap + 8192 ≤ TWO32)
    (hms : o.minSeg < TWO32) (hr : 1 ≤ o.retries ∧ o.retries ≤ 255) :
    CInv o.cfg s [] [] ∧ s.abs [] = A.fresh o.cap o.dataOffset o.minSeg ∧ s.cap = o.cap ∧
    (∀ i, o.dataOffset ≤ i → s.mem.rd i = 0) := by
  sorry

/-- construction is refused exactly when the prefix does not fit -/
theorem init_none_iff (o : Opts) : o.init = none ↔ o.cap < o.dataOffset := by
  sorry

/-- a client writing through a handle (any bytes inside an extent of `lives`) keeps the invariant -/
theorem fill_cinv (c : Cfg) (s : St) (free : List Seg) (lives : List Ext) (e : Ext) (off len : Nat) (b : UInt8)
    (h : CInv c s free lives) (he : e ∈ lives) (h1 : e.1 ≤ off) (h2 : off + len ≤ e.2) :
    CInv c { s with mem := s.mem.fill off len b } free lives := by
  sorry

theorem setMinSeg_cinv (c : Cfg) (s : St) (free : List Seg) (lives : List Ext) (n : Nat)
    (h : CInv c s free lives) (hn : n < TWO32) : CInv c (setMinSeg c s n) free lives := by
  sorry

theorem incDiscarded_cinv (c : Cfg) (s : St) (free : List Seg) (lives : List Ext) (n : Nat)
    (h : CInv c s free lives) :
    CInv c (s.incDiscarded c n) free lives ∧ (s.incDiscarded c n).abs free = (s.abs free).incDiscarded c n := by
  sorry

/-- `discard_freelist` returns the abstract answer, empties the list, only writes node words of free segments -/
theorem discardFreelist_refines (c : Cfg) (s : St) (free : List Seg) (lives : List Ext) (fuel : Nat)
    (h : CInv c s free lives) (hfuel : free.length + 2 ≤ fuel) :
    let r := (s.abs free).discardFreelist c
    ∃ s', discardFreelist c s fuel = .ok (r.1, s') ∧ StepOK c s s' r.2 lives ∧ CInv c s' r.2.free lives := by
  sorry

/-- `clear` makes the arena pristine: it represents `A.fresh` with the minimum segment size in force, the data
    area is zero and the prefix is untouched -/
theorem clear_refines (c : Cfg) (s : St) (free : List Seg) (lives : List Ext) (h : CInv c s free lives)
    (hro : c.ro = false) :
    ∃ s', clear c s = .ok s' ∧ CInv c s' [] [] ∧ s'.abs [] = A.fresh s.cap c.dataOffset s.minSeg ∧
      PrefixIntact c s s' ∧ s'.mem.size = s.mem.size ∧ (∀ i, c.dataOffset ≤ i → s'.mem.rd i = 0) := by
  sorry

theorem clear_ro (c : Cfg) (s : St) (hro : c.ro = true) : clear c s = .error .readOnly := by
  sorry

/-- `truncate n` sets the capacity to `max n allocated` and changes nothing else -/
theorem truncate_refines (c : Cfg) (s : St) (free : List Seg) (lives : List Ext) (n : Nat)
    (h : CInv c s free lives) (hro : c.ro = false) (hn : max n s.allocated + 8192 ≤ TWO32) :
    ∃ s', truncate c s n = .ok s' ∧ s'.cap = max n s.allocated ∧
      s'.abs free = { s.abs free with cap := max n s.allocated } ∧ CInv c s' free lives ∧
      (∀ i, i < s.allocated → s'.mem.rd i = s.mem.rd i) := by
  sorry

theorem truncate_ro (c : Cfg) (s : St) (n : Nat) (hro : c.ro = true) : truncate c s n = .error .readOnly := by
  sorry

end Rarena
