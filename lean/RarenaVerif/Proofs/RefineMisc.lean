/-
  Proofs.RefineMisc — constructors, client writes, `discard_freelist`, `set_minimum_segment_size`,
  `increase_discarded`, `clear`, `truncate` preserve the concrete invariant and track the abstract state.
-/
import RarenaVerif.Proofs.RefineDefs
import RarenaVerif.Proofs.SpecWF

namespace Rarena

private theorem dataOffset_pos (o : Opts) : 1 ≤ o.dataOffset := by
  unfold Opts.dataOffset dataOffsetUnify dataOffsetPlain headerOffset HEADER_SIZE
  split <;> omega

private theorem rd_replicate_zero (n i : Nat) : Mem.rd (Array.replicate n (0 : UInt8)) i = 0 := by
  unfold Mem.rd
  by_cases h : i < n
  · simp [h]
  · simp [h]

private theorem size_writeSanity (m : Mem) (r : Nat) (k : Kind) (mg : Nat) : (writeSanity m r k mg).size = m.size := by
  simp [writeSanity]

private theorem rd_writeSanity_out (m : Mem) (r : Nat) (k : Kind) (mg : Nat) (i : Nat) (h : r + 8 ≤ i) :
    (writeSanity m r k mg).rd i = m.rd i := by
  unfold writeSanity Mem.writeLE
  simp only []
  rw [Mem.rd_update_out _ _ _ _ _ (by omega), Mem.rd_update_out _ _ _ _ _ (by omega),
    Mem.rd_update_out _ _ _ _ _ (by omega), Mem.rd_update_out _ _ _ _ _ (by omega),
    Mem.rd_update_out _ _ _ _ _ (by omega)]

/-- a freshly constructed arena (Vec, anonymous map, newly created file) satisfies the invariant with an
    empty free list and no handles, and represents `A.fresh` -/
theorem init_cinv (o : Opts) (s : St) (h : o.init = some s) (hcap : o.cap + 8192 ≤ TWO32)
    (hms : o.minSeg < TWO32) (hr : o.retries ≤ 255) :
    CInv o.cfg s [] [] ∧ s.abs [] = A.fresh o.cap o.dataOffset o.minSeg ∧ s.cap = o.cap ∧
    (∀ i, o.dataOffset ≤ i → s.mem.rd i = 0) := by
  unfold Opts.init at h
  split at h
  · cases h
  · rename_i hle
    obtain ⟨mem, se, al, ms, di⟩ := s
    simp only [Option.some.injEq, St.mk.injEq] at h
    obtain ⟨hm, rfl, rfl, rfl, rfl⟩ := h
    have hsz : mem.size = o.cap := by
      rw [← hm]; split <;> simp [size_writeSanity]
    have habs : St.abs ⟨mem, SENTINEL_WORD, o.dataOffset, o.minSeg, 0⟩ [] = A.fresh o.cap o.dataOffset o.minSeg := by
      simp only [St.abs, St.cap, A.fresh, hsz]
    refine ⟨⟨?_, trivial, rfl, ?_, hms, fun _ => hr⟩, habs, hsz, ?_⟩
    · rw [habs]
      exact WF.fresh o.cfg o.cap o.minSeg (dataOffset_pos o) (by show o.dataOffset ≤ o.cap; omega)
    · show mem.size + 8192 ≤ TWO32
      rw [hsz]; exact hcap
    · intro i hi
      show Mem.rd mem i = 0
      rw [← hm]
      by_cases hu : o.unified = true
      · rw [if_pos hu, rd_writeSanity_out, rd_replicate_zero]
        unfold Opts.dataOffset at hi
        rw [if_pos hu] at hi
        unfold dataOffsetUnify headerOffset HEADER_SIZE at hi
        omega
      · rw [if_neg hu, rd_replicate_zero]

/-- construction is refused exactly when the prefix does not fit -/
theorem init_none_iff (o : Opts) : o.init = none ↔ o.cap < o.dataOffset := by
  unfold Opts.init
  split
  · simp; omega
  · simp; omega


/-- a byte range inside a live extent misses every node word (indeed every byte) of the free segments -/
theorem misses_of_live {c : Cfg} {a : A} {lives : List Ext} (hw : WF c a lives) (e : Ext) (he : e ∈ lives)
    (lo hi : Nat) (h1 : e.1 ≤ lo) (h2 : hi ≤ e.2) : MissesNodes lo hi a.free := by
  intro g hg
  have hd := hw.disjoint
  rw [List.pairwise_append] at hd
  have := hd.2.2 g.ext (List.mem_map_of_mem hg) e he
  unfold disj at this
  simp only [Seg.ext, Seg.lo, Seg.hi, NODE] at this
  omega

/-- a client writing through a handle (any bytes inside an extent of `lives`) keeps the invariant -/
theorem fill_cinv (c : Cfg) (s : St) (free : List Seg) (lives : List Ext) (e : Ext) (off len : Nat) (b : UInt8)
    (h : CInv c s free lives) (he : e ∈ lives) (h1 : e.1 ≤ off) (h2 : off + len ≤ e.2) :
    CInv c { s with mem := s.mem.fill off len b } free lives := by
  have habs : St.abs { s with mem := s.mem.fill off len b } free = s.abs free := by
    simp only [St.abs, St.cap, Mem.size_fill]
  refine ⟨?_, ?_, h.sent, ?_, h.minSegLt, h.retriesOK⟩
  · rw [habs]; exact h.wf
  · exact Chain.fill free off len b (misses_of_live h.wf e he _ _ h1 h2) h.chain
  · have := h.capGuard
    simpa only [St.cap, Mem.size_fill] using this

theorem setMinSeg_cinv (c : Cfg) (s : St) (free : List Seg) (lives : List Ext) (n : Nat)
    (h : CInv c s free lives) (hn : n < TWO32) : CInv c (setMinSeg c s n) free lives := by
  unfold setMinSeg
  split
  · exact h
  · have hw := h.wf
    exact ⟨⟨hw.segs, hw.sorted, hw.disjoint, hw.lives_in, hw.lo, hw.mid, hw.hi, hw.none_empty, hw.disc⟩,
      h.chain, h.sent, h.capGuard, hn, h.retriesOK⟩

theorem incDiscarded_abs (c : Cfg) (s : St) (free : List Seg) (n : Nat) :
    (s.incDiscarded c n).abs free = (s.abs free).incDiscarded c n := by
  unfold St.incDiscarded A.incDiscarded
  split <;> rfl

theorem incDiscarded_cinv (c : Cfg) (s : St) (free : List Seg) (lives : List Ext) (n : Nat)
    (h : CInv c s free lives) :
    CInv c (s.incDiscarded c n) free lives ∧ (s.incDiscarded c n).abs free = (s.abs free).incDiscarded c n := by
  refine ⟨?_, incDiscarded_abs c s free n⟩
  refine ⟨?_, ?_, ?_, ?_, ?_, h.retriesOK⟩
  · rw [incDiscarded_abs]; exact h.wf.incDiscarded n
  · unfold St.incDiscarded; split <;> exact h.chain
  · unfold St.incDiscarded; split <;> exact h.sent
  · unfold St.incDiscarded; split <;> exact h.capGuard
  · unfold St.incDiscarded; split <;> exact h.minSegLt

/-- `clear` makes the arena pristine: it represents `A.fresh` with the minimum segment size in force, the data
    area is zero and the prefix is untouched -/
theorem clear_refines (c : Cfg) (s : St) (free : List Seg) (lives : List Ext) (h : CInv c s free lives)
    (hro : c.ro = false) :
    ∃ s', clear c s = .ok s' ∧ CInv c s' [] [] ∧ s'.abs [] = A.fresh s.cap c.dataOffset s.minSeg ∧
      PrefixIntact c s s' ∧ s'.mem.size = s.mem.size ∧ (∀ i, c.dataOffset ≤ i → s'.mem.rd i = 0) := by
  have hw := h.wf
  have hmid : c.dataOffset ≤ s.cap := Nat.le_trans hw.mid hw.hi
  refine ⟨_, by unfold clear; rw [hro]; rfl, ?_, ?_, ?_, ?_, ?_⟩
  · refine ⟨?_, trivial, rfl, ?_, h.minSegLt, h.retriesOK⟩
    · have : St.abs ⟨s.mem.zero c.dataOffset (s.cap - c.dataOffset), SENTINEL_WORD, c.dataOffset, s.minSeg, 0⟩ [] =
          A.fresh s.cap c.dataOffset s.minSeg := by
        simp only [St.abs, St.cap, A.fresh, Mem.size_zero]
      rw [this]
      exact WF.fresh c s.cap s.minSeg hw.lo hmid
    · have := h.capGuard
      simpa only [St.cap, Mem.size_zero] using this
  · simp only [St.abs, St.cap, A.fresh, Mem.size_zero]
  · intro i hi
    exact Mem.rd_zero_out _ _ _ _ (Or.inl hi)
  · simp
  · intro i hi
    show (s.mem.zero c.dataOffset (s.cap - c.dataOffset)).rd i = 0
    by_cases hlt : i < s.cap
    · exact Mem.rd_zero_in _ _ _ _ hi (by omega)
    · exact Mem.rd_oob _ _ (by simp only [Mem.size_zero]; unfold St.cap at hlt; omega)

theorem clear_ro (c : Cfg) (s : St) (hro : c.ro = true) : clear c s = .error .readOnly := by
  unfold clear; rw [hro]; rfl

theorem truncate_ro (c : Cfg) (s : St) (n : Nat) (hro : c.ro = true) : truncate c s n = .error .readOnly := by
  unfold truncate; rw [hro]; rfl

private theorem Chain.congr' {m m' : Mem} (l : List Seg) (hb : ∀ g ∈ l, g.off + 8 ≤ m'.size)
    (hw : ∀ g ∈ l, m'.readWord g.off = m.readWord g.off) (h : Chain m l) : Chain m' l := by
  induction l with
  | nil => trivial
  | cons g rest ih =>
    refine ⟨hb g List.mem_cons_self, ?_, ih (fun x hx => hb x (List.mem_cons_of_mem _ hx))
      (fun x hx => hw x (List.mem_cons_of_mem _ hx)) h.2.2⟩
    rw [hw g List.mem_cons_self]; exact h.2.1

private theorem rd_ofFn (k : Nat) (f : Fin k → UInt8) (i : Nat) (hi : i < k) : Mem.rd (Array.ofFn f) i = (f ⟨i, hi⟩).toNat := by
  unfold Mem.rd
  simp [hi]

private theorem rd_truncMem (c : Cfg) (s : St) (k : Nat) (i : Nat) (hi : i < s.allocated) (hk : s.allocated ≤ k) :
    Mem.rd (Array.ofFn (n := k) (fun i => if i.val < s.allocated ∨ c.fileBacked then s.mem.getD i.val 0 else 0)) i
      = s.mem.rd i := by
  rw [rd_ofFn _ _ i (by omega)]
  simp only [hi, true_or, if_true]
  unfold Mem.rd
  simp [Array.getD_eq_getD_getElem?]

/-- `truncate n` sets the capacity to `max n allocated` and changes nothing else -/
theorem truncate_refines (c : Cfg) (s : St) (free : List Seg) (lives : List Ext) (n : Nat)
    (h : CInv c s free lives) (hro : c.ro = false) (hn : max n s.allocated + 8192 ≤ TWO32) :
    ∃ s', truncate c s n = .ok s' ∧ s'.cap = max n s.allocated ∧
      s'.abs free = { s.abs free with cap := max n s.allocated } ∧ CInv c s' free lives ∧
      (∀ i, i < s.allocated → s'.mem.rd i = s.mem.rd i) := by
  have hw := h.wf
  have hsize : (if s.allocated ≥ n then s.allocated else n) = max n s.allocated := by
    split <;> omega
  have hk : s.allocated ≤ (if s.allocated ≥ n then s.allocated else n) := by split <;> omega
  have hrd := fun i hi => rd_truncMem c s _ i hi hk
  have habs : St.abs { s with mem := (Array.ofFn (n := if s.allocated ≥ n then s.allocated else n)
      (fun i => if i.val < s.allocated ∨ c.fileBacked then s.mem.getD i.val 0 else 0)) } free =
      { s.abs free with cap := max n s.allocated } := by
    simp only [St.abs, St.cap, Array.size_ofFn, hsize]
  refine ⟨_, by unfold truncate; rw [hro]; rfl, ?_, habs, ?_, hrd⟩
  · simp only [St.cap, Array.size_ofFn, hsize]
  · refine ⟨?_, ?_, h.sent, ?_, h.minSegLt, h.retriesOK⟩
    · rw [habs]
      refine ⟨hw.segs, hw.sorted, hw.disjoint, hw.lives_in, hw.lo, hw.mid, ?_, hw.none_empty, hw.disc⟩
      show s.allocated ≤ max n s.allocated
      omega
    · refine Chain.congr' free ?_ ?_ h.chain
      · intro g hg
        have := (hw.segs g hg).2.2.2
        simp only [Seg.hi, NODE, Array.size_ofFn] at *
        show g.off + 8 ≤ _
        simp only [St.abs] at this
        omega
      · intro g hg
        have := (hw.segs g hg).2.2.2
        simp only [Seg.hi, NODE, St.abs] at this
        unfold Mem.readWord
        apply Mem.readLE_congr
        intro i h1 h2
        exact hrd i (by omega)
    · simp only [St.cap, Array.size_ofFn, hsize]; exact hn


private theorem sum_filter_split (p : Seg → Bool) (l : List Seg) :
    ((l.filter p).map (·.size)).sum + ((l.filter (fun x => !p x)).map (·.size)).sum = (l.map (·.size)).sum := by
  induction l with
  | nil => rfl
  | cons g rest ih =>
    by_cases hp : p g = true
    · simp only [List.filter_cons, hp, if_true, Bool.not_true, Bool.false_eq_true, if_false, List.map_cons,
        List.sum_cons]
      omega
    · have hp' : p g = false := by simpa using hp
      simp only [List.filter_cons, hp', Bool.false_eq_true, if_false, Bool.not_false, if_true, List.map_cons,
        List.sum_cons]
      omega

/-- pairwise disjoint segments inside `[A, B)` have total size at most `B - A` -/
theorem sum_sizes_le (n : Nat) : ∀ (l : List Seg), l.length ≤ n → ∀ (A B : Nat), A ≤ B →
    (∀ g ∈ l, A ≤ g.off ∧ g.off + 8 + g.size ≤ B) → l.Pairwise (fun x y => disj x.ext y.ext) →
    (l.map (·.size)).sum + A ≤ B := by
  induction n with
  | zero =>
    intro l hl A B hAB _ _
    have : l = [] := List.eq_nil_of_length_eq_zero (by omega)
    subst this
    simpa using hAB
  | succ n ih =>
    intro l hl A B hAB hin hp
    cases l with
    | nil => simpa using hAB
    | cons g rest =>
      rw [List.pairwise_cons] at hp
      obtain ⟨hg, hrest⟩ := hp
      have hgin := hin g List.mem_cons_self
      have hlen : rest.length ≤ n := by simp at hl; omega
      let p : Seg → Bool := fun x => decide (x.off + 8 + x.size ≤ g.off)
      have h1 := ih (rest.filter p) (Nat.le_trans (List.length_filter_le _ _) hlen) A g.off hgin.1
        (by
          intro x hx
          rw [List.mem_filter] at hx
          have := hin x (List.mem_cons_of_mem _ hx.1)
          have h2 : x.off + 8 + x.size ≤ g.off := by simpa [p] using hx.2
          omega)
        (List.Pairwise.sublist List.filter_sublist hrest)
      have h2 := ih (rest.filter (fun x => !p x)) (Nat.le_trans (List.length_filter_le _ _) hlen)
        (g.off + 8 + g.size) B hgin.2
        (by
          intro x hx
          rw [List.mem_filter] at hx
          have h3 := hin x (List.mem_cons_of_mem _ hx.1)
          have h4 : ¬ x.off + 8 + x.size ≤ g.off := by simpa [p] using hx.2
          have h5 := hg x hx.1
          unfold disj at h5
          simp only [Seg.ext, Seg.lo, Seg.hi, NODE] at h5
          omega)
        (List.Pairwise.sublist List.filter_sublist hrest)
      have h3 := sum_filter_split p rest
      simp only [List.map_cons, List.sum_cons]
      omega


private theorem readWord?_ok (m : Mem) (off : Nat) (h : off + 8 ≤ m.size) : m.readWord? off = pure (m.readWord off) := by
  unfold Mem.readWord?; rw [if_pos h]

private theorem addU32_ok (site : String) (a b : Nat) (h : a + b < TWO32) : addU32 site a b = pure (a + b) := by
  unfold addU32; rw [if_pos h]

private theorem casLoc_node_hit (s : St) (off w v : Nat) (hb : off + 8 ≤ s.mem.size) (hw : s.mem.readWord off = w) :
    s.casLoc (.node off) w v = pure ({ s with mem := s.mem.writeWord off v }, true) := by
  simp only [St.casLoc, St.readLoc, St.writeLoc, Mem.writeWord?]
  rw [readWord?_ok _ _ hb, hw]
  simp only [pure_bind, if_true, if_pos hb]

private theorem casLoc_hdr_hit (s : St) (w v : Nat) (hw : s.sentinel = w) :
    s.casLoc .hdr w v = pure ({ s with sentinel := v }, true) := by
  simp only [St.casLoc, St.readLoc, St.writeLoc, pure_bind, hw, if_true]

theorem discardLoop_step_unsync (c : Cfg) (hsync : c.sync = false) (s : St) (g : Seg) (nx acc fuel : Nat)
    (hs : s.sentinel = enc MAXU32 g.off) (ho1 : 1 ≤ g.off) (ho2 : g.off < MAXU32)
    (hb : g.off + 8 ≤ s.mem.size) (hw : s.mem.readWord g.off = enc g.size nx) (hnx : nx < TWO32)
    (hadd : acc + g.size < TWO32) :
    discardLoop c (fuel + 1) acc s =
      discardLoop c fuel (acc + g.size) (St.incDiscarded c { s with sentinel := enc MAXU32 nx } g.size) := by
  have hgl : g.off < TWO32 := by unfold MAXU32 TWO32 at *; omega
  have h1 : wnext (enc MAXU32 g.off) = g.off := wnext_enc _ _ hgl
  have h2 : wsize (enc MAXU32 g.off) = MAXU32 := wsize_enc _ _ hgl
  have h3 : wsize (enc g.size nx) = g.size := wsize_enc _ _ hnx
  have h4 : wnext (enc g.size nx) = nx := wnext_enc _ _ hnx
  have hne : g.off ≠ MAXU32 := by omega
  rw [discardLoop]
  simp only [hs, h1, h2, hsync, Bool.false_eq_true, false_and, if_false]
  rw [if_neg (by intro h; exact hne h.2), readWord?_ok _ _ hb, hw]
  simp only [pure_bind, h3, h4]
  rw [addU32_ok _ _ _ hadd]
  simp only [pure_bind]

theorem discardLoop_step_sync (c : Cfg) (hsync : c.sync = true) (s : St) (g : Seg) (nx acc fuel : Nat)
    (hs : s.sentinel = enc MAXU32 g.off) (ho1 : 1 ≤ g.off) (ho2 : g.off < MAXU32)
    (hb : g.off + 8 ≤ s.mem.size) (hw : s.mem.readWord g.off = enc g.size nx) (hnx : nx < TWO32)
    (hsz : 1 ≤ g.size) (hadd : acc + g.size < TWO32) :
    discardLoop c (fuel + 1) acc s =
      discardLoop c fuel (acc + g.size)
        (St.incDiscarded c { s with mem := s.mem.writeWord g.off (enc 0 nx), sentinel := enc MAXU32 nx } g.size) := by
  have hgl : g.off < TWO32 := by unfold MAXU32 TWO32 at *; omega
  have h1 : wnext (enc MAXU32 g.off) = g.off := wnext_enc _ _ hgl
  have h2 : wsize (enc MAXU32 g.off) = MAXU32 := wsize_enc _ _ hgl
  have h3 : wsize (enc g.size nx) = g.size := wsize_enc _ _ hnx
  have h4 : wnext (enc g.size nx) = nx := wnext_enc _ _ hnx
  have hne : g.off ≠ MAXU32 := by omega
  have hne0 : g.off ≠ 0 := by omega
  have hgs : g.size ≠ 0 := by omega
  rw [discardLoop]
  simp only [hs, h1, h2, hsync, true_and, if_true]
  rw [if_neg hne, if_neg hne0, readWord?_ok _ _ hb, hw]
  simp only [pure_bind, h3, h4]
  rw [if_neg hgs, casLoc_node_hit s g.off _ _ hb hw]
  simp only [pure_bind, Bool.not_true, Bool.false_eq_true, if_false]
  rw [casLoc_hdr_hit { s with mem := s.mem.writeWord g.off (enc 0 nx) } _ _ hs]
  simp only [pure_bind, if_true]
  rw [addU32_ok _ _ _ hadd]
  simp only [pure_bind]

theorem discardLoop_nil (c : Cfg) (s : St) (acc fuel : Nat) (hs : s.sentinel = enc MAXU32 MAXU32) :
    discardLoop c (fuel + 1) acc s = pure (acc, s) := by
  have h1 : wnext (enc MAXU32 MAXU32) = MAXU32 := wnext_enc _ _ maxu32_lt
  have h2 : wsize (enc MAXU32 MAXU32) = MAXU32 := wsize_enc _ _ maxu32_lt
  rw [discardLoop]
  simp only [hs, h1, h2, and_self, if_true]

@[simp] private theorem St.incDiscarded_mem (c : Cfg) (s : St) (n : Nat) : (s.incDiscarded c n).mem = s.mem := by
  unfold St.incDiscarded; split <;> rfl
@[simp] private theorem St.incDiscarded_sentinel (c : Cfg) (s : St) (n : Nat) : (s.incDiscarded c n).sentinel = s.sentinel := by
  unfold St.incDiscarded; split <;> rfl
@[simp] private theorem St.incDiscarded_allocated (c : Cfg) (s : St) (n : Nat) : (s.incDiscarded c n).allocated = s.allocated := by
  unfold St.incDiscarded; split <;> rfl
@[simp] private theorem St.incDiscarded_minSeg (c : Cfg) (s : St) (n : Nat) : (s.incDiscarded c n).minSeg = s.minSeg := by
  unfold St.incDiscarded; split <;> rfl
private theorem St.incDiscarded_discarded (c : Cfg) (s : St) (n : Nat) :
    (s.incDiscarded c n).discarded = if c.ro then s.discarded else (s.discarded + n) % TWO32 := by
  unfold St.incDiscarded; split <;> rfl

theorem discardLoop_spec (c : Cfg) (l : List Seg) : ∀ (fuel acc : Nat) (s : St),
    Chain s.mem l → s.sentinel = enc MAXU32 (hd l) →
    (∀ g ∈ l, 1 ≤ g.off ∧ g.off < MAXU32 ∧ 1 ≤ g.size) →
    NodesApart l → acc + (l.map (·.size)).sum < TWO32 → l.length + 1 ≤ fuel →
    ∃ s', discardLoop c fuel acc s = .ok (acc + (l.map (·.size)).sum, s') ∧
      s'.sentinel = enc MAXU32 MAXU32 ∧ s'.allocated = s.allocated ∧ s'.minSeg = s.minSeg ∧
      s'.discarded = l.foldl (fun d g => if c.ro then d else (d + g.size) % TWO32) s.discarded ∧
      s'.mem.size = s.mem.size ∧
      (∀ i, (∀ g ∈ l, i < g.off ∨ g.off + 8 ≤ i) → s'.mem.rd i = s.mem.rd i) := by
  induction l with
  | nil =>
    intro fuel acc s _ hs _ _ _ hf
    cases fuel with
    | zero => simp at hf
    | succ fuel =>
      exact ⟨s, discardLoop_nil c s acc fuel hs, hs, rfl, rfl, rfl, rfl, fun _ _ => rfl⟩
  | cons g rest ih =>
    intro fuel acc s hc hs hg hap hsum hf
    cases fuel with
    | zero => simp at hf
    | succ fuel =>
      obtain ⟨hg1, hg2, hg3⟩ := hg g List.mem_cons_self
      have hrest : ∀ x ∈ rest, 1 ≤ x.off ∧ x.off < MAXU32 ∧ 1 ≤ x.size :=
        fun x hx => hg x (List.mem_cons_of_mem _ hx)
      have hnext : hd rest < TWO32 := hd_lt rest (fun x hx => (hrest x hx).2.1)
      have hb := hc.1
      have hw := hc.2.1
      simp only [hd] at hs
      simp only [List.map_cons, List.sum_cons, List.foldl_cons] at hsum ⊢
      have hadd : acc + g.size < TWO32 := by omega
      have hap' : NodesApart rest := (List.pairwise_cons.1 hap).2
      have hlen : rest.length + 1 ≤ fuel := by simp at hf; omega
      by_cases hsync : c.sync = true
      · rw [discardLoop_step_sync c hsync s g (hd rest) acc fuel hs hg1 hg2 hb hw hnext hg3 hadd]
        obtain ⟨s', e1, e2, e3, e4, e5, e6, e7⟩ := ih fuel (acc + g.size)
          (St.incDiscarded c { s with mem := s.mem.writeWord g.off (enc 0 (hd rest)), sentinel := enc MAXU32 (hd rest) } g.size)
          (by simp only [St.incDiscarded_mem]; exact Chain.writeWord rest _ _ hap.misses hc.2.2)
          (by simp) hrest hap' (by omega) hlen
        refine ⟨s', ?_, e2, ?_, ?_, ?_, ?_, ?_⟩
        · rw [e1, Nat.add_assoc]
        · simpa using e3
        · simpa using e4
        · rw [e5, St.incDiscarded_discarded]
        · simpa using e6
        · intro i hi
          rw [e7 i (fun x hx => hi x (List.mem_cons_of_mem _ hx))]
          simp only [St.incDiscarded_mem]
          unfold Mem.writeWord Mem.writeLE
          exact Mem.rd_update_out _ _ _ _ _ (by have := hi g List.mem_cons_self; omega)
      · have hsync : c.sync = false := by simpa using hsync
        rw [discardLoop_step_unsync c hsync s g (hd rest) acc fuel hs hg1 hg2 hb hw hnext hadd]
        obtain ⟨s', e1, e2, e3, e4, e5, e6, e7⟩ := ih fuel (acc + g.size)
          (St.incDiscarded c { s with sentinel := enc MAXU32 (hd rest) } g.size)
          (by simp only [St.incDiscarded_mem]; exact hc.2.2)
          (by simp) hrest hap' (by omega) hlen
        refine ⟨s', ?_, e2, ?_, ?_, ?_, ?_, ?_⟩
        · rw [e1, Nat.add_assoc]
        · simpa using e3
        · simpa using e4
        · rw [e5, St.incDiscarded_discarded]
        · simpa using e6
        · intro i hi
          rw [e7 i (fun x hx => hi x (List.mem_cons_of_mem _ hx))]
          simp only [St.incDiscarded_mem]


theorem nodesApart_of_wf {c : Cfg} {a : A} {lives : List Ext} (hw : WF c a lives) : NodesApart a.free := by
  have hd := hw.disjoint
  rw [List.pairwise_append] at hd
  have h1 := hd.1
  rw [List.pairwise_map] at h1
  refine List.Pairwise.imp ?_ h1
  intro x y hxy
  unfold disj at hxy
  simp only [Seg.ext, Seg.lo, Seg.hi, NODE] at hxy
  omega

theorem sum_sizes_le_allocated {c : Cfg} {a : A} {lives : List Ext} (hw : WF c a lives) :
    (a.free.map (·.size)).sum ≤ a.allocated := by
  have hd := hw.disjoint
  rw [List.pairwise_append] at hd
  have h1 := hd.1
  rw [List.pairwise_map] at h1
  have := sum_sizes_le a.free.length a.free (Nat.le_refl _) 0 a.allocated (Nat.zero_le _)
    (by
      intro g hg
      have := (hw.segs g hg).2.2.2
      simp only [Seg.hi, NODE] at this
      omega) h1
  omega

/-- `discard_freelist` returns the abstract answer, empties the list, only writes node words of free segments -/
theorem discardFreelist_refines (c : Cfg) (s : St) (free : List Seg) (lives : List Ext) (fuel : Nat)
    (h : CInv c s free lives) (hfuel : free.length + 2 ≤ fuel) :
    let r := (s.abs free).discardFreelist c
    ∃ s', discardFreelist c s fuel = .ok (r.1, s') ∧ StepOK c s s' r.2 lives ∧ CInv c s' r.2.free lives := by
  intro r
  have hw := h.wf
  have hwf' : WF c r.2 lives := discardFreelist_wf c (s.abs free) lives hw
  have hsame : StepOK c s s (s.abs free) lives := ⟨rfl, rfl, fun _ _ _ _ _ => rfl, fun _ _ => rfl⟩
  by_cases hro : c.ro = true
  · have hr : r = (.error .readOnly, s.abs free) := by
      show (s.abs free).discardFreelist c = _
      unfold A.discardFreelist; rw [if_pos hro]
    rw [hr]
    exact ⟨s, by unfold discardFreelist; rw [if_pos hro]; rfl, hsame, h⟩
  · by_cases hk : c.kind = .none
    · have hr : r = (.ok 0, s.abs free) := by
        show (s.abs free).discardFreelist c = _
        unfold A.discardFreelist; rw [if_neg hro, hk]
      rw [hr]
      exact ⟨s, by unfold discardFreelist; rw [if_neg hro, hk]; rfl, hsame, h⟩
    · have hr : r = (.ok (free.map (·.size)).sum, { s.abs free with free := [], discarded :=
          (free.foldl (fun d g => if c.ro then d else (d + g.size) % TWO32) s.discarded) }) := by
        show (s.abs free).discardFreelist c = _
        unfold A.discardFreelist; rw [if_neg hro]
        split
        · rename_i hk'; exact absurd hk' hk
        · rfl
      have hsum := sum_sizes_le_allocated hw
      have hcap := h.capGuard
      have hhi : s.allocated ≤ s.cap := hw.hi
      have hsegs : ∀ g ∈ free, 1 ≤ g.off ∧ g.off < MAXU32 ∧ 1 ≤ g.size := by
        intro g hg
        obtain ⟨_, h2, h3, h4⟩ := hw.segs g hg
        have := hw.lo
        simp only [Seg.hi, NODE, St.abs] at h4
        unfold MAXU32; unfold TWO32 at hcap
        exact ⟨by omega, by omega, h2⟩
      obtain ⟨s', e1, e2, e3, e4, e5, e6, e7⟩ := discardLoop_spec c free fuel 0 s h.chain h.sent hsegs
        (nodesApart_of_wf hw) (by simp only [St.abs] at hsum; unfold TWO32 at *; omega) (by omega)
      have habs : s'.abs [] = r.2 := by
        rw [hr]
        simp only [St.abs, St.cap, e3, e4, e5, e6]
      have hfree : r.2.free = [] := by rw [hr]
      have hci : CInv c s' [] lives := by
        refine ⟨?_, trivial, e2, ?_, ?_, h.retriesOK⟩
        · rw [habs]; exact hwf'
        · show s'.mem.size + 8192 ≤ TWO32
          rw [e6]; exact hcap
        · rw [e4]; exact h.minSegLt
      refine ⟨s', ?_, ⟨?_, e6, ?_, ?_⟩, ?_⟩
      · unfold discardFreelist
        rw [if_neg hro]
        split
        · rename_i hk'; exact absurd hk' hk
        · rw [e1, hr]; simp only [Nat.zero_add]; rfl
      · rw [hfree]; exact habs
      · intro e he i hi1 hi2
        apply e7
        intro g hg
        have := misses_of_live hw e he i (i + 1) hi1 (by omega) g hg
        omega
      · intro i hi
        apply e7
        intro g hg
        have := (hw.segs g hg).2.2.1
        omega
      · rw [hfree]; exact hci

end Rarena
