/-
  Proofs.Sim — whole histories: the concrete model (`Core`, either flavour) driven by any history of calls
  simulates the abstract history step by step: it never traps or diverges, returns the same handles, and
  keeps the concrete invariant. (all statements proved; `Rel` carries one extra field, see the CHANGED note)
-/
import RarenaVerif.Proofs.RefineAlloc
import RarenaVerif.Proofs.RefineMisc
import RarenaVerif.Proofs.SpecPolicy

namespace Rarena

/-- concrete history operations: the abstract ones (allocations, release, detach, the mutators, `clear`,
    `truncate`) plus a client write of byte `b` over the whole accessible range of the `i`-th held handle -/
inductive COp where
  | op (o : HOp)
  | fill (i : Nat) (b : UInt8)

/-- concrete session -/
structure CSess where
  st : St
  held : List Meta
  detached : List Ext

def pushAlloc (x : CSess) : AllocOut × St → CSess
  | (.ok (some m), st) => { x with st := st, held := x.held ++ [m] }
  | (_, st) => { x with st := st }

/-- one concrete step (`fuel` bounds every list traversal) -/
def cstep (c : Cfg) (fuel : Nat) (x : CSess) : COp → M CSess
  | .op (.allocBytes n) => do let r ← allocBytes c x.st n fuel; pure (pushAlloc x r)
  | .op (.allocAligned ts ta ex) => do let r ← allocAligned c x.st ts ta ex fuel; pure (pushAlloc x r)
  | .op (.allocT ts ta) => do let r ← allocT c x.st ts ta fuel; pure (pushAlloc x r)
  | .op (.release i) =>
    match x.held[i]? with
    | none => pure x
    | some m => do
      let (_, st) ← dealloc c x.st m.memOff m.memSize fuel
      pure { x with st := st, held := x.held.eraseIdx i }
  | .op (.detach i) =>
    match x.held[i]? with
    | none => pure x
    | some m => pure { x with held := x.held.eraseIdx i,
                              detached := if m.memSize != 0 then m.owned :: x.detached else x.detached }
  | .op (.setMinSeg n) => pure { x with st := setMinSeg c x.st n }
  | .op (.incDiscarded n) => pure { x with st := x.st.incDiscarded c n }
  | .op .discardFreelist => do let (_, st) ← discardFreelist c x.st fuel; pure { x with st := st }
  | .op .clear =>
    match clear c x.st with
    | .ok st => pure { st := st, held := [], detached := [] }
    | .error _ => pure x
  | .op (.truncate n) =>
    match truncate c x.st n with
    | .ok st => pure { x with st := st }
    | .error _ => pure x
  | .fill i b =>
    match x.held[i]? with
    | none => pure x
    | some m => pure { x with st := { x.st with mem := x.st.mem.fill m.ptrOff m.ptrSize b } }

def crun (c : Cfg) (fuel : Nat) : CSess → List COp → M CSess
  | x, [] => pure x
  | x, op :: ops => do let x' ← cstep c fuel x op; crun c fuel x' ops

/-- the abstract counterpart of a concrete operation (client writes are invisible abstractly) -/
def COp.abs : COp → Option HOp
  | .op o => some o
  | .fill _ _ => none

/-- arguments are values of the API's types; `truncate n` keeps the capacity guard of `CInv`
    (`cap + 8192 ≤ 2^32`: the new capacity is `max n allocated` and `allocated ≤ cap` already satisfies it) -/
def COp.ok : COp → Prop
  | .op (.allocBytes n) => n < TWO32
  | .op (.allocAligned ts ta ex) => TyOK ts ta ∧ ex < TWO32
  | .op (.allocT ts ta) => TyOK ts ta
  | .op (.setMinSeg n) => n < TWO32
  | .op (.incDiscarded n) => n < TWO32
  | .op (.truncate n) => n + 8192 ≤ TWO32
  | _ => True

/-- is the operation a `truncate` (the only call that changes the capacity) -/
def COp.isTruncate : COp → Bool
  | .op (.truncate _) => true
  | _ => false

/-- the operation exists for this flavour, and the traversal fuel of the model covers the capacity it asks for:
    `truncate` is a method of `unsync::Arena` only, and after `truncate n` the free list can have up to
    `max n allocated / 9` nodes -/
def COp.fits (c : Cfg) (fuel : Nat) : COp → Prop
  | .op (.truncate n) => c.sync = false ∧ n + 2 ≤ fuel
  | _ => True

-- CHANGED: added the field `nonnull` (every held handle has `memSize ≠ 0`). Without it `sim_step`/`sim_run` are
-- false: `HInv.held_null` allows a held handle `⟨2^32, 0, 0, 0⟩` (memSize = 0, ptrSize = 0, arbitrary memOff), and
-- `release` of it makes `dealloc` trap in its unchecked `offset + size`. Sessions only ever hold handles pushed by
-- successful allocations, which have `memSize ≠ 0` (`AllocPost.nonempty`); `sim_init` establishes the field and
-- `sim_step` preserves it, so the statements of the four theorems below are textually unchanged.
/-- simulation relation between a concrete session and an abstract history state -/
structure Rel (c : Cfg) (x : CSess) (h : HState) (free : List Seg) : Prop where
  held : x.held = h.held
  detached : x.detached = h.detached
  abs : x.st.abs free = h.a
  cinv : CInv c x.st free h.lives
  hinv : HInv c h
  nonnull : ∀ m ∈ x.held, m.memSize ≠ 0


theorem sim_filter_len {α : Type} (p : α → Bool) (l : List α) :
    (l.filter p).length + (l.filter (fun e => ! p e)).length = l.length := by
  induction l with
  | nil => rfl
  | cons x xs ih =>
    simp only [List.filter_cons]
    cases p x <;> simp <;> omega

theorem sim_ext_count (n : Nat) : ∀ (l : List Ext), l.length = n → l.Pairwise disj → ∀ lo B : Nat,
    lo ≤ B → (∀ e ∈ l, lo ≤ e.1 ∧ e.1 + 9 ≤ e.2 ∧ e.2 ≤ B) → l.length * 9 + lo ≤ B := by
  induction n using Nat.strongRecOn with
  | _ n ih =>
    intro l hl hp lo B hlo hb
    cases l with
    | nil => simpa using hlo
    | cons g rest =>
      rw [List.pairwise_cons] at hp
      obtain ⟨hg, hrest⟩ := hp
      have hgb := hb g (List.mem_cons_self ..)
      have hlen : (rest.filter (fun e => decide (e.2 ≤ g.1))).length +
          (rest.filter (fun e => ! decide (e.2 ≤ g.1))).length = rest.length :=
        sim_filter_len _ rest
      simp only [List.length_cons] at hl
      have h1 := ih _ (by have := List.length_filter_le (fun e : Ext => decide (e.2 ≤ g.1)) rest; omega)
        (rest.filter (fun e => decide (e.2 ≤ g.1))) rfl (hrest.sublist List.filter_sublist) lo g.1 (by omega)
        (by
          intro e he
          simp only [List.mem_filter, decide_eq_true_eq] at he
          have := hb e (List.mem_cons_of_mem _ he.1)
          omega)
      have h2 := ih _ (by have := List.length_filter_le (fun e : Ext => ! decide (e.2 ≤ g.1)) rest; omega)
        (rest.filter (fun e => ! decide (e.2 ≤ g.1))) rfl (hrest.sublist List.filter_sublist) g.2 B (by omega)
        (by
          intro e he
          simp only [List.mem_filter, Bool.not_eq_true', decide_eq_false_iff_not] at he
          have := hb e (List.mem_cons_of_mem _ he.1)
          have hd := hg e he.1
          unfold disj at hd
          omega)
      simp only [List.length_cons]
      omega

/-- a well-formed abstract state has few segments: they are pairwise disjoint, each at least 9 bytes long,
    all below the cursor -/
theorem wf_free_length (c : Cfg) (a : A) (lives : List Ext) (h : WF c a lives) : a.free.length * 9 ≤ a.allocated := by
  have hd := h.disjoint
  rw [List.pairwise_append] at hd
  have := sim_ext_count _ (a.free.map Seg.ext) rfl hd.1 0 a.allocated (by omega) (by
    intro e he
    obtain ⟨g, hg, rfl⟩ := List.mem_map.1 he
    have := h.segs g hg
    unfold SegOK at this
    simp only [Seg.ext, Seg.hi, Seg.lo, NODE] at *
    omega)
  simp only [List.length_map] at this; omega


def HState.stepOpt (c : Cfg) (h : HState) : Option HOp → HState
  | none => h
  | some o => h.step c o

/-! ### helpers for `sim_step` -/

theorem sim_fuel {c : Cfg} {x : CSess} {h : HState} {free : List Seg} {fuel : Nat} (hr : Rel c x h free)
    (hfuel : x.st.cap + 2 ≤ fuel) : free.length + 2 ≤ fuel := by
  have h1 := wf_free_length c _ _ hr.cinv.wf
  have h2 := hr.cinv.wf.hi
  simp only [St.abs] at h1 h2
  omega

/-- a held handle is live and its accessible range lies inside its owned extent, above the prefix -/
theorem sim_held {c : Cfg} {x : CSess} {h : HState} {free : List Seg} (hr : Rel c x h free) {m : Meta}
    (hm : m ∈ x.held) :
    m.memSize ≠ 0 ∧ m.owned ∈ h.lives ∧ m.owned.1 ≤ m.ptrOff ∧ m.ptrOff + m.ptrSize ≤ m.owned.2 ∧
      c.dataOffset ≤ m.ptrOff := by
  have hne := hr.nonnull m hm
  have hm' : m ∈ h.held := hr.held ▸ hm
  have hok := hr.hinv.held_ok m hm' hne
  refine ⟨hne, lives_mem hm' hne, ?_, ?_, hok.2.1⟩
  · simp only [Meta.owned]; omega
  · simp only [Meta.owned]; omega

/-- bytes of the accessible range of a held handle survive a step that keeps the live extents intact -/
theorem sim_held_intact {c : Cfg} {x : CSess} {h : HState} {free : List Seg} (hr : Rel c x h free) {s' : St}
    {lives : List Ext} (hl : LiveIntact x.st s' lives) {m : Meta} (hm : m ∈ x.held) (hml : m.owned ∈ lives) :
    ∀ j, m.ptrOff ≤ j → j < m.ptrOff + m.ptrSize → s'.mem.rd j = x.st.mem.rd j := by
  intro j h1 h2
  obtain ⟨_, _, h3, h4, _⟩ := sim_held hr hm
  exact hl _ hml j (by omega) (by omega)

theorem Rel.build {c : Cfg} {x' : CSess} {h' : HState} {free' : List Seg} {L : List Ext}
    (hheld : x'.held = h'.held) (hdet : x'.detached = h'.detached) (habs : x'.st.abs free' = h'.a)
    (hc : CInv c x'.st free' L) (hi : HInv c h') (hnn : ∀ m ∈ x'.held, m.memSize ≠ 0) : Rel c x' h' free' :=
  ⟨hheld, hdet, habs,
    ⟨by rw [habs]; exact hi.wf, hc.chain, hc.sent, hc.capGuard, hc.minSegLt, hc.retriesOK⟩, hi, hnn⟩

/-- the three allocation entry points, uniformly -/
theorem sim_alloc (c : Cfg) (x : CSess) (h : HState) (free : List Seg) (r : AOut × A) (res : M (AllocOut × St))
    (zero : Bool) (h' : HState)
    (hh : h' = match r with
      | (.ok (some m), a') => { h with a := a', held := h.held ++ [m] }
      | (_, a') => { h with a := a' })
    (hi : HInv c h') (hr : Rel c x h free) (href : AllocRefines c x.st free h.lives r res zero)
    (herr : ∀ e a', r = (.error e, a') → a' = h.a)
    (hnone : ∀ a', r = (.ok none, a') → a' = h.a)
    (hok : ∀ m a', r = (.ok (some m), a') → m.memSize ≠ 0) :
    ∃ x' free', (do let r ← res; pure (pushAlloc x r) : M CSess) = .ok x' ∧ Rel c x' h' free' ∧
      x'.st.mem.size = x.st.mem.size ∧ PrefixIntact c x.st x'.st ∧
      (∀ m ∈ x.held, ∀ j, m.ptrOff ≤ j → j < m.ptrOff + m.ptrSize → x'.st.mem.rd j = x.st.mem.rd j) := by
  obtain ⟨s', e1, st, hm⟩ := href
  rcases r with ⟨(e | (_ | m)), a'⟩
  · simp only at hm e1 st hh ⊢
    subst hm hh
    have ha := herr e a' rfl
    subst ha
    exact ⟨x, free, by rw [e1]; rfl, hr, rfl, fun _ _ => rfl, fun _ _ _ _ _ => rfl⟩
  · simp only at hm e1 st hh ⊢
    subst hm hh
    have ha := hnone a' rfl
    subst ha
    exact ⟨x, free, by rw [e1]; rfl, hr, rfl, fun _ _ => rfl, fun _ _ _ _ _ => rfl⟩
  · simp only at hm e1 st hh ⊢
    subst hh
    have hne := hok m a' rfl
    refine ⟨{ x with st := s', held := x.held ++ [m] }, a'.free, by rw [e1]; rfl, ?_, st.size, st.pre, ?_⟩
    · refine Rel.build (by simp only [hr.held]) hr.detached st.abs hm.1 hi ?_
      intro m' hm'
      rcases List.mem_append.1 hm' with hm' | hm'
      · exact hr.nonnull m' hm'
      · simp only [List.mem_singleton] at hm'; subst hm'; exact hne
    · intro m' hm'
      exact sim_held_intact hr st.live hm' (sim_held hr hm').2.1

theorem sim_pairwise_ne {α : Type} {R : α → α → Prop} (hs : ∀ a b, R a b → R b a) {l : List α}
    (hp : l.Pairwise R) {a b : α} (ha : a ∈ l) (hb : b ∈ l) (hne : a ≠ b) : R a b := by
  induction l with
  | nil => simp at ha
  | cons y ys ih =>
    rw [List.pairwise_cons] at hp
    rcases List.mem_cons.1 ha with h1 | h1 <;> rcases List.mem_cons.1 hb with h2 | h2
    · exact absurd (h1.trans h2.symm) hne
    · rw [h1]; exact hp.1 _ h2
    · rw [h2]; exact hs _ _ (hp.1 _ h1)
    · exact ih hp.2 h1 h2

/-- the live extents after releasing the `i`-th handle -/
theorem sim_lives_erase (h : HState) (i : Nat) (m : Meta) (hm : h.held[i]? = some m) (hz : m.memSize ≠ 0) :
    (h.lives.erase m.owned).Perm
      (((h.held.eraseIdx i).filter (fun m => m.memSize != 0)).map Meta.owned ++ h.detached) := by
  obtain ⟨pre, post, hsplit, herase⟩ := getElem?_split _ _ _ hm
  have hperm : h.lives.Perm (m.owned ::
      (((h.held.eraseIdx i).filter (fun m => m.memSize != 0)).map Meta.owned ++ h.detached)) := by
    unfold HState.lives
    rw [herase, hsplit]
    have : (m.memSize != 0) = true := by simpa using hz
    simp only [List.filter_append, List.map_append, List.filter_cons, this, if_true, List.map_cons,
      List.append_assoc, List.cons_append]
    exact List.perm_middle
  have := hperm.erase m.owned
  rwa [List.erase_cons_head] at this

theorem sim_release (c : Cfg) (x : CSess) (h : HState) (free : List Seg) (i : Nat) (m : Meta) (fuel : Nat)
    (hr : Rel c x h free) (hro : c.ro = false) (hfuel : free.length + 2 ≤ fuel) (hm : x.held[i]? = some m) :
    ∃ x' free', (do let (_, st) ← dealloc c x.st m.memOff m.memSize fuel
                    pure { x with st := st, held := x.held.eraseIdx i } : M CSess) = .ok x' ∧
      Rel c x' { h with a := (h.a.dealloc c m.memOff m.memSize).2, held := h.held.eraseIdx i } free' ∧
      x'.st.mem.size = x.st.mem.size ∧ PrefixIntact c x.st x'.st ∧
      (∀ m' ∈ x.held, m' ∈ x'.held →
        ∀ j, m'.ptrOff ≤ j → j < m'.ptrOff + m'.ptrSize → x'.st.mem.rd j = x.st.mem.rd j) := by
  have hmem : m ∈ x.held := List.mem_of_getElem? hm
  obtain ⟨hne, hml, _⟩ := sim_held hr hmem
  have hm' : h.held[i]? = some m := hr.held ▸ hm
  have hi : HInv c (h.step c (.release i)) := HInv.step c h (.release i) hr.hinv trivial
  simp only [HState.step, hm'] at hi
  obtain ⟨s', e1, st, hc⟩ := dealloc_refines c x.st free h.lives m fuel hr.cinv hro hml hne hfuel
  rw [hr.abs] at e1 st hc
  refine ⟨{ x with st := s', held := x.held.eraseIdx i }, (h.a.dealloc c m.memOff m.memSize).2.free,
    by rw [e1]; rfl, ?_, st.size, st.pre, ?_⟩
  · refine Rel.build (by simp only [hr.held]) hr.detached st.abs hc hi ?_
    intro m' hm''
    exact hr.nonnull m' (List.mem_of_mem_eraseIdx hm'')
  · intro m' hm1 hm2
    have hm2' : m' ∈ h.held.eraseIdx i := hr.held ▸ hm2
    have h1 : m'.owned ∈ (({ h with a := (h.a.dealloc c m.memOff m.memSize).2, held := h.held.eraseIdx i } :
        HState)).lives := lives_mem hm2' (hr.nonnull m' hm1)
    have h2 : m'.owned ∈ h.lives.erase m.owned := (sim_lives_erase h i m hm' hne).mem_iff.2 h1
    exact sim_held_intact hr st.live hm1 h2

theorem sim_fill (c : Cfg) (x : CSess) (h : HState) (free : List Seg) (i : Nat) (m : Meta) (b : UInt8)
    (hr : Rel c x h free) (hm : x.held[i]? = some m) :
    Rel c { x with st := { x.st with mem := x.st.mem.fill m.ptrOff m.ptrSize b } } h free ∧
      PrefixIntact c x.st { x.st with mem := x.st.mem.fill m.ptrOff m.ptrSize b } ∧
      (∀ m' ∈ x.held, x.held[i]? ≠ some m' → ∀ j, m'.ptrOff ≤ j → j < m'.ptrOff + m'.ptrSize →
        (x.st.mem.fill m.ptrOff m.ptrSize b).rd j = x.st.mem.rd j) := by
  have hmem : m ∈ x.held := List.mem_of_getElem? hm
  obtain ⟨hne, hml, h1, h2, h3⟩ := sim_held hr hmem
  refine ⟨?_, ?_, ?_⟩
  · have hc := fill_cinv c x.st free h.lives m.owned m.ptrOff m.ptrSize b hr.cinv hml h1 h2
    exact Rel.build hr.held hr.detached (by rw [← hr.abs]; simp [St.abs, St.cap]) hc hr.hinv hr.nonnull
  · intro j hj
    show (x.st.mem.fill m.ptrOff m.ptrSize b).rd j = x.st.mem.rd j
    rw [Mem.rd_fill]; split <;> first | rfl | omega
  · intro m' hm' hne' j hj1 hj2
    have hmm : m ≠ m' := fun e => hne' (e ▸ hm)
    have hex := (held_exclusive c h hr.hinv).1
    rw [List.pairwise_map] at hex
    have hin : ∀ y ∈ x.held, y ∈ h.held.filter (fun m => m.memSize != 0) := by
      intro y hy
      simp only [List.mem_filter, bne_iff_ne, ne_eq]
      exact ⟨hr.held ▸ hy, hr.nonnull y hy⟩
    have hd : disj m.access m'.access :=
      sim_pairwise_ne (R := fun a b : Meta => disj a.access b.access) (fun _ _ hab => disj_symm hab) hex
        (hin m hmem) (hin m' hm') hmm
    unfold disj at hd
    simp only [Meta.access] at hd
    rw [Mem.rd_fill]; split <;> first | rfl | omega

/-- one step: no trap, no divergence, same handles, invariant kept; bytes of every live extent other than the
    one the operation releases or writes through are unchanged; the capacity changes only by `truncate` -/
theorem sim_step (c : Cfg) (x : CSess) (h : HState) (free : List Seg) (op : COp) (fuel : Nat)
    (hr : Rel c x h free) (hro : c.ro = false) (hop : op.ok) (hfuel : x.st.cap + 2 ≤ fuel) :
    ∃ x' free', cstep c fuel x op = .ok x' ∧ Rel c x' (h.stepOpt c op.abs) free' ∧
      x'.st.mem.size = (match (generalizing := false) op with | .op (.truncate n) => max n x.st.allocated | _ => x.st.mem.size) ∧
      PrefixIntact c x.st x'.st ∧
      (∀ m ∈ x.held, m ∈ x'.held → (match op with | .fill i _ => x.held[i]? ≠ some m | _ => True) →
        ∀ j, m.ptrOff ≤ j → j < m.ptrOff + m.ptrSize → x'.st.mem.rd j = x.st.mem.rd j) := by
  have hf := sim_fuel hr hfuel
  cases op with
  | fill i b =>
    simp only [cstep, COp.abs, HState.stepOpt]
    rcases hm : x.held[i]? with _ | m
    · exact ⟨x, free, rfl, hr, rfl, fun _ _ => rfl, fun _ _ _ _ _ _ _ => rfl⟩
    · obtain ⟨h1, h2, h3⟩ := sim_fill c x h free i m b hr hm
      refine ⟨_, free, rfl, h1, Mem.size_fill _ _ _ _, h2, ?_⟩
      intro m' hm1 _ hne
      exact h3 m' hm1 (hm ▸ hne)
  | op o =>
    cases o with
    | allocBytes n =>
      have href := allocBytes_refines c x.st free h.lives n fuel hr.cinv hop hf
      rw [hr.abs] at href
      have hi := HInv.step c h (.allocBytes n) hr.hinv trivial
      obtain ⟨x', free', e, hrel, hsz, hpre, hby⟩ := sim_alloc c x h free _ _ _ _ rfl hi hr href
        (fun e a' hh => allocBytes_err _ _ _ _ _ hh) (fun a' hh => (allocBytes_none _ _ _ _ hh).1)
        (fun m a' hh => (allocBytes_ok _ _ _ _ _ _ hr.hinv.wf hh).1.nonempty)
      exact ⟨x', free', e, hrel, hsz, hpre, fun m hm _ _ => hby m hm⟩
    | allocAligned ts ta ex =>
      have hop' : HOp.ok (.allocAligned ts ta ex) := ⟨hop.1.1, hop.1.2.1⟩
      have href := allocAligned_refines c x.st free h.lives ts ta ex fuel hr.cinv hop.1 hop.2 hf
      rw [hr.abs] at href
      have hi := HInv.step c h (.allocAligned ts ta ex) hr.hinv hop'
      obtain ⟨x', free', e, hrel, hsz, hpre, hby⟩ := sim_alloc c x h free _ _ _ _ rfl hi hr href
        (fun e a' hh => allocAligned_err _ _ _ _ _ _ _ hh) (fun a' hh => (allocAligned_none _ _ _ _ _ _ hh).1)
        (fun m a' hh => (allocAligned_ok _ _ _ _ _ _ _ _ hr.hinv.wf hop' hh).1.nonempty)
      exact ⟨x', free', e, hrel, hsz, hpre, fun m hm _ _ => hby m hm⟩
    | allocT ts ta =>
      have hop' : HOp.ok (.allocT ts ta) := ⟨hop.1, hop.2.1⟩
      have href := allocT_refines c x.st free h.lives ts ta fuel hr.cinv hop hf
      rw [hr.abs] at href
      have hi := HInv.step c h (.allocT ts ta) hr.hinv hop'
      obtain ⟨x', free', e, hrel, hsz, hpre, hby⟩ := sim_alloc c x h free _ _ _ _ rfl hi hr href
        (fun e a' hh => allocT_err _ _ _ _ _ _ hh) (fun a' hh => (allocT_none _ _ _ _ _ hh).1)
        (fun m a' hh => (allocT_ok _ _ _ _ _ _ _ hr.hinv.wf hop' hh).1.nonempty)
      exact ⟨x', free', e, hrel, hsz, hpre, fun m hm _ _ => hby m hm⟩
    | release i =>
      simp only [cstep, COp.abs, HState.stepOpt, HState.step]
      rcases hm : x.held[i]? with _ | m
      · have hm' : h.held[i]? = none := hr.held ▸ hm
        simp only [hm']
        exact ⟨x, free, rfl, hr, rfl, fun _ _ => rfl, fun _ _ _ _ _ _ _ => rfl⟩
      · have hm' : h.held[i]? = some m := hr.held ▸ hm
        simp only [hm']
        obtain ⟨x', free', e, hrel, hsz, hpre, hby⟩ := sim_release c x h free i m fuel hr hro hf hm
        exact ⟨x', free', e, hrel, hsz, hpre, fun m' h1 h2 _ => hby m' h1 h2⟩
    | detach i =>
      have hi := HInv.step c h (.detach i) hr.hinv trivial
      simp only [cstep, COp.abs, HState.stepOpt, HState.step] at hi ⊢
      rcases hm : x.held[i]? with _ | m
      · have hm' : h.held[i]? = none := hr.held ▸ hm
        simp only [hm']
        exact ⟨x, free, rfl, hr, rfl, fun _ _ => rfl, fun _ _ _ _ _ _ _ => rfl⟩
      · have hm' : h.held[i]? = some m := hr.held ▸ hm
        simp only [hm'] at hi ⊢
        refine ⟨_, free, rfl, ?_, rfl, fun _ _ => rfl, fun _ _ _ _ _ _ _ => rfl⟩
        refine Rel.build (by simp only [hr.held]) (by simp only [hr.detached]) hr.abs hr.cinv hi ?_
        intro m' hm''
        exact hr.nonnull m' (List.mem_of_mem_eraseIdx hm'')
    | setMinSeg n =>
      have hi := HInv.step c h (.setMinSeg n) hr.hinv trivial
      simp only [cstep, COp.abs, HState.stepOpt, HState.step, hro, Bool.false_eq_true, if_false] at hi ⊢
      have hc := setMinSeg_cinv c x.st free h.lives n hr.cinv hop
      have hs : setMinSeg c x.st n = { x.st with minSeg := n } := by simp [setMinSeg, hro]
      rw [hs] at hc
      refine ⟨_, free, rfl, ?_, by rw [hs], fun _ _ => by rw [hs], fun _ _ _ _ _ _ _ => by rw [hs]⟩
      rw [hs]
      exact Rel.build hr.held hr.detached (by rw [← hr.abs]; rfl) hc hi hr.nonnull
    | incDiscarded n =>
      have hi := HInv.step c h (.incDiscarded n) hr.hinv trivial
      simp only [cstep, COp.abs, HState.stepOpt, HState.step] at hi ⊢
      obtain ⟨hc, ha⟩ := incDiscarded_cinv c x.st free h.lives n hr.cinv
      have hmem : (x.st.incDiscarded c n).mem = x.st.mem := dl_incDiscarded_mem c x.st n
      refine ⟨_, free, rfl, ?_, by show (x.st.incDiscarded c n).mem.size = _; rw [hmem],
        fun _ _ => by show (x.st.incDiscarded c n).mem.rd _ = _; rw [hmem],
        fun _ _ _ _ _ _ _ => by show (x.st.incDiscarded c n).mem.rd _ = _; rw [hmem]⟩
      exact Rel.build hr.held hr.detached (by rw [← hr.abs]; exact ha) hc hi hr.nonnull
    | discardFreelist =>
      have hi := HInv.step c h .discardFreelist hr.hinv trivial
      simp only [cstep, COp.abs, HState.stepOpt, HState.step] at hi ⊢
      obtain ⟨s', e1, st, hc⟩ := discardFreelist_refines c x.st free h.lives fuel hr.cinv hf
      rw [hr.abs] at e1 st hc
      refine ⟨{ x with st := s' }, (h.a.discardFreelist c).2.free, by rw [e1]; rfl, ?_, st.size, st.pre, ?_⟩
      · exact Rel.build hr.held hr.detached st.abs hc hi hr.nonnull
      · intro m hm _ _
        exact sim_held_intact hr st.live hm (sim_held hr hm).2.1
    | clear =>
      have hi := HInv.step c h .clear hr.hinv trivial
      simp only [cstep, COp.abs, HState.stepOpt, HState.step, hro, Bool.false_eq_true, if_false] at hi ⊢
      obtain ⟨s', e1, hc, habs, hpre, hsz, _⟩ := clear_refines c x.st free h.lives hr.cinv hro
      rw [e1]
      refine ⟨{ st := s', held := [], detached := [] }, [], rfl, ?_, hsz, hpre, ?_⟩
      · exact Rel.build rfl rfl (by rw [habs, ← hr.abs]; rfl) hc hi (fun m hm => by simp at hm)
      · intro m _ hm
        simp at hm
    | truncate n =>
      have hi := HInv.step c h (.truncate n) hr.hinv trivial
      simp only [cstep, COp.abs, HState.stepOpt, HState.step, hro, Bool.false_eq_true, if_false] at hi ⊢
      have hal : h.a.allocated = x.st.allocated := by rw [← hr.abs]; rfl
      have hn : max n x.st.allocated + 8192 ≤ TWO32 := by
        have h1 := hr.cinv.capGuard
        have h2 : x.st.allocated ≤ x.st.cap := hr.cinv.wf.hi
        have h3 : n + 8192 ≤ TWO32 := hop
        omega
      obtain ⟨s', e1, hcap, habs, hc, hb⟩ := truncate_refines c x.st free h.lives n hr.cinv hro hn
      rw [e1]
      refine ⟨{ x with st := s' }, free, rfl, ?_, hcap, ?_, ?_⟩
      · exact Rel.build hr.held hr.detached (by rw [habs, hr.abs]; simp only [hal]) hc hi hr.nonnull
      · intro i hi'
        have h2 : c.dataOffset ≤ x.st.allocated := hr.cinv.wf.mid
        exact hb i (by omega)
      · intro m hm _ _ j hj1 hj2
        obtain ⟨hne, _⟩ := sim_held hr hm
        have := (hr.hinv.held_ok m (hr.held ▸ hm) hne).2.2
        exact hb j (by omega)

/-- the capacity after a step stays covered by the fuel, and is unchanged unless the step is a `truncate` -/
theorem sim_size_cases {c : Cfg} {fuel : Nat} {x x' : CSess} {op : COp}
    (hsz : x'.st.mem.size = (match (generalizing := false) op with | .op (.truncate n) => max n x.st.allocated | _ => x.st.mem.size))
    (hfit : op.fits c fuel) (hal : x.st.allocated ≤ x.st.cap) (hfuel : x.st.cap + 2 ≤ fuel) :
    x'.st.cap + 2 ≤ fuel ∧ (op.isTruncate = false → x'.st.mem.size = x.st.mem.size) := by
  unfold St.cap at *
  cases op with
  | fill i b => exact ⟨by simp only at hsz; omega, fun _ => hsz⟩
  | op o =>
    cases o
    case truncate n =>
      simp only [COp.fits] at hfit
      simp only at hsz
      exact ⟨by omega, fun hh => by simp [COp.isTruncate] at hh⟩
    all_goals exact ⟨by simp only at hsz; omega, fun _ => hsz⟩

theorem sim_run_cons (c : Cfg) (h : HState) (op : COp) (ops : List COp) :
    h.run c ((op :: ops).filterMap COp.abs) = (h.stepOpt c op.abs).run c (ops.filterMap COp.abs) := by
  cases op <;> simp [List.filterMap_cons, COp.abs, HState.stepOpt, HState.run]

/-- every history: the concrete run succeeds and is related to the abstract run; the capacity stays covered by
    the fuel, and is the initial one when the history contains no `truncate` -/
theorem sim_run (c : Cfg) (x : CSess) (h : HState) (free : List Seg) (ops : List COp) (fuel : Nat)
    (hr : Rel c x h free) (hro : c.ro = false) (hops : ∀ op ∈ ops, op.ok) (hfits : ∀ op ∈ ops, op.fits c fuel)
    (hfuel : x.st.cap + 2 ≤ fuel) :
    ∃ x' free', crun c fuel x ops = .ok x' ∧ Rel c x' (h.run c (ops.filterMap COp.abs)) free' ∧
      (x'.st.cap + 2 ≤ fuel ∧ ((∀ op ∈ ops, op.isTruncate = false) → x'.st.mem.size = x.st.mem.size)) ∧
      PrefixIntact c x.st x'.st := by
  induction ops generalizing x h free with
  | nil => exact ⟨x, free, rfl, hr, ⟨hfuel, fun _ => rfl⟩, fun _ _ => rfl⟩
  | cons op ops ih =>
    obtain ⟨x1, free1, e1, hr1, hsz1, hpre1, _⟩ :=
      sim_step c x h free op fuel hr hro (hops op (List.mem_cons_self ..)) hfuel
    obtain ⟨hf1, hs1⟩ := sim_size_cases hsz1 (hfits op (List.mem_cons_self ..)) hr.cinv.wf.hi hfuel
    obtain ⟨x2, free2, e2, hr2, ⟨hf2, hs2⟩, hpre2⟩ := ih x1 (h.stepOpt c op.abs) free1 hr1
      (fun o ho => hops o (List.mem_cons_of_mem _ ho)) (fun o ho => hfits o (List.mem_cons_of_mem _ ho)) hf1
    refine ⟨x2, free2, ?_, ?_, ⟨hf2, fun hnt => ?_⟩, fun i hi => (hpre2 i hi).trans (hpre1 i hi)⟩
    · simp only [crun, e1, bind, Except.bind]
      exact e2
    · rw [sim_run_cons]; exact hr2
    · exact (hs2 (fun o ho => hnt o (List.mem_cons_of_mem _ ho))).trans (hs1 (hnt op (List.mem_cons_self ..)))

/-- a freshly constructed arena is related to the initial abstract history state -/
theorem sim_init (o : Opts) (s : St) (h : o.init = some s) (hcap : o.cap + 8192 ≤ TWO32)
    (hms : o.minSeg < TWO32) (hr : o.retries ≤ 255) :
    Rel o.cfg { st := s, held := [], detached := [] } (HState.init o.cap o.dataOffset o.minSeg) [] := by
  obtain ⟨hc, habs, _, _⟩ := init_cinv o s h hcap hms hr
  have h1 : 1 ≤ o.cfg.dataOffset := hc.wf.lo
  have h2 : o.cfg.dataOffset ≤ o.cap := by
    have a := hc.wf.mid
    have b := hc.wf.hi
    rw [habs] at a b
    simp only [A.fresh] at a b
    omega
  have hi : HInv o.cfg (HState.init o.cap o.dataOffset o.minSeg) := HInv.init o.cfg o.cap o.minSeg h1 h2
  exact Rel.build rfl rfl habs hc hi (fun m hm => by simp at hm)

end Rarena
