/-
  Proofs.Sim — whole histories: the concrete model (`Core`, either flavour) driven by any history of calls
  simulates the abstract history step by step: it never traps or diverges, returns the same handles, and
  keeps the concrete invariant. (statement file: every `sorry` below is a proof obligation)
-/
import RarenaVerif.Proofs.RefineAlloc
import RarenaVerif.Proofs.RefineMisc
import RarenaVerif.Proofs.SpecPolicy

namespace Rarena

/-- concrete history operations: the abstract ones plus a client write of byte `b` over the whole
    accessible range of the `i`-th held handle -/
inductive COp where
  | op (o : HOp)
  | fill (i : Nat) (b : UInt8)

/-- concrete session -/
structure CSess where
  st : St
  held : List Meta
  detached : List Ext

def pushAlloc (x : CSess) : AllocOut × St → CSess
  | (.ok (some m), st) => { x with st := st, held := x.held ++ [m] }
  | (_, st) => { x with st := st }

/-- one concrete step (`fuel` bounds every list traversal) -/
def cstep (c : Cfg) (fuel : Nat) (x : CSess) : COp → M CSess
  | .op (.allocBytes n) => do let r ← allocBytes c x.st n fuel; pure (pushAlloc x r)
  | .op (.allocAligned ts ta ex) => do let r ← allocAligned c x.st ts ta ex fuel; pure (pushAlloc x r)
  | .op (.allocT ts ta) => do let r ← allocT c x.st ts ta fuel; pure (pushAlloc x r)
  | .op (.release i) =>
    match x.held[i]? with
    | none => pure x
    | some m => do
      let (_, st) ← dealloc c x.st m.memOff m.memSize fuel
      pure { x with st := st, held := x.held.eraseIdx i }
  | .op (.detach i) =>
    match x.held[i]? with
    | none => pure x
    | some m => pure { x with held := x.held.eraseIdx i,
                              detached := if m.memSize != 0 then m.owned :: x.detached else x.detached }
  | .op (.setMinSeg n) => pure { x with st := setMinSeg c x.st n }
  | .op (.incDiscarded n) => pure { x with st := x.st.incDiscarded c n }
  | .op .discardFreelist => do let (_, st) ← discardFreelist c x.st fuel; pure { x with st := st }
  | .fill i b =>
    match x.held[i]? with
    | none => pure x
    | some m => pure { x with st := { x.st with mem := x.st.mem.fill m.ptrOff m.ptrSize b } }

def crun (c : Cfg) (fuel : Nat) : CSess → List COp → M CSess
  | x, [] => pure x
  | x, op :: ops => do let x' ← cstep c fuel x op; crun c fuel x' ops

/-- the abstract counterpart of a concrete operation (client writes are invisible abstractly) -/
def COp.abs : COp → Option HOp
  | .op o => some o
  | .fill _ _ => none

/-- arguments are values of the API's types -/
def COp.ok : COp → Prop
  | .op (.allocBytes n) => n < TWO32
  | .op (.allocAligned ts ta ex) => TyOK ts ta ∧ ex < TWO32
  | .op (.allocT ts ta) => TyOK ts ta
  | .op (.setMinSeg n) => n < TWO32
  | .op (.incDiscarded n) => n < TWO32
  | _ => True

/-- simulation relation between a concrete session and an abstract history state -/
structure Rel (c : Cfg) (x : CSess) (h : HState) (free : List Seg) : Prop where
  held : x.held = h.held
  detached : x.detached = h.detached
  abs : x.st.abs free = h.a
  cinv : CInv c x.st free h.lives
  hinv : HInv c h
  nonnull : ∀ m ∈ x.held, m.memSize ≠ 0


theorem sim_filter_len {α : Type} (p : α → Bool) (l : List α) :
    (l.filter p).length + (l.filter (fun e => ! p e)).length = l.length := by
  induction l with
  | nil => rfl
  | cons x xs ih =>
    simp only [List.filter_cons]
    cases p x <;> simp <;> omega

theorem sim_ext_count (n : Nat) : ∀ (l : List Ext), l.length = n → l.Pairwise disj → ∀ lo B : Nat,
    lo ≤ B → (∀ e ∈ l, lo ≤ e.1 ∧ e.1 + 9 ≤ e.2 ∧ e.2 ≤ B) → l.length * 9 + lo ≤ B := by
  induction n using Nat.strongRecOn with
  | _ n ih =>
    intro l hl hp lo B hlo hb
    cases l with
    | nil => simpa using hlo
    | cons g rest =>
      rw [List.pairwise_cons] at hp
      obtain ⟨hg, hrest⟩ := hp
      have hgb := hb g (List.mem_cons_self ..)
      have hlen : (rest.filter (fun e => decide (e.2 ≤ g.1))).length +
          (rest.filter (fun e => ! decide (e.2 ≤ g.1))).length = rest.length :=
        sim_filter_len _ rest
      simp only [List.length_cons] at hl
      have h1 := ih _ (by have := List.length_filter_le (fun e : Ext => decide (e.2 ≤ g.1)) rest; omega)
        (rest.filter (fun e => decide (e.2 ≤ g.1))) rfl (hrest.sublist List.filter_sublist) lo g.1 (by omega)
        (by
          intro e he
          simp only [List.mem_filter, decide_eq_true_eq] at he
          have := hb e (List.mem_cons_of_mem _ he.1)
          omega)
      have h2 := ih _ (by have := List.length_filter_le (fun e : Ext => ! decide (e.2 ≤ g.1)) rest; omega)
        (rest.filter (fun e => ! decide (e.2 ≤ g.1))) rfl (hrest.sublist List.filter_sublist) g.2 B (by omega)
        (by
          intro e he
          simp only [List.mem_filter, Bool.not_eq_true', decide_eq_false_iff_not] at he
          have := hb e (List.mem_cons_of_mem _ he.1)
          have hd := hg e he.1
          unfold disj at hd
          omega)
      simp only [List.length_cons]
      omega

/-- a well-formed abstract state has few segments: they are pairwise disjoint, each at least 9 bytes long,
    all below the cursor -/
theorem wf_free_length (c : Cfg) (a : A) (lives : List Ext) (h : WF c a lives) : a.free.length * 9 ≤ a.allocated := by
  have hd := h.disjoint
  rw [List.pairwise_append] at hd
  have := sim_ext_count _ (a.free.map Seg.ext) rfl hd.1 0 a.allocated (by omega) (by
    intro e he
    obtain ⟨g, hg, rfl⟩ := List.mem_map.1 he
    have := h.segs g hg
    unfold SegOK at this
    simp only [Seg.ext, Seg.hi, Seg.lo, NODE] at *
    omega)
  simp only [List.length_map] at this; omega


def HState.stepOpt (c : Cfg) (h : HState) : Option HOp → HState
  | none => h
  | some o => h.step c o

/-- one step: no trap, no divergence, same handles, invariant kept; bytes of every live extent other than the
    one the operation releases or writes through are unchanged -/
theorem sim_step (c : Cfg) (x : CSess) (h : HState) (free : List Seg) (op : COp) (fuel : Nat)
    (hr : Rel c x h free) (hro : c.ro = false) (hop : op.ok) (hfuel : x.st.cap + 2 ≤ fuel) :
    ∃ x' free', cstep c fuel x op = .ok x' ∧ Rel c x' (h.stepOpt c op.abs) free' ∧
      x'.st.mem.size = x.st.mem.size ∧ PrefixIntact c x.st x'.st ∧
      (∀ m ∈ x.held, m ∈ x'.held → (match op with | .fill i _ => x.held[i]? ≠ some m | _ => True) →
        ∀ j, m.ptrOff ≤ j → j < m.ptrOff + m.ptrSize → x'.st.mem.rd j = x.st.mem.rd j) := by
  sorry

/-- every history: the concrete run succeeds and is related to the abstract run -/
theorem sim_run (c : Cfg) (x : CSess) (h : HState) (free : List Seg) (ops : List COp) (fuel : Nat)
    (hr : Rel c x h free) (hro : c.ro = false) (hops : ∀ op ∈ ops, op.ok) (hfuel : x.st.cap + 2 ≤ fuel) :
    ∃ x' free', crun c fuel x ops = .ok x' ∧ Rel c x' (h.run c (ops.filterMap COp.abs)) free' ∧
      x'.st.mem.size = x.st.mem.size ∧ PrefixIntact c x.st x'.st := by
  sorry

/-- a freshly constructed arena is related to the initial abstract history state -/
theorem sim_init (o : Opts) (s : St) (h : o.init = some s) (hcap : o.cap + 8192 ≤ TWO32)
    (hms : o.minSeg < TWO32) (hr : 1 ≤ o.retries ∧ o.retries ≤ 255) :
    Rel o.cfg { st := s, held := [], detached := [] } (HState.init o.cap o.dataOffset o.minSeg) [] := by
  sorry

end Rarena
