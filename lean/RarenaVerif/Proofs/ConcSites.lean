/-
  Proofs.ConcSites — the programs of `Model.Conc` against the call-site table `Gen.sites`, which is regenerated from
  `sync.rs` on every run. STATIC: every access node of every operation program of the model names a call site
  `(fn, idx)` for which the table has a row of the same kind (load / store / compare_exchange / compare_exchange_weak /
  fetch_add / fetch_sub) on the same atomic word.

  1. `kindName`, `locOK`, `siteOK` (decidable matching of one access against the table); `siteOK_iff` spells it out.
  2. Leaf facts `site_<fn>_<idx>`: one small lemma per call site used by the model, each re-checked by `decide`
     against the regenerated table — a change of ONE call site of the source (kind, word, ordinal) breaks exactly
     that lemma. (`site_insert_cas`: the site of the insertion CAS, whose function name depends on the kind.)
  3. `SitesOK p` (inductive, syntactic): every access node of `p` matches the table; `SitesOK.bind` / `sok_bind`.
     `sok_remaining … sok_dropArena` (loops by induction over their fuel): every program-valued definition of the
     section "the functions of sync.rs" of `Model.Conc` satisfies it, for every configuration and every fuel;
     `sok_allocAll`, `sok_op` / `sok_discProg` / `sok_clientProg` (threads of `ConcDisc`), `sok_noneProg` (threads of
     `ConcNone`), `sok_setMinSeg` / `sok_refs` / `sok_rd` (the accesses the driver's `mkOp` adds).
  4. `step_sok`, `run_sok`, `sites_respected` (by induction over the schedule): if all thread programs satisfy
     `SitesOK`, every event executed by any schedule matches the table (with the kind the machine reports: a weak CAS,
     also one that fails spuriously, reports `.casw`), and the threads still satisfy `SitesOK` afterwards.
     `sites_respected_ops` / `_clients` / `_none`: the instances.
  5. Reverse coverage: `modelledFns`, `usedSites`, `exceptions`; `table_covered` (every row of the table whose function
     is modelled is a site the model uses: an access ADDED to a modelled function breaks it), `used_in_table` (every
     site the model uses has a row: a REMOVED access breaks it), `modelledFns_eq`.
  6. Non-vacuity: programs with a wrong kind / word / ordinal / function are rejected; a concrete machine.
-/
import RarenaVerif.Model.Conc
import RarenaVerif.Proofs.ConcDisc
import RarenaVerif.Proofs.ConcNone

namespace Rarena.Conc.Sites
open Rarena Rarena.Conc

/-! ### 1. matching an access of the model against the table -/

/-- the shape of an access node of `Prog` -/
inductive Shape where
  | load | store
  | cas (weak : Bool)
  | rmw (sub : Bool)
  deriving Repr, DecidableEq

/-- the `kind` column of `Gen.sites` for an access node of that shape -/
def kindName : Shape → String
  | .load => "load"
  | .store => "store"
  | .cas false => "compare_exchange"
  | .cas true => "compare_exchange_weak"
  | .rmw false => "fetch_add"
  | .rmw true => "fetch_sub"

/-- the `loc` column of `Gen.sites` against a location of the model. A traversal pointer of the source that may be
    either the sentinel word in the header or a node word is classified "node", hence "node" admits `.sent`. -/
def locOK (name : String) : ALoc → Bool
  | .alloc => name == "allocated"
  | .disc => name == "discarded"
  | .minseg => name == "minseg"
  | .refs => name == "refs"
  | .sent => name == "sentinel" || name == "node"
  | .node _ => name == "node"

/-- the table has a row for this call site with this kind on this word (the table may repeat rows, hence `any`) -/
def siteOK (s : Site) (kind : String) (l : ALoc) : Bool :=
  Gen.sites.any (fun x => x.fn == s.fn && x.idx == s.idx && x.kind == kind && locOK x.loc l)

theorem siteOK_iff (s : Site) (kind : String) (l : ALoc) :
    siteOK s kind l = true ↔
      ∃ x ∈ Gen.sites, x.fn = s.fn ∧ x.idx = s.idx ∧ x.kind = kind ∧ locOK x.loc l = true := by
  simp only [siteOK, List.any_eq_true, Bool.and_eq_true, beq_iff_eq, and_assoc]

/-- the offset of a node word plays no role -/
theorem siteOK_node (s : Site) (kind : String) (off : Nat) : siteOK s kind (.node off) = siteOK s kind (.node 0) := rfl

/-! ### 2. the leaf facts: one lemma per call site the model uses, decided against the regenerated table -/

theorem site_allocated_0 : siteOK ⟨"allocated", 0⟩ "load" .alloc = true := by decide
theorem site_increase_discarded_0 : siteOK ⟨"increase_discarded", 0⟩ "fetch_add" .disc = true := by decide
theorem site_find_position_0 : siteOK ⟨"find_position", 0⟩ "load" .sent = true := by decide
theorem site_find_position_1 (loc : Loc) : siteOK ⟨"find_position", 1⟩ "load" (locOf loc) = true := by
  cases loc
  · decide
  · exact (siteOK_node _ _ _).trans (by decide)
theorem site_find_position_2 (off : Nat) : siteOK ⟨"find_position", 2⟩ "load" (.node off) = true :=
  (siteOK_node _ _ off).trans (by decide)
theorem site_find_position_3 : siteOK ⟨"find_position", 3⟩ "load" .sent = true := by decide
theorem site_find_prev_and_next_0 : siteOK ⟨"find_prev_and_next", 0⟩ "load" .sent = true := by decide
theorem site_find_prev_and_next_1 (off : Nat) : siteOK ⟨"find_prev_and_next", 1⟩ "load" (.node off) = true :=
  (siteOK_node _ _ off).trans (by decide)
theorem site_find_prev_and_next_2 (off : Nat) : siteOK ⟨"find_prev_and_next", 2⟩ "load" (.node off) = true :=
  (siteOK_node _ _ off).trans (by decide)
theorem site_validate_segment_0 : siteOK ⟨"validate_segment", 0⟩ "load" .minseg = true := by decide
theorem site_try_new_segment_0 : siteOK ⟨"try_new_segment", 0⟩ "load" .minseg = true := by decide
theorem site_update_next_node_0 (off : Nat) : siteOK ⟨"update_next_node", 0⟩ "store" (.node off) = true :=
  (siteOK_node _ _ off).trans (by decide)
theorem site_optimistic_dealloc_0 (loc : Loc) : siteOK ⟨"optimistic_dealloc", 0⟩ "compare_exchange" (locOf loc) = true := by
  cases loc
  · decide
  · exact (siteOK_node _ _ _).trans (by decide)
theorem site_pessimistic_dealloc_0 (loc : Loc) : siteOK ⟨"pessimistic_dealloc", 0⟩ "compare_exchange" (locOf loc) = true := by
  cases loc
  · decide
  · exact (siteOK_node _ _ _).trans (by decide)
theorem site_dealloc_0 : siteOK ⟨"dealloc", 0⟩ "compare_exchange" .alloc = true := by decide
theorem site_alloc_slow_path_optimistic_0 : siteOK ⟨"alloc_slow_path_optimistic", 0⟩ "load" .sent = true := by decide
theorem site_alloc_slow_path_optimistic_1 (off : Nat) : siteOK ⟨"alloc_slow_path_optimistic", 1⟩ "load" (.node off) = true :=
  (siteOK_node _ _ off).trans (by decide)
theorem site_alloc_slow_path_optimistic_2 (off : Nat) : siteOK ⟨"alloc_slow_path_optimistic", 2⟩ "compare_exchange" (.node off) = true :=
  (siteOK_node _ _ off).trans (by decide)
theorem site_alloc_slow_path_optimistic_3 : siteOK ⟨"alloc_slow_path_optimistic", 3⟩ "compare_exchange" .sent = true := by decide
theorem site_alloc_slow_path_optimistic_4 (off : Nat) : siteOK ⟨"alloc_slow_path_optimistic", 4⟩ "compare_exchange" (.node off) = true :=
  (siteOK_node _ _ off).trans (by decide)
theorem site_alloc_slow_path_pessimistic_0 (off : Nat) : siteOK ⟨"alloc_slow_path_pessimistic", 0⟩ "compare_exchange" (.node off) = true :=
  (siteOK_node _ _ off).trans (by decide)
theorem site_alloc_slow_path_pessimistic_1 (loc : Loc) : siteOK ⟨"alloc_slow_path_pessimistic", 1⟩ "compare_exchange" (locOf loc) = true := by
  cases loc
  · decide
  · exact (siteOK_node _ _ _).trans (by decide)
theorem site_alloc_slow_path_pessimistic_2 (off : Nat) : siteOK ⟨"alloc_slow_path_pessimistic", 2⟩ "compare_exchange" (.node off) = true :=
  (siteOK_node _ _ off).trans (by decide)
theorem site_alloc_bytes_in_0 : siteOK ⟨"alloc_bytes_in", 0⟩ "load" .alloc = true := by decide
theorem site_alloc_bytes_in_1 : siteOK ⟨"alloc_bytes_in", 1⟩ "compare_exchange_weak" .alloc = true := by decide
theorem site_alloc_aligned_bytes_in_0 : siteOK ⟨"alloc_aligned_bytes_in", 0⟩ "load" .alloc = true := by decide
theorem site_alloc_aligned_bytes_in_1 : siteOK ⟨"alloc_aligned_bytes_in", 1⟩ "compare_exchange_weak" .alloc = true := by decide
theorem site_alloc_in_0 : siteOK ⟨"alloc_in", 0⟩ "load" .alloc = true := by decide
theorem site_alloc_in_1 : siteOK ⟨"alloc_in", 1⟩ "compare_exchange_weak" .alloc = true := by decide
theorem site_discard_freelist_in_0 : siteOK ⟨"discard_freelist_in", 0⟩ "load" .sent = true := by decide
theorem site_discard_freelist_in_1 (off : Nat) : siteOK ⟨"discard_freelist_in", 1⟩ "load" (.node off) = true :=
  (siteOK_node _ _ off).trans (by decide)
theorem site_discard_freelist_in_2 (off : Nat) : siteOK ⟨"discard_freelist_in", 2⟩ "compare_exchange" (.node off) = true :=
  (siteOK_node _ _ off).trans (by decide)
theorem site_discard_freelist_in_3 : siteOK ⟨"discard_freelist_in", 3⟩ "compare_exchange" .sent = true := by decide
theorem site_discard_freelist_in_4 (off : Nat) : siteOK ⟨"discard_freelist_in", 4⟩ "compare_exchange" (.node off) = true :=
  (siteOK_node _ _ off).trans (by decide)
theorem site_clone_0 : siteOK ⟨"clone", 0⟩ "fetch_add" .refs = true := by decide
theorem site_drop_0 : siteOK ⟨"drop", 0⟩ "fetch_sub" .refs = true := by decide
theorem site_drop_1 : siteOK ⟨"drop", 1⟩ "load" .refs = true := by decide
theorem site_set_minimum_segment_size_0 : siteOK ⟨"set_minimum_segment_size", 0⟩ "store" .minseg = true := by decide
theorem site_refs_0 : siteOK ⟨"refs", 0⟩ "load" .refs = true := by decide

/-- the CAS that links a segment in: `optimistic_dealloc` or `pessimistic_dealloc`, by the kind of the free list -/
theorem site_insert_cas (c : Cfg) (loc : Loc) :
    siteOK ⟨if c.kind = .opt then "optimistic_dealloc" else "pessimistic_dealloc", 0⟩ "compare_exchange" (locOf loc)
      = true := by
  split
  · exact site_optimistic_dealloc_0 loc
  · exact site_pessimistic_dealloc_0 loc

/-! ### 3. the syntactic predicate -/

/-- every access node of the program names a call site of the table with the node's kind and word -/
inductive SitesOK {α : Type} : Prog α → Prop where
  | ret (a : α) : SitesOK (.ret a)
  | trap (s : String) : SitesOK (.trap s)
  | diverge : SitesOK .diverge
  | load {l s k} : siteOK s "load" l = true → (∀ v, SitesOK (k v)) → SitesOK (.load l s k)
  | store {l v s k} : siteOK s "store" l = true → (∀ u, SitesOK (k u)) → SitesOK (.store l v s k)
  | cas {l e n w s k} : siteOK s (kindName (.cas w)) l = true → (∀ r, SitesOK (k r)) → SitesOK (.cas l e n w s k)
  | rmw {l v sub s k} : siteOK s (kindName (.rmw sub)) l = true → (∀ r, SitesOK (k r)) → SitesOK (.rmw l v sub s k)
  | na {e k} : (∀ u, SitesOK (k u)) → SitesOK (.na e k)

theorem SitesOK.bind {α β : Type} {p : Prog α} {f : α → Prog β} (h : SitesOK p)
    (hf : ∀ a, SitesOK (f a)) : SitesOK (p.bind f) := by
  induction h with
  | ret a => exact hf a
  | trap s => exact .trap s
  | diverge => exact .diverge
  | load h _ ih => exact .load h ih
  | store h _ ih => exact .store h ih
  | cas h _ ih => exact .cas h ih
  | rmw h _ ih => exact .rmw h ih
  | na _ ih => exact .na ih

/-- the same for the `>>=` of the `Monad Prog` instance (what `do` blocks elaborate to) -/
theorem sok_bind {α β : Type} {p : Prog α} {f : α → Prog β} (h : SitesOK p)
    (hf : ∀ a, SitesOK (f a)) : SitesOK (p >>= f) := h.bind hf

theorem sok_pure {α : Type} (a : α) : SitesOK (pure a : Prog α) := .ret a

theorem sok_load {l : ALoc} {fn : String} {idx : Nat} (h : siteOK ⟨fn, idx⟩ "load" l = true) :
    SitesOK (load l fn idx) := .load h (fun v => .ret v)
theorem sok_store {l : ALoc} {v : Nat} {fn : String} {idx : Nat} (h : siteOK ⟨fn, idx⟩ "store" l = true) :
    SitesOK (store l v fn idx) := .store h (fun u => .ret u)
theorem sok_cas {l : ALoc} {e n : Nat} {fn : String} {idx : Nat} (h : siteOK ⟨fn, idx⟩ "compare_exchange" l = true) :
    SitesOK (cas l e n fn idx) := .cas h (fun r => .ret r)
theorem sok_casw {l : ALoc} {e n : Nat} {fn : String} {idx : Nat}
    (h : siteOK ⟨fn, idx⟩ "compare_exchange_weak" l = true) : SitesOK (casw l e n fn idx) := .cas h (fun r => .ret r)
theorem sok_faa {l : ALoc} {v : Nat} {fn : String} {idx : Nat} (h : siteOK ⟨fn, idx⟩ "fetch_add" l = true) :
    SitesOK (faa l v fn idx) := .rmw h (fun r => .ret r)
theorem sok_fas {l : ALoc} {v : Nat} {fn : String} {idx : Nat} (h : siteOK ⟨fn, idx⟩ "fetch_sub" l = true) :
    SitesOK (fas l v fn idx) := .rmw h (fun r => .ret r)
theorem sok_na (e : NA) : SitesOK (na e) := .na (fun u => .ret u)
theorem sok_liftM' {α : Type} (x : M α) : SitesOK (liftM' x) := by
  rcases x with (_ | _) | a
  · exact .trap _
  · exact .diverge
  · exact .ret a

/-! ### 3b. every operation program of the model satisfies it -/

/-- side conditions `siteOK ⟨fn, idx⟩ kind l = true`: a hypothesis (the function name of `bumpLoopC` is a parameter)
    or one of the leaf facts -/
macro "sok_side" : tactic => `(tactic| first
  | assumption
  | simp only [site_allocated_0, site_increase_discarded_0, site_find_position_0, site_find_position_1,
    site_find_position_2, site_find_position_3, site_find_prev_and_next_0, site_find_prev_and_next_1,
    site_find_prev_and_next_2, site_validate_segment_0, site_try_new_segment_0, site_update_next_node_0,
    site_optimistic_dealloc_0, site_pessimistic_dealloc_0, site_dealloc_0,
    site_alloc_slow_path_optimistic_0, site_alloc_slow_path_optimistic_1,
    site_alloc_slow_path_optimistic_2, site_alloc_slow_path_optimistic_3,
    site_alloc_slow_path_optimistic_4, site_alloc_slow_path_pessimistic_0,
    site_alloc_slow_path_pessimistic_1, site_alloc_slow_path_pessimistic_2, site_alloc_bytes_in_0,
    site_alloc_bytes_in_1, site_alloc_aligned_bytes_in_0, site_alloc_aligned_bytes_in_1,
    site_alloc_in_0, site_alloc_in_1, site_discard_freelist_in_0, site_discard_freelist_in_1,
    site_discard_freelist_in_2, site_discard_freelist_in_3, site_discard_freelist_in_4, site_clone_0,
    site_drop_0, site_drop_1, site_set_minimum_segment_size_0, site_refs_0, site_insert_cas])

/-- extensible list of leaves (one `macro_rules` per proved program) -/
syntax "sok_leaf" : tactic
macro_rules | `(tactic| sok_leaf) => `(tactic| first
  | exact sok_na _
  | exact sok_liftM' _
  | exact sok_load (by sok_side)
  | exact sok_store (by sok_side)
  | exact sok_cas (by sok_side)
  | exact sok_casw (by sok_side)
  | exact sok_faa (by sok_side)
  | exact sok_fas (by sok_side))

/-- walk through a `do` block: leaves, `>>=`, `if`/`match`, `let`; `ih` is the induction hypothesis of a loop -/
macro "sok_ih " ih:term : tactic => `(tactic| repeat (first
  | exact SitesOK.ret _
  | exact SitesOK.trap _
  | exact SitesOK.diverge
  | apply $ih
  | sok_leaf
  | apply sok_bind
  | intro _
  | split
  | dsimp only))

macro "sok" : tactic => `(tactic| sok_ih SitesOK.diverge)

theorem sok_remaining : SitesOK remainingC := by unfold remainingC; sok
macro_rules | `(tactic| sok_leaf) => `(tactic| exact sok_remaining)

theorem sok_incDiscarded (c : Cfg) (n : Nat) : SitesOK (incDiscardedC c n) := by unfold incDiscardedC; sok
macro_rules | `(tactic| sok_leaf) => `(tactic| exact sok_incDiscarded _ _)

theorem sok_findPositionC (val : Nat) (cmp : Nat → Nat → Bool) :
    ∀ (fuel : Nat) (loc : Loc) (cur : Nat), SitesOK (findPositionC val cmp fuel loc cur) := by
  intro fuel
  induction fuel with
  | zero => intro loc cur; exact .diverge
  | succ f ih => intro loc cur; unfold findPositionC; sok_ih ih
macro_rules | `(tactic| sok_leaf) => `(tactic| exact sok_findPositionC _ _ _ _ _)

theorem sok_findPositionTop (val : Nat) (cmp : Nat → Nat → Bool) (fuel : Nat) :
    SitesOK (findPositionTop val cmp fuel) := by unfold findPositionTop; sok
macro_rules | `(tactic| sok_leaf) => `(tactic| exact sok_findPositionTop _ _ _)

theorem sok_findPrevNextC (val : Nat) (cmp : Nat → Nat → Bool) :
    ∀ (fuel : Nat) (loc : Loc) (cur : Nat), SitesOK (findPrevNextC val cmp fuel loc cur) := by
  intro fuel
  induction fuel with
  | zero => intro loc cur; exact .diverge
  | succ f ih => intro loc cur; unfold findPrevNextC; sok_ih ih
macro_rules | `(tactic| sok_leaf) => `(tactic| exact sok_findPrevNextC _ _ _ _ _)

theorem sok_findPrevNextTop (val : Nat) (cmp : Nat → Nat → Bool) (fuel : Nat) :
    SitesOK (findPrevNextTop val cmp fuel) := by unfold findPrevNextTop; sok
macro_rules | `(tactic| sok_leaf) => `(tactic| exact sok_findPrevNextTop _ _ _)

theorem sok_validateSegment (offset size : Nat) : SitesOK (validateSegmentC offset size) := by
  unfold validateSegmentC; sok
macro_rules | `(tactic| sok_leaf) => `(tactic| exact sok_validateSegment _ _)

theorem sok_tryNewSegment (c : Cfg) (offset size : Nat) : SitesOK (tryNewSegmentC c offset size) := by
  unfold tryNewSegmentC; sok
macro_rules | `(tactic| sok_leaf) => `(tactic| exact sok_tryNewSegment _ _ _)

theorem sok_insertLoop (c : Cfg) (seg : SegRef) (fuel : Nat) :
    ∀ tries : Nat, SitesOK (insertLoopC c seg fuel tries) := by
  intro tries
  induction tries with
  | zero => exact .diverge
  | succ t ih => unfold insertLoopC; sok_ih ih
macro_rules | `(tactic| sok_leaf) => `(tactic| exact sok_insertLoop _ _ _ _)

theorem sok_freelistDealloc (c : Cfg) (offset size fuel : Nat) : SitesOK (freelistDeallocC c offset size fuel) := by
  unfold freelistDeallocC; sok
macro_rules | `(tactic| sok_leaf) => `(tactic| exact sok_freelistDealloc _ _ _ _)

theorem sok_dealloc (c : Cfg) (offset size fuel : Nat) : SitesOK (deallocC c offset size fuel) := by
  unfold deallocC; sok
macro_rules | `(tactic| sok_leaf) => `(tactic| exact sok_dealloc _ _ _ _)

theorem sok_finishSlow (c : Cfg) (off nodeSize size fuel : Nat) : SitesOK (finishSlowC c off nodeSize size fuel) := by
  unfold finishSlowC; sok
macro_rules | `(tactic| sok_leaf) => `(tactic| exact sok_finishSlow _ _ _ _ _)

theorem sok_slowOpt (c : Cfg) (size fuel : Nat) : ∀ tries : Nat, SitesOK (slowOptC c size fuel tries) := by
  intro tries
  induction tries with
  | zero => exact .diverge
  | succ t ih => unfold slowOptC; sok_ih ih
macro_rules | `(tactic| sok_leaf) => `(tactic| exact sok_slowOpt _ _ _ _)

theorem sok_slowPess (c : Cfg) (size fuel : Nat) : ∀ tries : Nat, SitesOK (slowPessC c size fuel tries) := by
  intro tries
  induction tries with
  | zero => exact .diverge
  | succ t ih => unfold slowPessC; sok_ih ih
macro_rules | `(tactic| sok_leaf) => `(tactic| exact sok_slowPess _ _ _ _)

theorem sok_slowPath (c : Cfg) (size fuel : Nat) : SitesOK (slowPathC c size fuel) := by
  unfold slowPathC; sok
macro_rules | `(tactic| sok_leaf) => `(tactic| exact sok_slowPath _ _ _)

theorem sok_retryLoop (c : Cfg) (size fuel : Nat) (post : Meta → M Meta) :
    ∀ n i : Nat, SitesOK (retryLoopC c size fuel post n i) := by
  intro n
  induction n with
  | zero => intro i; exact .diverge
  | succ n ih => intro i; unfold retryLoopC; sok_ih ih
macro_rules | `(tactic| sok_leaf) => `(tactic| exact sok_retryLoop _ _ _ _ _ _)

/-- the cursor loop is shared by three functions of the source: its CAS is ordinal 1 of the function that is
    passed in, which has to be a weak CAS on the cursor -/
theorem sok_bumpLoop {fn : String} (hfn : siteOK ⟨fn, 1⟩ "compare_exchange_weak" .alloc = true)
    (want : Nat → M (Option Nat)) : ∀ fuel allocated : Nat, SitesOK (bumpLoopC fn want fuel allocated) := by
  intro fuel
  induction fuel with
  | zero => intro a; exact .diverge
  | succ f ih => intro a; unfold bumpLoopC; sok_ih ih
macro_rules | `(tactic| sok_leaf) => `(tactic| exact sok_bumpLoop (by sok_side) _ _ _)

theorem sok_allocBytes (c : Cfg) (cap size fuel : Nat) : SitesOK (allocBytesC c cap size fuel) := by
  unfold allocBytesC; sok
macro_rules | `(tactic| sok_leaf) => `(tactic| exact sok_allocBytes _ _ _ _)

theorem sok_allocAligned (c : Cfg) (cap tsize talign extra fuel : Nat) :
    SitesOK (allocAlignedC c cap tsize talign extra fuel) := by
  unfold allocAlignedC; sok
macro_rules | `(tactic| sok_leaf) => `(tactic| exact sok_allocAligned _ _ _ _ _ _)

theorem sok_allocT (c : Cfg) (cap tsize talign fuel : Nat) : SitesOK (allocTC c cap tsize talign fuel) := by
  unfold allocTC; sok
macro_rules | `(tactic| sok_leaf) => `(tactic| exact sok_allocT _ _ _ _ _)

theorem sok_discardLoop (c : Cfg) : ∀ fuel acc : Nat, SitesOK (discardLoopC c fuel acc) := by
  intro fuel
  induction fuel with
  | zero => intro a; exact .diverge
  | succ f ih => intro a; unfold discardLoopC; sok_ih ih
macro_rules | `(tactic| sok_leaf) => `(tactic| exact sok_discardLoop _ _ _)

theorem sok_discardFreelist (c : Cfg) (fuel : Nat) : SitesOK (discardFreelistC c fuel) := by
  unfold discardFreelistC; sok
macro_rules | `(tactic| sok_leaf) => `(tactic| exact sok_discardFreelist _ _)

theorem sok_clone : SitesOK cloneC := by unfold cloneC; sok
macro_rules | `(tactic| sok_leaf) => `(tactic| exact sok_clone)

theorem sok_dropArena : SitesOK dropArenaC := by unfold dropArenaC; sok
macro_rules | `(tactic| sok_leaf) => `(tactic| exact sok_dropArena)

/-! ### 3c. thread programs built from the operations -/

theorem sok_allocAll (c : Cfg) (cap fuel : Nat) : ∀ ns : List Nat, SitesOK (allocAllC c cap fuel ns) := by
  intro ns
  induction ns with
  | nil => exact .ret _
  | cons n rest ih => unfold allocAllC; sok_ih ih

/-- the accesses that the driver's `mkOp` performs outside the functions above: `set_minimum_segment_size`, `refs`,
    and the single load of the cursor of the arena-level readers (`allocated`) -/
theorem sok_setMinSeg (n : Nat) : SitesOK (store .minseg n "set_minimum_segment_size" 0) := by sok
theorem sok_refs : SitesOK (load .refs "refs" 0) := by sok
theorem sok_rd : SitesOK (load .alloc "allocated" 0) := by sok

theorem sok_op (c : Cfg) (cap fuel : Nat) (op : Disc.DOp) : SitesOK (op.run c cap fuel) := by
  cases op <;> (unfold Disc.DOp.run; sok)
macro_rules | `(tactic| sok_leaf) => `(tactic| exact sok_op _ _ _ _)

theorem sok_discProg (c : Cfg) (cap fuel : Nat) : ∀ ops : List Disc.DOp, SitesOK (Disc.discProg c cap fuel ops) := by
  intro ops
  induction ops with
  | nil => exact .ret _
  | cons op rest ih => unfold Disc.discProg; sok_ih ih

theorem sok_clientProg (c : Cfg) (cap fuel : Nat) (next : List Disc.DRes → Option Disc.DOp) :
    ∀ (n : Nat) (acc : List Disc.DRes), SitesOK (Disc.clientProg c cap fuel next n acc) := by
  intro n
  induction n with
  | zero => intro acc; exact .ret _
  | succ n ih => intro acc; unfold Disc.clientProg; sok_ih ih

theorem sok_noneProg (c : Cfg) (cap fuel : Nat) :
    ∀ (ops : List NoneFL.NOp) (held : List Meta), SitesOK (NoneFL.noneProg c cap fuel ops held) := by
  intro ops
  induction ops with
  | nil => intro held; exact .ret _
  | cons op rest ih => intro held; cases op <;> (unfold NoneFL.noneProg; sok_ih ih)

/-! ### 4. the machine: every executed event matches the table -/

/-- the `kind` column of the table for the kind an event reports -/
def akName : AKind → String
  | .ld => "load"
  | .st => "store"
  | .cas => "compare_exchange"
  | .casw => "compare_exchange_weak"
  | .faa => "fetch_add"
  | .fas => "fetch_sub"

/-- the event is an execution of a call site of the table, with the kind and on the word the table says -/
def EventOK (e : Event) : Prop := siteOK e.site (akName e.kind) e.loc = true

instance (e : Event) : Decidable (EventOK e) := inferInstanceAs (Decidable (_ = true))

def StepOK : Option Event → Prop
  | none => True
  | some e => EventOK e

theorem settle_sok {α : Type} : ∀ (fuel : Nat) (sh : Shared) (p : Prog α) (nas : List NA), SitesOK p →
    SitesOK (Disc.toProg (settle fuel sh p nas).2.1)
  | 0, _, _, _, _ => .diverge
  | f + 1, sh, p, nas, h => by
    cases h with
    | ret a => exact .ret a
    | trap s => exact .trap s
    | diverge => exact .diverge
    | load h1 h2 => exact .load h1 h2
    | store h1 h2 => exact .store h1 h2
    | cas h1 h2 => exact .cas h1 h2
    | rmw h1 h2 => exact .rmw h1 h2
    | @na e k h =>
      simp only [settle]
      rcases ha : sh.applyNA e with fl | sh'
      · rcases fl with s | _
        · exact .trap s
        · exact .diverge
      · exact settle_sok f sh' (k ()) (nas ++ [e]) (h ())

theorem stepAccess_sok {α : Type} {sh sh2 : Shared} {p p2 : Prog α} {sp : Bool} {ev : Event}
    (h : SitesOK p) (hs : stepAccess sh p sp = .ok (sh2, p2, ev)) : SitesOK p2 ∧ EventOK ev := by
  cases h with
  | ret a => simp [stepAccess, throw, throwThe, MonadExceptOf.throw] at hs
  | trap s => simp [stepAccess, throw, throwThe, MonadExceptOf.throw] at hs
  | diverge => simp [stepAccess, throw, throwThe, MonadExceptOf.throw] at hs
  | na h => simp [stepAccess, throw, throwThe, MonadExceptOf.throw] at hs
  | @load l s k h1 h2 =>
    simp only [stepAccess, bind, Except.bind, pure, Except.pure] at hs
    split at hs
    · cases hs
    · cases hs; exact ⟨h2 _, h1⟩
  | @store l v s k h1 h2 =>
    simp only [stepAccess, bind, Except.bind, pure, Except.pure] at hs
    split at hs
    · cases hs
    · split at hs
      · cases hs
      · cases hs; exact ⟨h2 _, h1⟩
  | @cas l e n w s k h1 h2 =>
    simp only [stepAccess, bind, Except.bind, pure, Except.pure] at hs
    split at hs
    · cases hs
    · split at hs
      · rename_i hw
        have hw1 : w = true := hw.1
        subst hw1
        cases hs; exact ⟨h2 _, h1⟩
      · split at hs
        · split at hs
          · cases hs
          · cases hs; cases w <;> exact ⟨h2 _, h1⟩
        · cases hs; cases w <;> exact ⟨h2 _, h1⟩
  | @rmw l v sub s k h1 h2 =>
    simp only [stepAccess, bind, Except.bind, pure, Except.pure] at hs
    split at hs
    · cases hs
    · split at hs
      · cases hs
      · cases hs; cases sub <;> exact ⟨h2 _, h1⟩

theorem tstepE_sok {α : Type} (sh : Shared) (p : Prog α) (sp : Bool) (h : SitesOK p) :
    SitesOK (Disc.tstepE sh p sp).2.1 ∧ StepOK (Disc.tstepE sh p sp).2.2 := by
  unfold Disc.tstepE
  have h2 := settle_sok 100000 sh p [] h
  rcases hs : settle 100000 sh p [] with ⟨sh1, s, nas⟩
  rw [hs] at h2
  rcases s with a | fl | p1
  · exact ⟨h2, trivial⟩
  · exact ⟨h2, trivial⟩
  · dsimp only
    rcases ha : stepAccess sh1 p1 sp with (s | _) | ⟨sh2, p2, e⟩
    · exact ⟨.trap s, trivial⟩
    · exact ⟨.diverge, trivial⟩
    · obtain ⟨h3, h4⟩ := stepAccess_sok h2 ha
      exact ⟨settle_sok 100000 sh2 p2 [] h3, h4⟩

/-- all threads satisfy the predicate -/
def AllSok {α : Type} (ts : List (Prog α)) : Prop := ∀ p ∈ ts, SitesOK p

/-- PER-STEP THEOREM: one `Global.step` keeps all threads inside the predicate, and the event it reports (if any)
    matches the table -/
theorem step_sok {α : Type} (g : Global α) (tid : Nat) (sp : Bool) (h : AllSok g.threads) :
    AllSok (g.step tid sp).1.threads ∧ StepOK (g.step tid sp).2 := by
  rcases hp : g.threads[tid]? with _ | p
  · rw [Disc.step_none g tid sp hp]; exact ⟨h, trivial⟩
  · rw [Disc.step_some g tid sp p hp]
    obtain ⟨h1, h2⟩ := tstepE_sok g.sh p sp (h p (List.mem_of_getElem? hp))
    refine ⟨fun q hq => ?_, h2⟩
    rcases List.mem_or_eq_of_mem_set hq with hq | rfl
    · exact h q hq
    · exact h1

theorem run_sok {α : Type} : ∀ (sched : List (Nat × Bool)) (g : Global α), AllSok g.threads →
    AllSok (g.run sched).1.threads ∧ ∀ x ∈ (g.run sched).2, EventOK x.2
  | [], _, h => ⟨h, fun x hx => by cases hx⟩
  | (tid, sp) :: rest, g, h => by
    obtain ⟨a1, a2⟩ := step_sok g tid sp h
    obtain ⟨b1, b2⟩ := run_sok rest (g.step tid sp).1 a1
    simp only [Global.run]
    refine ⟨b1, ?_⟩
    rcases he : (g.step tid sp).2 with _ | e <;> dsimp only
    · exact b2
    · intro x hx
      rcases List.mem_cons.mp hx with rfl | hx
      · rw [he] at a2; exact a2
      · exact b2 x hx

/-- MAIN THEOREM. Any initial shared state, any number of threads whose programs satisfy `SitesOK`, any schedule
    (with any spurious weak-CAS failures): every executed event is the execution of a call site of the table
    regenerated from `sync.rs`, of the kind (load / store / strong CAS / weak CAS / fetch_add / fetch_sub) and on
    the atomic word the table records for that site; and the threads still satisfy the predicate afterwards. -/
theorem sites_respected {α : Type} (sh : Shared) (threads : List (Prog α))
    (hall : ∀ p ∈ threads, SitesOK p) (sched : List (Nat × Bool)) :
    let r := Global.run ⟨sh, threads⟩ sched
    (∀ x ∈ r.2, siteOK x.2.site (akName x.2.kind) x.2.loc = true) ∧ (∀ p ∈ r.1.threads, SitesOK p) := by
  intro r
  obtain ⟨h1, h2⟩ := run_sok sched ⟨sh, threads⟩ hall
  exact ⟨h2, h1⟩

/-- consequence: every executed event has a row in the table (so `e.site.ords`, which the happens-before
    arguments look up, is never the `[]` of an unknown site) -/
theorem sites_known {α : Type} (sh : Shared) (threads : List (Prog α))
    (hall : ∀ p ∈ threads, SitesOK p) (sched : List (Nat × Bool)) :
    ∀ x ∈ (Global.run ⟨sh, threads⟩ sched).2, ∃ row ∈ Gen.sites, row.fn = x.2.site.fn ∧ row.idx = x.2.site.idx ∧
      row.kind = akName x.2.kind ∧ locOK row.loc x.2.loc = true :=
  fun x hx => (siteOK_iff _ _ _).mp ((sites_respected sh threads hall sched).1 x hx)

/-- the main theorem for threads that run fixed lists of operations of `sync.rs` -/
theorem sites_respected_ops (c : Cfg) (cap fuel : Nat) (sh : Shared) (progs : List (List Disc.DOp))
    (sched : List (Nat × Bool)) :
    ∀ x ∈ (Global.run ⟨sh, progs.map (Disc.discProg c cap fuel)⟩ sched).2,
      siteOK x.2.site (akName x.2.kind) x.2.loc = true :=
  (sites_respected sh (progs.map (Disc.discProg c cap fuel)) (fun p hp => by
    obtain ⟨ops, _, rfl⟩ := List.mem_map.mp hp
    exact sok_discProg c cap fuel ops) sched).1

/-- the main theorem for adaptive clients (each thread: a strategy and a bound on the number of operations) -/
theorem sites_respected_clients (c : Cfg) (cap fuel : Nat) (sh : Shared)
    (clients : List ((List Disc.DRes → Option Disc.DOp) × Nat)) (sched : List (Nat × Bool)) :
    ∀ x ∈ (Global.run ⟨sh, clients.map (fun cl => Disc.clientProg c cap fuel cl.1 cl.2 [])⟩ sched).2,
      siteOK x.2.site (akName x.2.kind) x.2.loc = true :=
  (sites_respected sh (clients.map (fun cl => Disc.clientProg c cap fuel cl.1 cl.2 [])) (fun p hp => by
    obtain ⟨cl, _, rfl⟩ := List.mem_map.mp hp
    exact sok_clientProg c cap fuel cl.1 cl.2 []) sched).1

/-- the main theorem for the threads of `Proofs.ConcNone` -/
theorem sites_respected_none (c : Cfg) (cap fuel : Nat) (sh : Shared) (progs : List (List NoneFL.NOp))
    (sched : List (Nat × Bool)) :
    ∀ x ∈ (Global.run ⟨sh, progs.map (fun ops => NoneFL.noneProg c cap fuel ops [])⟩ sched).2,
      siteOK x.2.site (akName x.2.kind) x.2.loc = true :=
  (sites_respected sh (progs.map (fun ops => NoneFL.noneProg c cap fuel ops [])) (fun p hp => by
    obtain ⟨ops, _, rfl⟩ := List.mem_map.mp hp
    exact sok_noneProg c cap fuel ops []) sched).1

/-! ### 5. reverse coverage of the table -/

/-- every call site `(fn, idx)` that occurs in `Model/Conc.lean` (the last three function names are computed there:
    `bumpLoopC fn … 1` is called with the three entry points, the CAS of `insertLoopC` is `optimistic_dealloc` or
    `pessimistic_dealloc`), and the two that only the driver's `mkOp` uses -/
def usedSites : List (String × Nat) := [
  ("allocated", 0), ("increase_discarded", 0),
  ("find_position", 0), ("find_position", 1), ("find_position", 2), ("find_position", 3),
  ("find_prev_and_next", 0), ("find_prev_and_next", 1), ("find_prev_and_next", 2),
  ("validate_segment", 0), ("try_new_segment", 0), ("update_next_node", 0),
  ("optimistic_dealloc", 0), ("pessimistic_dealloc", 0), ("dealloc", 0),
  ("alloc_slow_path_optimistic", 0), ("alloc_slow_path_optimistic", 1), ("alloc_slow_path_optimistic", 2),
  ("alloc_slow_path_optimistic", 3), ("alloc_slow_path_optimistic", 4),
  ("alloc_slow_path_pessimistic", 0), ("alloc_slow_path_pessimistic", 1), ("alloc_slow_path_pessimistic", 2),
  ("alloc_bytes_in", 0), ("alloc_bytes_in", 1), ("alloc_aligned_bytes_in", 0), ("alloc_aligned_bytes_in", 1),
  ("alloc_in", 0), ("alloc_in", 1),
  ("discard_freelist_in", 0), ("discard_freelist_in", 1), ("discard_freelist_in", 2), ("discard_freelist_in", 3),
  ("discard_freelist_in", 4),
  ("clone", 0), ("drop", 0), ("drop", 1),
  -- Driver/Main.lean, `mkOp`
  ("set_minimum_segment_size", 0), ("refs", 0)]

/-- the functions of `sync.rs` that the model has programs for -/
def modelledFns : List String := [
  "allocated", "increase_discarded", "find_position", "find_prev_and_next", "validate_segment", "try_new_segment",
  "update_next_node", "optimistic_dealloc", "pessimistic_dealloc", "dealloc",
  "alloc_slow_path_optimistic", "alloc_slow_path_pessimistic",
  "alloc_bytes_in", "alloc_aligned_bytes_in", "alloc_in", "discard_freelist_in", "clone", "drop",
  "set_minimum_segment_size", "refs"]

/-- atomic accesses of a modelled function that the model deliberately leaves out: none -/
def exceptions : List (String × Nat) := []

/-- the modelled functions are exactly the functions of the sites the model uses -/
theorem modelledFns_eq : (usedSites.map (·.1)).eraseDups = modelledFns := by decide

/-- every row of the regenerated table whose function is modelled is a call site the model uses (or a listed
    exception): an atomic access ADDED to a modelled function of `sync.rs` breaks this theorem -/
theorem table_covered :
    ∀ x ∈ Gen.sites, x.fn ∈ modelledFns → (x.fn, x.idx) ∈ usedSites ∨ (x.fn, x.idx) ∈ exceptions := by decide

/-- every call site the model uses has a row in the regenerated table: a REMOVED access breaks this theorem -/
theorem used_in_table : ∀ u ∈ usedSites, ∃ x ∈ Gen.sites, x.fn = u.1 ∧ x.idx = u.2 := by decide

/-- the exceptions are rows of the table too, and none of them is used -/
theorem exceptions_in_table :
    ∀ u ∈ exceptions, (∃ x ∈ Gen.sites, x.fn = u.1 ∧ x.idx = u.2) ∧ u ∉ usedSites := by decide

/-! ### 6. non-vacuity -/

/-- a strong CAS where the source has a weak one -/
example : ¬ SitesOK (Prog.cas .alloc 0 1 false ⟨"alloc_bytes_in", 1⟩ .ret) := fun h => by
  cases h with
  | cas h1 _ => exact absurd h1 (by decide)
/-- a weak CAS where the source has a strong one -/
example : ¬ SitesOK (casw .alloc 0 1 "dealloc" 0) := fun h => by
  cases h with
  | cas h1 _ => exact absurd h1 (by decide)
/-- the wrong word: `alloc_bytes_in` #0 loads the cursor, not the `discarded` counter -/
example : ¬ SitesOK (load .disc "alloc_bytes_in" 0) := fun h => by
  cases h with
  | load h1 _ => exact absurd h1 (by decide)
/-- a header word where the source has a node (or the sentinel) -/
example : ¬ SitesOK (load .alloc "find_position" 2) := fun h => by
  cases h with
  | load h1 _ => exact absurd h1 (by decide)
/-- a node where the source has the sentinel field of the header -/
example : ¬ SitesOK (load (.node 64) "alloc_slow_path_optimistic" 0) := fun h => by
  cases h with
  | load h1 _ => exact absurd h1 (by decide)
/-- `fetch_sub` where the source has `fetch_add` -/
example : ¬ SitesOK (fas .refs 1 "clone" 0) := fun h => by
  cases h with
  | rmw h1 _ => exact absurd h1 (by decide)
/-- an ordinal the function does not have, a function the source does not have -/
example : ¬ SitesOK (load .alloc "alloc_bytes_in" 2) := fun h => by
  cases h with
  | load h1 _ => exact absurd h1 (by decide)
example : ¬ SitesOK (load .alloc "no_such_function" 0) := fun h => by
  cases h with
  | load h1 _ => exact absurd h1 (by decide)
/-- a violation deep inside a program is found too -/
example (c : Cfg) : ¬ SitesOK (do incDiscardedC c 1; let _ ← fas .disc 1 "increase_discarded" 0; pure ()) := fun h => by
  have : SitesOK ((incDiscardedC c 1).bind fun _ => (fas .disc 1 "increase_discarded" 0).bind fun _ => .ret ()) := h
  unfold incDiscardedC at this
  split at this
  · cases this with
    | rmw h1 _ => exact absurd h1 (by decide)
  · cases this with
    | rmw _ h2 =>
      cases h2 0 with
      | rmw h1 _ => exact absurd h1 (by decide)

/-- the machine of `Disc.Example` (Optimistic free list: a `dealloc` that links a segment in, racing with an
    `increase_discarded`): seven events, all matching the table — computed, and as an instance of the theorem -/
example : ((Disc.Example.gO.run Disc.Example.schedO).2.map (fun x => (x.2.site.fn, x.2.site.idx))) =
    [("dealloc", 0), ("try_new_segment", 0), ("find_position", 0), ("increase_discarded", 0),
     ("update_next_node", 0), ("optimistic_dealloc", 0), ("increase_discarded", 0)] ∧
    ∀ x ∈ (Disc.Example.gO.run Disc.Example.schedO).2, EventOK x.2 := by decide

example : ∀ x ∈ (Disc.Example.gO.run Disc.Example.schedO).2, siteOK x.2.site (akName x.2.kind) x.2.loc = true :=
  sites_respected_ops Disc.Example.cfgO 64 4 Disc.Example.shO [[.dealloc 16 24], [.incDiscarded 3]] Disc.Example.schedO

end Rarena.Conc.Sites
