/-
  Proofs.ConcShape — C03 (capacity and alignment of what the allocation functions return) for `sync::Arena` under EVERY
  interleaving: every free-list kind (None / Optimistic / Pessimistic), read-only or not, any capacity, any fuel, any
  number of threads, any schedule (with spurious failures of the weak CAS), and — unlike the other concurrent proofs —
  WITHOUT any invariant on the shared state: the shape of a returned handle is computed thread-locally from the values
  the thread's own atomic accesses returned, and the code checks what it needs before it returns.

  1. `Always post p` (inductive, syntactic): whatever the environment answers to the loads / CASes / fetch_adds of `p`
     (all values quantified), if `p` returns `a` then `post a`. `Always.bind` / `bind'` (with an intermediate
     condition), `Always.bindT` (first part tells nothing), `Always.mono`, `Always.and`, `always_true`,
     `always_liftM'_iff` (for `x : M α`: `Always post (liftM' x) ↔ ∀ a, x = .ok a → post a`).
  2. What the functions return: `always_finishSlow` (always `.ok ⟨off, ms, off + NODE, size⟩`, `ms = nodeSize` or
     `nodeSize - (nodeSize - size)`), `always_slowOpt` / `always_slowPess` / `always_slowPath` (`SlowPost`: `ptrOff =
     memOff + NODE`, `ptrSize = size`, `size ≤ memSize`; with a handle only if `kind ≠ none`) — by induction on the
     tries with the walking tactic `alw_ih` —, `always_retryLoop` (never `Ok(None)`; a handle is `post` of a slow-path
     handle), `always_bumpLoop` (`(off, wnt)` only with `want off = ok (some wnt)`), and the entry points
     `post_allocBytes` / `post_allocT` / `post_allocAligned` (`BytesPost` / `TPost` / `APost`):
       · a handle has `ptrSize = n` / `ptrSize = ts ∧ ptrOff % ta = 0` / `ptrOff % ta = 0 ∧ ts + ex ≤ ptrSize`,
       · and is `Inside`: `Fresh cap m` (bump path: `memOff ≤ ptrOff`, `ptrOff + ptrSize ≤ memOff + memSize ≤ cap`) or,
         only with a free list, `Recycled m` (slow path: `memOff + NODE ≤ ptrOff`, `ptrOff + ptrSize ≤ memOff + NODE +
         memSize`: inside the DATA part of the segment whose node word is at `memOff`),
       · `Ok(None)` is answered to zero-size requests only (`n = 0` / `ts = 0` / `ts = 0 ∧ ex = 0`),
       · a read-only arena answers no `Ok` at all.
     `shape_allocBytes` / `shape_allocT` / `shape_allocAligned`: the statements in the form of `Props/C03.lean` plus
     `memOff ≤ ptrOff ∧ ptrOff + ptrSize ≤ memOff + memSize + NODE`; `shape_*_none`: for `kind = none` the exact
     containment `ptrOff + ptrSize ≤ memOff + memSize ≤ cap`; `none_only_zero`.
     HYPOTHESES ON THE REQUEST: only `0 < ta` (with `ta = 0` the model's `alignOffset` answers 0 and `memOff ≤ ptrOff`
     fails). No `TyOK`, no bound `< 2^32` on sizes, no bound on the capacity: every unchecked `u32` operation of the
     code is a `trap` of the model and a trapped call returns nothing. (`alignOffset` of the model is the division
     form `(x + a - 1) / a * a` for every `a`; the code's mask expression `alignOffsetMask` agrees with it for powers
     of two only — a modelling assumption on `align_of::<T>()`, not a hypothesis of these theorems.)
  3. The machine: `settle_always`, `stepAccess_always`, `tstepE_always`; `step_always` (PER STEP: `Global.step`
     preserves `Always (posts i)` for every thread `i`), `run_always`, `always_run` (after any schedule, a thread that
     has returned `a` has `posts i a`), `always_run_thread` (one distinguished thread among arbitrary others),
     `always_results` (one post-condition, read off `Global.results`).
     `Req` / `Req.ok` / `Req.run` / `Req.meets c cap` / `Req.zero` / `Req.meetsWeak`, `always_req`; `Act` (request,
     release of the handle an earlier request of the thread returned — `dealloc(memory_offset, memory_size)`, also
     twice —, `discard_freelist`, `increase_discarded`), `actProg` (returns the list of `(request, result)` pairs),
     `reqProg` (requests only), `clientProg` (ADAPTIVE: next action = any function of the results so far);
     `always_actProg`, `always_reqProg`, `always_clientProg`.
  4. MAIN THEOREMS `shape_under_any_schedule_acts`, `shape_under_any_schedule` (requests only),
     `shape_under_any_schedule_clients`: from ANY shared state, for any schedule, every `(q, r)` in the result list of a
     finished thread has `r = ok (some m) → q.meets c cap m`, `r = ok none → q.zero`, `r = ok _ → c.ro = false`.
  5. `Example` (all by `decide` on the machine): two threads, kind Optimistic; a release creates a segment and a typed
     allocation is served from it by the SLOW path (4 accesses of `alloc_slow_path_optimistic` in the trace) and meets
     its request. And the two limits of the statement:

     WEAKENED with respect to the wished statement `ptrOff + ptrSize ≤ memOff + memSize` (for every kind): this is
     FALSE for recycled handles, and not because of the environment — it fails in a run from a fresh arena by API
     calls only: 48-byte arena, data offset 16, `alloc_bytes(24)` → `[16, 40)`, `alloc_bytes(8)` → `[40, 48)`, release
     of the first (cursor CAS fails; segment: node word at 16, 16 data bytes at 24), `alloc_bytes(16)` → slow path →
     `Meta { memory_offset = 16, memory_size = 16, ptr_offset = 24, ptr_size = 16 }`: accessible range `[24, 40)`,
     buffer extent `[16, 32)`. `finishSlowC` (as `alloc_slow_path_*` of the source) sets `memory_size` to the size of
     the DATA part of the segment but `memory_offset` to the offset of its NODE WORD (the project knows this: `Meta.owned`
     in `Model/Inv.lean` takes the `max` of both ends). What holds, and is proved, is `Recycled`; the common weakening
     is `… ≤ memOff + memSize + NODE`. For `kind = none` (no slow path) the exact containment holds (`shape_*_none`).
     Stated as `¬ Always …` in `Example`.

     NOT INCLUDED because it DOES depend on the environment: `memOff + memSize ≤ cap` (or any bound by the capacity) for
     recycled handles. Answer sequence (kind Optimistic, `alloc_bytes(8)`, capacity 48): load cursor → 48 (no room);
     load sentinel → `enc MAXU32 16`; load node 16 → `enc 1000 MAXU32`; both CASes → success; load `min_segment_size`
     → 2000 (no split): returns `⟨16, 1000, 24, 8⟩`. Realised by the shared state `Example.shBad` and checked by
     `decide`; stated as `¬ Always …`. (`Fresh` handles are below the capacity: the comparison with `cap` precedes the
     cursor CAS.) Everything else of C03's shape is environment-independent.
-/
import RarenaVerif.Model.Conc
import RarenaVerif.Proofs.ConcDisc
import RarenaVerif.Proofs.ConcNone

namespace Rarena.Conc.Shape
open Rarena Rarena.Conc
open Rarena.Conc.NoneFL (want_bytes want_T want_A align_ge alignBytesTo_ok addU32_ok subU_ok)

/-! ### 1. the predicate -/

/-- whatever the environment answers to the atomic accesses of `p`: if `p` returns `a` then `post a` -/
inductive Always {α : Type} (post : α → Prop) : Prog α → Prop where
  | ret {a} : post a → Always post (.ret a)
  | trap {s} : Always post (.trap s)
  | diverge : Always post .diverge
  | load {l s k} : (∀ v, Always post (k v)) → Always post (.load l s k)
  | store {l v s k} : Always post (k ()) → Always post (.store l v s k)
  | cas {l e n w s k} : (∀ r, Always post (k r)) → Always post (.cas l e n w s k)
  | rmw {l v sub s k} : (∀ old, Always post (k old)) → Always post (.rmw l v sub s k)
  | na {e k} : Always post (k ()) → Always post (.na e k)

theorem Always.bind {α β : Type} {mid : α → Prop} {post : β → Prop} {p : Prog α} {f : α → Prog β}
    (h : Always mid p) (hf : ∀ a, mid a → Always post (f a)) : Always post (p.bind f) := by
  induction h with
  | ret h => exact hf _ h
  | trap => exact .trap
  | diverge => exact .diverge
  | load _ ih => exact .load ih
  | store _ ih => exact .store ih
  | cas _ ih => exact .cas ih
  | rmw _ ih => exact .rmw ih
  | na _ ih => exact .na ih

/-- the same for the `>>=` of the `Monad Prog` instance (what `do` blocks elaborate to) -/
theorem Always.bind' {α β : Type} {mid : α → Prop} {post : β → Prop} {p : Prog α} {f : α → Prog β}
    (h : Always mid p) (hf : ∀ a, mid a → Always post (f a)) : Always post (p >>= f) := h.bind hf

theorem Always.mono {α : Type} {post post' : α → Prop} {p : Prog α}
    (h : Always post p) (hf : ∀ a, post a → post' a) : Always post' p := by
  induction h with
  | ret h => exact .ret (hf _ h)
  | trap => exact .trap
  | diverge => exact .diverge
  | load _ ih => exact .load ih
  | store _ ih => exact .store ih
  | cas _ ih => exact .cas ih
  | rmw _ ih => exact .rmw ih
  | na _ ih => exact .na ih

theorem Always.and {α : Type} {p1 p2 : α → Prop} {p : Prog α}
    (h1 : Always p1 p) (h2 : Always p2 p) : Always (fun a => p1 a ∧ p2 a) p := by
  induction h1 with
  | ret h => cases h2 with | ret h' => exact .ret ⟨h, h'⟩
  | trap => exact .trap
  | diverge => exact .diverge
  | load _ ih => cases h2 with | load h' => exact .load (fun v => ih v (h' v))
  | store _ ih => cases h2 with | store h' => exact .store (ih h')
  | cas _ ih => cases h2 with | cas h' => exact .cas (fun v => ih v (h' v))
  | rmw _ ih => cases h2 with | rmw h' => exact .rmw (fun v => ih v (h' v))
  | na _ ih => cases h2 with | na h' => exact .na (ih h')

/-- the trivial post-condition holds of every program -/
theorem always_true {α : Type} (p : Prog α) : Always (fun _ => True) p := by
  induction p with
  | ret a => exact .ret trivial
  | trap s => exact .trap
  | diverge => exact .diverge
  | load l s k ih => exact .load ih
  | store l v s k ih => exact .store (ih ())
  | cas l e n w s k ih => exact .cas ih
  | rmw l v sb s k ih => exact .rmw ih
  | na e k ih => exact .na (ih ())

/-- a bind whose first part tells nothing (or nothing that is needed) -/
theorem Always.bindT {α β : Type} {post : β → Prop} {p : Prog α} {f : α → Prog β}
    (hf : ∀ a, Always post (f a)) : Always post (p >>= f) := (always_true p).bind (fun a _ => hf a)

theorem always_pure {α : Type} {post : α → Prop} {a : α} (h : post a) : Always post (pure a : Prog α) := .ret h

/-- `Always` of a program that performs no access is a statement about its value -/
theorem always_liftM'_iff {α : Type} (post : α → Prop) (x : M α) :
    Always post (liftM' x) ↔ ∀ a, x = .ok a → post a := by
  rcases x with (s | _) | a
  · exact ⟨fun _ a h => (by cases h), fun _ => .trap⟩
  · exact ⟨fun _ a h => (by cases h), fun _ => .diverge⟩
  · constructor
    · intro h b hb
      cases hb
      cases h with | ret h => exact h
    · intro h
      exact .ret (h a rfl)

theorem always_liftM' {α : Type} (x : M α) : Always (fun a => x = .ok a) (liftM' x) :=
  (always_liftM'_iff _ x).2 (fun _ h => h)

/-- the predicate says something: a program that returns what it loaded satisfies no post-condition that some
    value violates -/
example : ¬ Always (fun v : Nat => v = 0) (load .alloc "f" 0) := fun h => by
  cases h with
  | load h => cases h 1 with | ret h => cases h

/-! ### 2. what the allocation functions return, whatever they read -/

/-- a handle cut from fresh space by the cursor CAS: the accessible range lies inside the buffer extent, which lies
    below the capacity -/
def Fresh (cap : Nat) (m : Meta) : Prop :=
  m.memOff ≤ m.ptrOff ∧ m.ptrOff + m.ptrSize ≤ m.memOff + m.memSize ∧ m.memOff + m.memSize ≤ cap

/-- a handle cut from a recycled segment: `memOff` is the offset of the segment's node word, `memSize` the size of
    its DATA part (which starts `NODE` bytes later); the accessible range lies inside that data part -/
def Recycled (m : Meta) : Prop :=
  m.memOff + NODE ≤ m.ptrOff ∧ m.ptrOff + m.ptrSize ≤ m.memOff + NODE + m.memSize

/-- fresh, or (only with a free list) recycled -/
def Inside (c : Cfg) (cap : Nat) (m : Meta) : Prop := Fresh cap m ∨ (c.kind ≠ .none ∧ Recycled m)

/-- the containment both kinds of handles have in common -/
theorem Inside.weak {c : Cfg} {cap : Nat} {m : Meta} (h : Inside c cap m) :
    m.memOff ≤ m.ptrOff ∧ m.ptrOff + m.ptrSize ≤ m.memOff + m.memSize + NODE := by
  rcases h with ⟨h1, h2, _⟩ | ⟨_, h1, h2⟩ <;> (unfold NODE at *; omega)

theorem Inside.of_none {c : Cfg} {cap : Nat} {m : Meta} (hk : c.kind = .none) (h : Inside c cap m) : Fresh cap m := by
  rcases h with h | ⟨h, _⟩
  · exact h
  · exact absurd hk h

/-! #### arithmetic -/

theorem align_props {a x o : Nat} (ha : 0 < a) (h : alignOffset a x = .ok o) : x ≤ o ∧ o ≤ x + a - 1 ∧ o % a = 0 := by
  refine ⟨align_ge ha h, ?_, ?_⟩
  · unfold alignOffset at h
    split at h
    · simp only [pure, Except.pure, Except.ok.injEq] at h
      subst h
      exact Nat.div_mul_le_self _ _
    · cases h
  · unfold alignOffset at h
    split at h
    · simp only [pure, Except.pure, Except.ok.injEq] at h
      subst h
      exact Nat.mul_mod_left _ _
    · cases h

theorem alignTo_ok {m m' : Meta} {a size : Nat} (h : m.alignTo a size = .ok m') :
    ∃ o, alignOffset a m.ptrOff = .ok o ∧ m' = { m with ptrOff := o, ptrSize := size } := by
  unfold Meta.alignTo at h
  rcases ho : alignOffset a m.ptrOff with e | o
  · simp only [ho, bind, Except.bind] at h; cases h
  · simp only [ho, bind, Except.bind, pure, Except.pure, Except.ok.injEq] at h
    exact ⟨o, rfl, h.symm⟩

theorem alignBytesTo_ok' {m m' : Meta} {a : Nat} (h : m.alignBytesTo a = .ok m') :
    ∃ o, alignOffset a m.ptrOff = .ok o ∧ o ≤ m.ptrOff + m.ptrSize ∧
      m' = { m with ptrOff := o, ptrSize := m.ptrOff + m.ptrSize - o } := by
  unfold Meta.alignBytesTo at h
  rcases h1 : addU32 "align_bytes_to:end" m.ptrOff m.ptrSize with e1 | e
  · simp only [h1, bind, Except.bind] at h; cases h
  · rcases ho : alignOffset a m.ptrOff with e2 | o
    · simp only [h1, ho, bind, Except.bind] at h; cases h
    · rcases h2 : subU "align_bytes_to:size" e o with e3 | sz
      · simp only [h1, ho, h2, bind, Except.bind] at h; cases h
      · simp only [h1, ho, h2, bind, Except.bind, pure, Except.pure, Except.ok.injEq] at h
        have h3 := addU32_ok h1
        obtain ⟨h4, h5⟩ := subU_ok h2
        subst h3 h5
        exact ⟨o, rfl, h4, h.symm⟩

theorem checkedAdd_ok {a b p : Nat} (h : checkedAddU32 a b = some p) : p = a + b := by
  unfold checkedAddU32 at h
  split at h
  · cases h; rfl
  · cases h

/-! #### the walking tactic -/

/-- extensible list of leaves (tail calls of functions that already have a lemma) -/
syntax "alw_leaf" : tactic
macro_rules | `(tactic| alw_leaf) => `(tactic| fail "no leaf")

/-- closes `post (.error e)` / `post none` for post-conditions `∀ m, r = .ok .. → ..` -/
macro "alw_no" : tactic => `(tactic| first | (intro _ h; cases h) | (intro _ _ h; cases h) | (intro h; cases h))

/-- walk through a `do` block whose intermediate results carry no needed information: `ih` closes the tail calls of
    the loop, `alw_leaf` the calls of functions with a lemma, results that are not handles are dismissed -/
macro "alw_ih " ih:term : tactic => `(tactic| repeat (first
  | exact Always.trap
  | exact Always.diverge
  | exact $ih
  | alw_leaf
  | exact Always.ret (by alw_no)
  | apply Always.bindT
  | intro _
  | split
  | dsimp only))

/-! #### the slow paths -/

/-- `finishSlowC` always answers `.ok` with the handle `⟨off, _, off + NODE, size⟩` whose `memSize` is the whole
    segment or (after a split) `nodeSize - remaining` -/
theorem always_finishSlow (c : Cfg) (off nodeSize size fuel : Nat) :
    Always (fun r => ∀ m, r = .ok m → m.memOff = off ∧ m.ptrOff = off + NODE ∧ m.ptrSize = size ∧
      (m.memSize = nodeSize ∨ m.memSize = nodeSize - (nodeSize - size)))
      (finishSlowC c off nodeSize size fuel) := by
  unfold finishSlowC
  dsimp only
  refine (always_liftM' _).bind' (fun data hd => ?_)
  have hd := addU32_ok hd
  apply Always.bindT; intro dataEnd
  apply Always.bindT; intro split
  refine Always.bind' (mid := fun ms => ms = nodeSize ∨ ms = nodeSize - (nodeSize - size)) ?_ (fun ms hms => ?_)
  · split
    · apply Always.bindT; intro _; exact .ret (.inr rfl)
    · exact .ret (.inl rfl)
  · apply Always.bindT; intro _
    refine .ret (fun m hm => ?_)
    cases hm
    exact ⟨rfl, hd, rfl, hms⟩

/-- result of a slow path: the handle starts right after the node word of its segment, has the size asked for,
    and the segment's data part is at least that large -/
abbrev SlowPost (size : Nat) : Except Err Meta → Prop :=
  fun r => ∀ m, r = .ok m → m.ptrOff = m.memOff + NODE ∧ m.ptrSize = size ∧ size ≤ m.memSize

theorem finishSlow_post (c : Cfg) (off nodeSize size fuel : Nat) (h : size ≤ nodeSize) :
    Always (SlowPost size) (finishSlowC c off nodeSize size fuel) :=
  (always_finishSlow c off nodeSize size fuel).mono (fun r hr m hm => by
    obtain ⟨h1, h2, h3, h4⟩ := hr m hm
    exact ⟨by omega, h3, by omega⟩)

macro_rules | `(tactic| alw_leaf) => `(tactic| exact finishSlow_post _ _ _ _ _ (by omega))

theorem always_slowOpt (c : Cfg) (size fuel : Nat) : ∀ tries, Always (SlowPost size) (slowOptC c size fuel tries) := by
  intro tries
  induction tries with
  | zero => exact .diverge
  | succ t ih =>
    unfold slowOptC
    alw_ih ih

theorem finishSlow_post' (c : Cfg) (off nodeSize size fuel : Nat) (s : String) :
    Always (SlowPost size) (liftM' (subU s nodeSize size) >>= fun _ => finishSlowC c off nodeSize size fuel) :=
  (always_liftM' _).bind' (fun _ h => finishSlow_post _ _ _ _ _ (subU_ok h).1)

macro_rules | `(tactic| alw_leaf) => `(tactic| exact finishSlow_post' _ _ _ _ _ _)

theorem always_slowPess (c : Cfg) (size fuel : Nat) : ∀ tries, Always (SlowPost size) (slowPessC c size fuel tries) := by
  intro tries
  induction tries with
  | zero => exact .diverge
  | succ t ih =>
    unfold slowPessC
    alw_ih ih

/-- the slow path answers with a handle only if there is a free list -/
abbrev SlowPostK (c : Cfg) (size : Nat) : Except Err Meta → Prop :=
  fun r => ∀ m, r = .ok m → c.kind ≠ .none ∧ m.ptrOff = m.memOff + NODE ∧ m.ptrSize = size ∧ size ≤ m.memSize

theorem always_slowPath (c : Cfg) (size fuel : Nat) : Always (SlowPostK c size) (slowPathC c size fuel) := by
  unfold slowPathC
  split
  · alw_ih Always.diverge
  · rename_i hk
    exact (always_slowOpt c size fuel fuel).mono (fun r hr m hm => ⟨by rw [hk]; nofun, hr m hm⟩)
  · rename_i hk
    exact (always_slowPess c size fuel fuel).mono (fun r hr m hm => ⟨by rw [hk]; nofun, hr m hm⟩)

/-- the retry loop never answers `Ok(None)`; a handle it returns is `post` of a handle of the slow path -/
abbrev RetryPost (c : Cfg) (size : Nat) (post : Meta → M Meta) : Except Err (Option Meta) → Prop :=
  fun r => r ≠ .ok none ∧ ∀ m', r = .ok (some m') → ∃ m, post m = .ok m' ∧ c.kind ≠ .none ∧
    m.ptrOff = m.memOff + NODE ∧ m.ptrSize = size ∧ size ≤ m.memSize

theorem always_retryLoop (c : Cfg) (size fuel : Nat) (post : Meta → M Meta) :
    ∀ n i, Always (RetryPost c size post) (retryLoopC c size fuel post n i) := by
  intro n
  induction n with
  | zero => intro i; exact .diverge
  | succ n ih =>
    intro i
    unfold retryLoopC
    refine (always_slowPath c size fuel).bind' (fun r hr => ?_)
    split
    · refine (always_liftM' _).bind' (fun m' hm' => ?_)
      refine .ret ⟨fun h => (by cases h), fun m'' h => ?_⟩
      cases h
      exact ⟨_, hm', hr _ rfl⟩
    · split
      · exact .ret ⟨fun h => (by cases h), fun _ h => (by cases h)⟩
      · dsimp only
        split
        · exact .ret ⟨fun h => (by cases h), fun _ h => (by cases h)⟩
        · split
          · exact ih _
          · exact .trap

/-! #### the cursor loop -/

/-- the loop returns `(off, wnt)` only after `want off` computed `wnt` (and the CAS `off → wnt` was reported
    successful) -/
theorem always_bumpLoop (fn : String) (want : Nat → M (Option Nat)) :
    ∀ fuel a, Always (fun r => ∀ off wnt, r = some (off, wnt) → want off = .ok (some wnt))
      (bumpLoopC fn want fuel a) := by
  intro fuel
  induction fuel with
  | zero => intro a; exact .diverge
  | succ f ih =>
    intro a
    unfold bumpLoopC
    refine (always_liftM' _).bind' (fun w hw => ?_)
    split
    · exact .ret (fun _ _ h => by cases h)
    · apply Always.bindT
      intro r
      split
      split
      · exact .ret (fun off wnt h => by cases h; exact hw)
      · exact ih _

/-! #### the three entry points -/

theorem ro_false {c : Cfg} (h : ¬ c.ro = true) : c.ro = false := Bool.eq_false_iff.mpr h

/-- `alloc_bytes(n)`: a handle has capacity exactly `n` and is fresh or recycled; `Ok(None)` only for `n = 0`;
    nothing is handed out by a read-only arena -/
def BytesPost (c : Cfg) (cap n : Nat) (r : Except Err (Option Meta)) : Prop :=
  (∀ m, r = .ok (some m) → m.ptrSize = n ∧ Inside c cap m) ∧ (r = .ok none → n = 0) ∧
  (∀ x, r = .ok x → c.ro = false)

theorem post_allocBytes (c : Cfg) (cap n fuel : Nat) : Always (BytesPost c cap n) (allocBytesC c cap n fuel) := by
  unfold allocBytesC
  split
  · exact .ret ⟨fun _ h => (by cases h), fun h => (by cases h), fun _ h => (by cases h)⟩
  rename_i hro
  have hro := ro_false hro
  split
  · rename_i hn
    exact .ret ⟨fun _ h => (by cases h), fun _ => hn, fun _ _ => hro⟩
  rename_i hn
  apply Always.bindT
  intro a0
  refine (always_bumpLoop _ _ fuel a0).bind' (fun r hr => ?_)
  split
  · obtain ⟨h1, h2, h3⟩ := want_bytes hn (hr _ _ rfl)
    dsimp only
    apply Always.bindT
    intro _
    refine .ret ⟨fun m hm => ?_, fun h => (by cases h), fun _ _ => hro⟩
    cases hm
    exact ⟨rfl, .inl ⟨Nat.le_refl _, Nat.le_refl _, by simp only [Meta.new]; omega⟩⟩
  · refine (always_retryLoop c n fuel pure 300 0).mono (fun r hr => ⟨fun m hm => ?_, fun h => absurd h hr.1, fun _ _ => hro⟩)
    obtain ⟨m0, hp, hk, a, b, d⟩ := hr.2 m hm
    cases hp
    exact ⟨b, .inr ⟨hk, by omega, by omega⟩⟩

theorem allocBytes_zero (c : Cfg) (cap fuel : Nat) :
    allocBytesC c cap 0 fuel = if c.ro then pure (.error .readOnly) else pure (.ok none) := by
  unfold allocBytesC
  simp only [if_true]

/-- `alloc::<T>()` -/
def TPost (c : Cfg) (cap ts ta : Nat) (r : Except Err (Option Meta)) : Prop :=
  (∀ m, r = .ok (some m) → m.ptrSize = ts ∧ m.ptrOff % ta = 0 ∧ Inside c cap m) ∧ (r = .ok none → ts = 0) ∧
  (∀ x, r = .ok x → c.ro = false)

theorem post_allocT (c : Cfg) (cap ts ta fuel : Nat) (hta : 0 < ta) :
    Always (TPost c cap ts ta) (allocTC c cap ts ta fuel) := by
  unfold allocTC
  split
  · exact .ret ⟨fun _ h => (by cases h), fun h => (by cases h), fun _ h => (by cases h)⟩
  rename_i hro
  have hro := ro_false hro
  split
  · rename_i hn
    exact .ret ⟨fun _ h => (by cases h), fun _ => hn, fun _ _ => hro⟩
  rename_i hn
  apply Always.bindT
  intro a0
  refine (always_bumpLoop _ _ fuel a0).bind' (fun r hr => ?_)
  split
  · rename_i off wnt
    obtain ⟨o, h1, h2, h3⟩ := want_T (hr _ _ rfl)
    obtain ⟨h4, h5, h6⟩ := align_props hta h1
    refine (always_liftM' _).bind' (fun m hm => ?_)
    obtain ⟨o', h7, h8⟩ := alignTo_ok hm
    have : o' = o := by
      have : alignOffset ta off = .ok o' := h7
      rw [h1] at this; cases this; rfl
    subst this
    subst h8
    apply Always.bindT
    intro _
    refine .ret ⟨fun m hm => ?_, fun h => (by cases h), fun _ _ => hro⟩
    cases hm
    refine ⟨rfl, h6, .inl ?_⟩
    simp only [Fresh, Meta.new]
    omega
  · refine (always_retryLoop c _ fuel _ 300 0).mono (fun r hr => ⟨fun m hm => ?_, fun h => absurd h hr.1, fun _ _ => hro⟩)
    obtain ⟨m0, hp, hk, a, b, d⟩ := hr.2 m hm
    obtain ⟨o, h1, h2⟩ := alignTo_ok hp
    obtain ⟨h4, h5, h6⟩ := align_props hta h1
    subst h2
    refine ⟨rfl, h6, .inr ⟨hk, ?_⟩⟩
    simp only [Recycled, pad] at *
    omega

/-- `alloc_aligned_bytes::<T>(ex)` -/
def APost (c : Cfg) (cap ts ta ex : Nat) (r : Except Err (Option Meta)) : Prop :=
  (∀ m, r = .ok (some m) → m.ptrOff % ta = 0 ∧ ts + ex ≤ m.ptrSize ∧ Inside c cap m) ∧
  (r = .ok none → ts = 0 ∧ ex = 0) ∧ (∀ x, r = .ok x → c.ro = false)

theorem post_allocAligned (c : Cfg) (cap ts ta ex fuel : Nat) (hta : 0 < ta) :
    Always (APost c cap ts ta ex) (allocAlignedC c cap ts ta ex fuel) := by
  unfold allocAlignedC
  split
  · exact .ret ⟨fun _ h => (by cases h), fun h => (by cases h), fun _ h => (by cases h)⟩
  rename_i hro
  have hro := ro_false hro
  split
  · rename_i hs
    obtain ⟨hts, hs⟩ := hs
    subst hts
    rcases hs with hex | hta1
    · subst hex
      rw [allocBytes_zero, hro]
      exact .ret ⟨fun _ h => (by cases h), fun _ => ⟨rfl, rfl⟩, fun _ _ => hro⟩
    · subst hta1
      refine (post_allocBytes c cap ex fuel).mono (fun r hr => ⟨fun m hm => ?_, fun h => ⟨rfl, hr.2.1 h⟩, hr.2.2⟩)
      obtain ⟨h1, h2⟩ := hr.1 m hm
      exact ⟨Nat.mod_one _, by omega, h2⟩
  rename_i hs
  apply Always.bindT
  intro a0
  refine (always_bumpLoop _ _ fuel a0).bind' (fun r hr => ?_)
  split
  · rename_i off wnt
    obtain ⟨o, h1, h2, h3⟩ := want_A (hr _ _ rfl)
    obtain ⟨h4, h5, h6⟩ := align_props hta h1
    refine (always_liftM' _).bind' (fun m hm => ?_)
    obtain ⟨o', h7, h8, h9⟩ := alignBytesTo_ok' hm
    have : o' = o := by
      have : alignOffset ta off = .ok o' := h7
      rw [h1] at this; cases this; rfl
    subst this
    subst h9
    refine .ret ⟨fun m hm => ?_, fun h => (by cases h), fun _ _ => hro⟩
    cases hm
    refine ⟨h6, ?_, .inl ?_⟩
    · simp only [Meta.new] at *; omega
    · simp only [Fresh, Meta.new] at *; omega
  · split
    · apply Always.bindT
      intro _
      exact .ret ⟨fun _ h => (by cases h), fun h => (by cases h), fun _ h => (by cases h)⟩
    · rename_i padded hpad
      have hpad := checkedAdd_ok hpad
      refine (always_retryLoop c _ fuel _ 300 0).mono (fun r hr => ⟨fun m hm => ?_, fun h => absurd h hr.1, fun _ _ => hro⟩)
      obtain ⟨m0, hp, hk, a, b, d⟩ := hr.2 m hm
      obtain ⟨o, h1, h2, h3⟩ := alignBytesTo_ok' hp
      obtain ⟨h4, h5, h6⟩ := align_props hta h1
      subst h3
      refine ⟨h6, ?_, .inr ⟨hk, ?_⟩⟩
      · simp only [pad] at *; omega
      · simp only [Recycled, pad] at *; omega

/-! #### the statements in the form of C03 -/

/-- C03 for `alloc_bytes`, under every environment: capacity exactly `n`; the accessible range starts inside the
    buffer extent and ends at most `NODE` bytes after it (see `Inside` for the exact statement, and the header for
    why the `+ NODE` cannot be dropped) -/
theorem shape_allocBytes (c : Cfg) (cap n fuel : Nat) :
    Always (fun r => ∀ m, r = .ok (some m) → m.ptrSize = n ∧ m.memOff ≤ m.ptrOff ∧
      m.ptrOff + m.ptrSize ≤ m.memOff + m.memSize + NODE) (allocBytesC c cap n fuel) :=
  (post_allocBytes c cap n fuel).mono (fun _ hr m hm => ⟨(hr.1 m hm).1, (hr.1 m hm).2.weak⟩)

theorem shape_allocT (c : Cfg) (cap ts ta fuel : Nat) (hta : 0 < ta) :
    Always (fun r => ∀ m, r = .ok (some m) → m.ptrSize = ts ∧ m.ptrOff % ta = 0 ∧ m.memOff ≤ m.ptrOff ∧
      m.ptrOff + m.ptrSize ≤ m.memOff + m.memSize + NODE) (allocTC c cap ts ta fuel) :=
  (post_allocT c cap ts ta fuel hta).mono (fun _ hr m hm =>
    ⟨(hr.1 m hm).1, (hr.1 m hm).2.1, (hr.1 m hm).2.2.weak⟩)

theorem shape_allocAligned (c : Cfg) (cap ts ta ex fuel : Nat) (hta : 0 < ta) :
    Always (fun r => ∀ m, r = .ok (some m) → m.ptrOff % ta = 0 ∧ ts + ex ≤ m.ptrSize ∧ m.memOff ≤ m.ptrOff ∧
      m.ptrOff + m.ptrSize ≤ m.memOff + m.memSize + NODE) (allocAlignedC c cap ts ta ex fuel) :=
  (post_allocAligned c cap ts ta ex fuel hta).mono (fun _ hr m hm =>
    ⟨(hr.1 m hm).1, (hr.1 m hm).2.1, (hr.1 m hm).2.2.weak⟩)

/-- without a free list every handle is fresh: the accessible range lies inside the buffer extent, which lies below
    the capacity -/
theorem shape_allocBytes_none (c : Cfg) (hk : c.kind = .none) (cap n fuel : Nat) :
    Always (fun r => ∀ m, r = .ok (some m) → m.ptrSize = n ∧ m.memOff ≤ m.ptrOff ∧
      m.ptrOff + m.ptrSize ≤ m.memOff + m.memSize ∧ m.memOff + m.memSize ≤ cap) (allocBytesC c cap n fuel) :=
  (post_allocBytes c cap n fuel).mono (fun _ hr m hm => ⟨(hr.1 m hm).1, (hr.1 m hm).2.of_none hk⟩)

theorem shape_allocT_none (c : Cfg) (hk : c.kind = .none) (cap ts ta fuel : Nat) (hta : 0 < ta) :
    Always (fun r => ∀ m, r = .ok (some m) → m.ptrSize = ts ∧ m.ptrOff % ta = 0 ∧ m.memOff ≤ m.ptrOff ∧
      m.ptrOff + m.ptrSize ≤ m.memOff + m.memSize ∧ m.memOff + m.memSize ≤ cap) (allocTC c cap ts ta fuel) :=
  (post_allocT c cap ts ta fuel hta).mono (fun _ hr m hm =>
    ⟨(hr.1 m hm).1, (hr.1 m hm).2.1, (hr.1 m hm).2.2.of_none hk⟩)

theorem shape_allocAligned_none (c : Cfg) (hk : c.kind = .none) (cap ts ta ex fuel : Nat) (hta : 0 < ta) :
    Always (fun r => ∀ m, r = .ok (some m) → m.ptrOff % ta = 0 ∧ ts + ex ≤ m.ptrSize ∧ m.memOff ≤ m.ptrOff ∧
      m.ptrOff + m.ptrSize ≤ m.memOff + m.memSize ∧ m.memOff + m.memSize ≤ cap)
      (allocAlignedC c cap ts ta ex fuel) :=
  (post_allocAligned c cap ts ta ex fuel hta).mono (fun _ hr m hm =>
    ⟨(hr.1 m hm).1, (hr.1 m hm).2.1, (hr.1 m hm).2.2.of_none hk⟩)

/-- `Ok(None)` is the answer to zero-size requests only -/
theorem none_only_zero (c : Cfg) (cap fuel : Nat) :
    (∀ n, Always (fun r => r = .ok none → n = 0) (allocBytesC c cap n fuel)) ∧
    (∀ ts ta, 0 < ta → Always (fun r => r = .ok none → ts = 0) (allocTC c cap ts ta fuel)) ∧
    (∀ ts ta ex, 0 < ta → Always (fun r => r = .ok none → ts = 0 ∧ ex = 0) (allocAlignedC c cap ts ta ex fuel)) :=
  ⟨fun n => (post_allocBytes c cap n fuel).mono (fun _ h => h.2.1),
   fun ts ta h => (post_allocT c cap ts ta fuel h).mono (fun _ h => h.2.1),
   fun ts ta ex h => (post_allocAligned c cap ts ta ex fuel h).mono (fun _ h => h.2.1)⟩

/-! ### 3. the machine -/

open Rarena.Conc.Disc (tstepE toProg)

theorem settle_always {α : Type} {post : α → Prop} : ∀ (fuel : Nat) (sh : Shared) (p : Prog α) (nas : List NA),
    Always post p → Always post (toProg (settle fuel sh p nas).2.1)
  | 0, _, _, _, _ => .diverge
  | f + 1, sh, p, nas, h => by
    cases h with
    | ret h => exact .ret h
    | trap => exact .trap
    | diverge => exact .diverge
    | load h => exact .load h
    | store h => exact .store h
    | cas h => exact .cas h
    | rmw h => exact .rmw h
    | @na e k h =>
      simp only [settle]
      rcases ha : sh.applyNA e with fl | sh'
      · rcases fl with s | _
        · exact .trap
        · exact .diverge
      · exact settle_always f sh' (k ()) (nas ++ [e]) h

/-- whatever value the machine feeds into the continuation, the continuation is covered -/
theorem stepAccess_always {α : Type} {post : α → Prop} {sh sh2 : Shared} {p p2 : Prog α} {sp : Bool} {ev : Event}
    (h : Always post p) (hs : stepAccess sh p sp = .ok (sh2, p2, ev)) : Always post p2 := by
  cases h with
  | ret a => simp [stepAccess, throw, throwThe, MonadExceptOf.throw] at hs
  | trap => simp [stepAccess, throw, throwThe, MonadExceptOf.throw] at hs
  | diverge => simp [stepAccess, throw, throwThe, MonadExceptOf.throw] at hs
  | na h => simp [stepAccess, throw, throwThe, MonadExceptOf.throw] at hs
  | load h =>
    simp only [stepAccess, bind, Except.bind, pure, Except.pure] at hs
    split at hs
    · cases hs
    · cases hs; exact h _
  | store h =>
    simp only [stepAccess, bind, Except.bind, pure, Except.pure] at hs
    split at hs
    · cases hs
    · split at hs
      · cases hs
      · cases hs; exact h
  | cas h =>
    simp only [stepAccess, bind, Except.bind, pure, Except.pure] at hs
    split at hs
    · cases hs
    · split at hs
      · cases hs; exact h _
      · split at hs
        · split at hs
          · cases hs
          · cases hs; exact h _
        · cases hs; exact h _
  | rmw h =>
    simp only [stepAccess, bind, Except.bind, pure, Except.pure] at hs
    split at hs
    · cases hs
    · split at hs
      · cases hs
      · cases hs; exact h _

theorem tstepE_always {α : Type} {post : α → Prop} (sh : Shared) (p : Prog α) (sp : Bool) (h : Always post p) :
    Always post (tstepE sh p sp).2.1 := by
  unfold tstepE
  have h2 := settle_always 100000 sh p [] h
  rcases hs : settle 100000 sh p [] with ⟨sh1, s, nas⟩
  rw [hs] at h2
  rcases s with a | fl | p1
  · exact h2
  · exact h2
  · dsimp only
    rcases ha : stepAccess sh1 p1 sp with (s | _) | ⟨sh2, p2, e⟩
    · exact .trap
    · exact .diverge
    · exact settle_always 100000 sh2 p2 [] (stepAccess_always h2 ha)

/-- thread `i` is covered by `posts i` -/
def Covered {α : Type} (posts : Nat → α → Prop) (ts : List (Prog α)) : Prop :=
  ∀ i p, ts[i]? = some p → Always (posts i) p

/-- PER STEP: `Always` is preserved for every thread by `Global.step` -/
theorem step_always {α : Type} (posts : Nat → α → Prop) (g : Global α) (tid : Nat) (sp : Bool)
    (h : Covered posts g.threads) : Covered posts (g.step tid sp).1.threads := by
  rcases hp : g.threads[tid]? with _ | p
  · rw [Disc.step_none g tid sp hp]; exact h
  · rw [Disc.step_some g tid sp p hp]
    intro i q hq
    dsimp only at hq
    by_cases hi : tid = i
    · subst hi
      obtain ⟨hlt, _⟩ := List.getElem?_eq_some_iff.mp hp
      rw [List.getElem?_set_self hlt] at hq
      cases hq
      exact tstepE_always g.sh p sp (h tid p hp)
    · rw [List.getElem?_set_ne hi] at hq
      exact h i q hq

theorem run_always {α : Type} (posts : Nat → α → Prop) : ∀ (sched : List (Nat × Bool)) (g : Global α),
    Covered posts g.threads → Covered posts (g.run sched).1.threads
  | [], _, h => h
  | (tid, sp) :: rest, g, h => by
    simp only [Global.run]
    exact run_always posts rest (g.step tid sp).1 (step_always posts g tid sp h)

/-- LIFTING. A machine whose thread `i` starts with a program covered by `posts i` (for every `i`): after ANY
    schedule (any interleaving, any spurious failures of the weak CAS), from any shared state, a thread that has
    returned `a` has `posts i a` -/
theorem always_run {α : Type} (posts : Nat → α → Prop) (g : Global α) (h : Covered posts g.threads)
    (sched : List (Nat × Bool)) (i : Nat) (a : α) (hi : (g.run sched).1.threads[i]? = some (.ret a)) : posts i a := by
  have := run_always posts sched g h i _ hi
  cases this with | ret h => exact h

/-- the same for one distinguished thread (the others are arbitrary programs) -/
theorem always_run_thread {α : Type} (post : α → Prop) (g : Global α) (i : Nat) (p : Prog α)
    (hp : g.threads[i]? = some p) (h : Always post p) (sched : List (Nat × Bool)) (a : α)
    (hi : (g.run sched).1.threads[i]? = some (.ret a)) : post a := by
  refine always_run (fun j b => j = i → post b) g (fun j q hq => ?_) sched i a hi rfl
  by_cases hj : j = i
  · subst hj
    rw [hp] at hq
    cases hq
    exact h.mono (fun _ hb _ => hb)
  · exact (always_true q).mono (fun _ _ hji => absurd hji hj)

/-- the same with one post-condition for all threads, read off `Global.results` -/
theorem always_results {α : Type} (post : α → Prop) (g : Global α) (h : ∀ p ∈ g.threads, Always post p)
    (sched : List (Nat × Bool)) : ∀ a ∈ (g.run sched).1.results.filterMap id, post a := by
  intro a ha
  obtain ⟨oa, h1, h2⟩ := List.mem_filterMap.mp ha
  cases h2
  obtain ⟨p, h3, h4⟩ := List.mem_map.mp h1
  obtain ⟨i, h5⟩ := List.mem_iff_getElem?.mp h3
  have hp : p = .ret a := by
    cases p with
    | ret b => cases h4; rfl
    | _ => cases h4
  subst hp
  exact always_run (fun _ => post) g (fun j q hq => h q (List.mem_of_getElem? hq)) sched i a h5

/-! ### 3b. threads that run allocation requests (and releases) -/

/-- an allocation request -/
inductive Req where
  | bytes (n : Nat)
  | typed (ts ta : Nat)
  | aligned (ts ta ex : Nat)
  deriving Repr, DecidableEq

/-- the only requirement on a request: its alignment is not 0 -/
def Req.ok : Req → Prop
  | .bytes _ => True
  | .typed _ ta => 0 < ta
  | .aligned _ ta _ => 0 < ta

instance : (q : Req) → Decidable q.ok
  | .bytes _ => isTrue trivial
  | .typed _ ta => inferInstanceAs (Decidable (0 < ta))
  | .aligned _ ta _ => inferInstanceAs (Decidable (0 < ta))

def Req.run (c : Cfg) (cap fuel : Nat) : Req → Prog (Except Err (Option Meta))
  | .bytes n => allocBytesC c cap n fuel
  | .typed ts ta => allocTC c cap ts ta fuel
  | .aligned ts ta ex => allocAlignedC c cap ts ta ex fuel

/-- the handle has the shape C03 promises for the request -/
def Req.meets (c : Cfg) (cap : Nat) : Req → Meta → Prop
  | .bytes n, m => m.ptrSize = n ∧ Inside c cap m
  | .typed ts ta, m => m.ptrSize = ts ∧ m.ptrOff % ta = 0 ∧ Inside c cap m
  | .aligned ts ta ex, m => m.ptrOff % ta = 0 ∧ ts + ex ≤ m.ptrSize ∧ Inside c cap m

/-- the request is a zero-size request (the only ones answered `Ok(None)`) -/
def Req.zero : Req → Prop
  | .bytes n => n = 0
  | .typed ts _ => ts = 0
  | .aligned ts _ ex => ts = 0 ∧ ex = 0

/-- the part of `meets` that does not mention the configuration -/
def Req.meetsWeak : Req → Meta → Prop
  | .bytes n, m => m.ptrSize = n ∧ m.memOff ≤ m.ptrOff ∧ m.ptrOff + m.ptrSize ≤ m.memOff + m.memSize + NODE
  | .typed ts ta, m => m.ptrSize = ts ∧ m.ptrOff % ta = 0 ∧ m.memOff ≤ m.ptrOff ∧
      m.ptrOff + m.ptrSize ≤ m.memOff + m.memSize + NODE
  | .aligned ts ta ex, m => m.ptrOff % ta = 0 ∧ ts + ex ≤ m.ptrSize ∧ m.memOff ≤ m.ptrOff ∧
      m.ptrOff + m.ptrSize ≤ m.memOff + m.memSize + NODE

theorem Req.meets.weak {c : Cfg} {cap : Nat} {q : Req} {m : Meta} (h : q.meets c cap m) : q.meetsWeak m := by
  cases q with
  | bytes n => exact ⟨h.1, h.2.weak⟩
  | typed ts ta => exact ⟨h.1, h.2.1, h.2.2.weak⟩
  | aligned ts ta ex => exact ⟨h.1, h.2.1, h.2.2.weak⟩

/-- what a request returns, under every environment -/
def ReqPost (c : Cfg) (cap : Nat) (q : Req) (r : Except Err (Option Meta)) : Prop :=
  (∀ m, r = .ok (some m) → q.meets c cap m) ∧ (r = .ok none → q.zero) ∧ (∀ x, r = .ok x → c.ro = false)

theorem always_req (c : Cfg) (cap fuel : Nat) (q : Req) (hq : q.ok) : Always (ReqPost c cap q) (q.run c cap fuel) := by
  cases q with
  | bytes n => exact post_allocBytes c cap n fuel
  | typed ts ta => exact post_allocT c cap ts ta fuel hq
  | aligned ts ta ex => exact post_allocAligned c cap ts ta ex fuel hq

/-- what a thread does: requests, releases of earlier results, and the two other mutators of the free list /
    the `discarded` counter -/
inductive Act where
  | req (q : Req)
  /-- `Drop` of the handle that this thread's `k`-th request returned: `dealloc(memory_offset, memory_size)`
      (nothing if that request returned no handle; releasing the same handle twice is NOT excluded) -/
  | release (k : Nat)
  | discardFreelist
  | incDiscarded (n : Nat)
  deriving Repr, DecidableEq

def Act.ok : Act → Prop
  | .req q => q.ok
  | _ => True

instance : (a : Act) → Decidable a.ok
  | .req q => inferInstanceAs (Decidable q.ok)
  | .release _ => isTrue trivial
  | .discardFreelist => isTrue trivial
  | .incDiscarded _ => isTrue trivial

abbrev Res := Req × Except Err (Option Meta)

/-- a thread that performs `acts` one after the other and returns the list of `(request, result)` pairs -/
def actProg (c : Cfg) (cap fuel : Nat) : List Act → List Res → Prog (List Res)
  | [], acc => pure acc
  | .req q :: rest, acc => do
    let r ← q.run c cap fuel
    actProg c cap fuel rest (acc ++ [(q, r)])
  | .release k :: rest, acc =>
    match acc[k]? with
    | some (_, .ok (some m)) => do
      let _ ← deallocC c m.memOff m.memSize fuel
      actProg c cap fuel rest acc
    | _ => actProg c cap fuel rest acc
  | .discardFreelist :: rest, acc => do
    let _ ← discardFreelistC c fuel
    actProg c cap fuel rest acc
  | .incDiscarded n :: rest, acc => do
    incDiscardedC c n
    actProg c cap fuel rest acc

/-- a thread that only allocates -/
def reqProg (c : Cfg) (cap fuel : Nat) (qs : List Req) : Prog (List Res) := actProg c cap fuel (qs.map .req) []

/-- an ADAPTIVE client: the next action is any function of the results obtained so far; at most `n` actions -/
def clientProg (c : Cfg) (cap fuel : Nat) (next : List Res → Option Act) : Nat → List Res → Prog (List Res)
  | 0, acc => pure acc
  | n + 1, acc =>
    match next acc with
    | none => pure acc
    | some a => do
      let acc' ← actProg c cap fuel [a] acc
      clientProg c cap fuel next n acc'

/-- every result of the list has the shape of its request -/
def ResOK (c : Cfg) (cap : Nat) (res : List Res) : Prop := ∀ x ∈ res, ReqPost c cap x.1 x.2

theorem always_actProg (c : Cfg) (cap fuel : Nat) : ∀ (acts : List Act), (∀ a ∈ acts, a.ok) → ∀ acc, ResOK c cap acc →
    Always (ResOK c cap) (actProg c cap fuel acts acc) := by
  intro acts
  induction acts with
  | nil => intro _ acc hacc; exact .ret hacc
  | cons a rest ih =>
    intro hok acc hacc
    have hrest : ∀ a ∈ rest, a.ok := fun b hb => hok b (List.mem_cons_of_mem _ hb)
    cases a with
    | req q =>
      unfold actProg
      refine (always_req c cap fuel q (hok _ List.mem_cons_self)).bind' (fun r hr => ?_)
      refine ih hrest _ (fun x hx => ?_)
      rcases List.mem_append.mp hx with hx | hx
      · exact hacc x hx
      · cases List.mem_singleton.mp hx
        exact hr
    | release k =>
      unfold actProg
      split
      · exact Always.bindT (fun _ => ih hrest acc hacc)
      · exact ih hrest acc hacc
    | discardFreelist =>
      unfold actProg
      exact Always.bindT (fun _ => ih hrest acc hacc)
    | incDiscarded n =>
      unfold actProg
      exact Always.bindT (fun _ => ih hrest acc hacc)

theorem always_reqProg (c : Cfg) (cap fuel : Nat) (qs : List Req) (hok : ∀ q ∈ qs, q.ok) :
    Always (ResOK c cap) (reqProg c cap fuel qs) :=
  always_actProg c cap fuel _ (fun a ha => by
    obtain ⟨q, hq, rfl⟩ := List.mem_map.mp ha
    exact hok q hq) [] (fun _ h => by cases h)

theorem always_clientProg (c : Cfg) (cap fuel : Nat) (next : List Res → Option Act) (hnext : ∀ acc a, next acc = some a → a.ok) :
    ∀ n acc, ResOK c cap acc → Always (ResOK c cap) (clientProg c cap fuel next n acc) := by
  intro n
  induction n with
  | zero => intro acc hacc; exact .ret hacc
  | succ n ih =>
    intro acc hacc
    unfold clientProg
    split
    · exact .ret hacc
    · rename_i a ha
      refine (always_actProg c cap fuel [a] (fun b hb => ?_) acc hacc).bind' (fun acc' h' => ih acc' h')
      cases List.mem_singleton.mp hb
      exact hnext acc a ha

/-! ### 4. the main theorems -/

/-- MAIN THEOREM. Any configuration (every free-list kind, read-only or not), any initial shared state (no invariant
    is assumed: the memory, the free list, the cursor may contain anything), any number of threads each performing
    any list of requests / releases / `discard_freelist` / `increase_discarded`, any fuel, any schedule with any
    spurious failures of the weak CAS: every handle that a finished thread obtained meets its request — from fresh
    space or from a recycled segment; `Ok(None)` was answered to zero-size requests only; nothing was handed out by a
    read-only arena. -/
theorem shape_under_any_schedule_acts (c : Cfg) (sh : Shared) (fuel : Nat) (progs : List (List Act))
    (hok : ∀ acts ∈ progs, ∀ a ∈ acts, a.ok) (sched : List (Nat × Bool)) :
    let g := (Global.run ⟨sh, progs.map (fun acts => actProg c sh.st.cap fuel acts [])⟩ sched).1
    ∀ res ∈ g.results.filterMap id, ∀ q r, (q, r) ∈ res →
      (∀ m, r = .ok (some m) → q.meets c sh.st.cap m) ∧ (r = .ok none → q.zero) ∧ (∀ x, r = .ok x → c.ro = false) := by
  intro g res hres q r hqr
  have := always_results (ResOK c sh.st.cap) ⟨sh, progs.map (fun acts => actProg c sh.st.cap fuel acts [])⟩
    (fun p hp => by
      obtain ⟨acts, ha, rfl⟩ := List.mem_map.mp hp
      exact always_actProg c sh.st.cap fuel acts (hok acts ha) [] (fun _ h => by cases h)) sched res hres
  exact this (q, r) hqr

/-- the statement for threads that only allocate -/
theorem shape_under_any_schedule (c : Cfg) (sh : Shared) (fuel : Nat) (progs : List (List Req))
    (hok : ∀ qs ∈ progs, ∀ q ∈ qs, q.ok) (sched : List (Nat × Bool)) :
    let g := (Global.run ⟨sh, progs.map (reqProg c sh.st.cap fuel)⟩ sched).1
    ∀ res ∈ g.results.filterMap id, ∀ q r, (q, r) ∈ res → ∀ m, r = .ok (some m) → q.meets c sh.st.cap m := by
  intro g res hres q r hqr
  have := always_results (ResOK c sh.st.cap) ⟨sh, progs.map (reqProg c sh.st.cap fuel)⟩
    (fun p hp => by
      obtain ⟨qs, ha, rfl⟩ := List.mem_map.mp hp
      exact always_reqProg c sh.st.cap fuel qs (hok qs ha)) sched res hres
  exact (this (q, r) hqr).1

/-- the statement for adaptive clients (each thread: a strategy and a bound on the number of actions) -/
theorem shape_under_any_schedule_clients (c : Cfg) (sh : Shared) (fuel : Nat)
    (clients : List ((List Res → Option Act) × Nat)) (hok : ∀ cl ∈ clients, ∀ acc a, cl.1 acc = some a → a.ok)
    (sched : List (Nat × Bool)) :
    let g := (Global.run ⟨sh, clients.map (fun cl => clientProg c sh.st.cap fuel cl.1 cl.2 [])⟩ sched).1
    ∀ res ∈ g.results.filterMap id, ∀ q r, (q, r) ∈ res →
      (∀ m, r = .ok (some m) → q.meets c sh.st.cap m) ∧ (r = .ok none → q.zero) ∧ (∀ x, r = .ok x → c.ro = false) := by
  intro g res hres q r hqr
  have := always_results (ResOK c sh.st.cap) ⟨sh, clients.map (fun cl => clientProg c sh.st.cap fuel cl.1 cl.2 [])⟩
    (fun p hp => by
      obtain ⟨cl, ha, rfl⟩ := List.mem_map.mp hp
      exact always_clientProg c sh.st.cap fuel cl.1 (hok cl ha) cl.2 [] (fun _ h => by cases h)) sched res hres
  exact this (q, r) hqr

/-! ### 5. non-vacuity, and the two things the statement cannot contain -/

namespace Example

def cfgO : Cfg := { sync := true, kind := .opt, ro := false, retries := 3, dataOffset := 16, reserved := 0, unify := false }

/-- a fresh arena of 48 bytes with `Freelist::Optimistic`, data from offset 16, minimum segment size 8 -/
def sh0 : Shared :=
  { st := { mem := Array.replicate 48 0, sentinel := SENTINEL_WORD, allocated := 16, minSeg := 8, discarded := 0 }, refs := 2 }

def g0 (a b : List Act) : Global (List Res) := ⟨sh0, [actProg cfgO 48 4 a [], actProg cfgO 48 4 b []]⟩

/-- thread 0 allocates (2 accesses), thread 1 allocates (2 accesses) — the arena is now full —, then thread 0
    releases its handle (the cursor CAS fails, the segment is linked into the free list: 6 accesses) and allocates
    again (1 load of the cursor, then 4 accesses of `alloc_slow_path_optimistic`) -/
def sched : List (Nat × Bool) := [0, 0, 1, 1, 0, 0, 0, 0, 0, 0, 0, 0, 0, 0, 0].map (fun t => (t, false))

def handleOf : Except Err (Option Meta) → Option Meta
  | .ok (some m) => some m
  | _ => none

/-- the handles of the finished threads -/
def handles (g : Global (List Res)) : List (Option (List (Option Meta))) :=
  g.results.map (Option.map (List.map (fun x => handleOf x.2)))

/-- the accesses of `alloc_slow_path_optimistic` in the trace -/
def slowSteps (evs : List (Nat × Event)) : Nat :=
  (evs.filter (fun x => x.2.site.fn == "alloc_slow_path_optimistic")).length

def actsT : List Act := [.req (.bytes 24), .release 0, .req (.typed 8 8)]
def actsB : List Act := [.req (.bytes 24), .release 0, .req (.bytes 16)]
def acts1 : List Act := [.req (.bytes 8)]

/-- a typed allocation served by the SLOW path: thread 0 obtains `[16, 40)`, thread 1 `[40, 48)`; thread 0's release
    turns `[16, 40)` into a segment (node word at 16, 16 data bytes from 24); `alloc::<T>()` with size 8 / alignment 8
    does not fit above the cursor and is cut from that segment: offset 24, capacity 8 -/
example : handles ((g0 actsT acts1).run sched).1 =
      [some [some ⟨16, 24, 16, 24⟩, some ⟨16, 16, 24, 8⟩], some [some ⟨40, 8, 40, 8⟩]] ∧
    slowSteps ((g0 actsT acts1).run sched).2 = 4 := by decide

/-- ... and it meets its request (a decidable rendering of `Req.meets` for this handle: recycled) -/
example : (⟨16, 16, 24, 8⟩ : Meta).ptrSize = 8 ∧ (⟨16, 16, 24, 8⟩ : Meta).ptrOff % 8 = 0 ∧
    Recycled ⟨16, 16, 24, 8⟩ := by
  unfold Recycled NODE; decide

/-- what the main theorem says about this run -/
example : ∀ res ∈ ((g0 actsT acts1).run sched).1.results.filterMap id, ∀ q r, (q, r) ∈ res →
    ∀ m, r = .ok (some m) → q.meets cfgO 48 m := fun res hres q r hqr =>
  (shape_under_any_schedule_acts cfgO sh0 4 [actsT, acts1] (by decide) sched res hres q r hqr).1

/-- FIRST LIMIT (not a matter of the environment: it happens in this run, from a fresh arena, by API calls only).
    `alloc_bytes(16)` served from the same segment returns `memory_offset = 16`, `memory_size = 16`, `ptr_offset = 24`,
    `ptr_size = 16`: the accessible range `[24, 40)` ends 8 bytes AFTER the buffer extent `[16, 32)`. Hence
    `ptrOff + ptrSize ≤ memOff + memSize` is false for recycled handles and the theorems state `Recycled` (the range
    lies in the DATA part `[memOff + 8, memOff + 8 + memSize)` of the segment) resp. `… ≤ memOff + memSize + NODE`. -/
example : handles ((g0 actsB acts1).run sched).1 =
      [some [some ⟨16, 24, 16, 24⟩, some ⟨16, 16, 24, 16⟩], some [some ⟨40, 8, 40, 8⟩]] ∧
    slowSteps ((g0 actsB acts1).run sched).2 = 4 ∧
    ¬ ((⟨16, 16, 24, 16⟩ : Meta).ptrOff + (⟨16, 16, 24, 16⟩ : Meta).ptrSize ≤
        (⟨16, 16, 24, 16⟩ : Meta).memOff + (⟨16, 16, 24, 16⟩ : Meta).memSize) := by decide

/-- SECOND LIMIT (this one IS a matter of the environment). A shared state whose free list holds a node at 16 that
    claims 1000 data bytes (in an arena of 48 bytes; cursor at the capacity, minimum segment size 2000 so that nothing
    is split off): `alloc_bytes(8)` returns the handle `⟨16, 1000, 24, 8⟩`. It has the promised shape (capacity 8,
    `Recycled`), but its buffer extent is not inside the arena: "recycled handles lie below the capacity" depends on
    what the loads return, and is not part of an environment-independent statement (`Fresh` handles do lie below
    the capacity: the code compares with the capacity before the cursor CAS). -/
def shBad : Shared :=
  { st := { mem := Mem.writeWord (Array.replicate 48 0) 16 (enc 1000 MAXU32), sentinel := enc MAXU32 16,
            allocated := 48, minSeg := 2000, discarded := 0 }, refs := 1 }

example : handles ((Global.run ⟨shBad, [reqProg cfgO 48 4 [.bytes 8]]⟩ ([0, 0, 0, 0, 0, 0].map (fun t => (t, false)))).1) =
    [some [some ⟨16, 1000, 24, 8⟩]] := by decide

/-- the two limits as statements about `Always` (via the lifting theorem, read backwards: a post-condition that a run
    of the machine violates is not an `Always` post-condition). One thread suffices for the first. -/
def actsS : List Act := [.req (.bytes 24), .req (.bytes 8), .release 0, .req (.bytes 16)]

def allHandles (p : Meta → Bool) (res : List Res) : Bool :=
  res.all (fun x => match handleOf x.2 with | some m => p m | none => true)

example : ¬ Always (fun res => allHandles (fun m => decide (m.ptrOff + m.ptrSize ≤ m.memOff + m.memSize)) res = true)
    (actProg cfgO 48 4 actsS []) := fun h =>
  absurd (always_results _ ⟨sh0, [actProg cfgO 48 4 actsS []]⟩
    (fun p hp => by cases List.mem_singleton.mp hp; exact h) (List.replicate 15 (0, false))) (by decide)

example : ¬ Always (fun res => allHandles (fun m => decide (m.memOff + m.memSize ≤ 48 + NODE)) res = true)
    (reqProg cfgO 48 4 [.bytes 8]) := fun h =>
  absurd (always_results _ ⟨shBad, [reqProg cfgO 48 4 [.bytes 8]]⟩
    (fun p hp => by cases List.mem_singleton.mp hp; exact h) (List.replicate 6 (0, false))) (by decide)

end Example

end Rarena.Conc.Shape
