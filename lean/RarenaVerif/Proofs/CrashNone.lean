/-
  Proofs.CrashNone — property C06 (crash recovery) for `Freelist::None` UNDER CONCURRENCY.

  Setting (that of `Proofs/ConcNone.lean`): any number of threads run arbitrary programs of allocations
  (`alloc_bytes`, `alloc_aligned_bytes`, typed `alloc`) and releases of their own handles (`noneProg`) on a writable
  arena with `Freelist::None`, under ANY schedule of the atomic-step machine `Model/Conc.lean` (spurious failures of
  the weak CAS included). The arena may already hold live allocations `lives0` made before the threads start (they
  are never released by the threads). The initial state satisfies the concrete invariant of the sequential world,
  `CInv c sh.st [] lives0` (`Proofs/RefineDefs.lean`), and is a well-formed file (`C05.WellFormedFile`).

  Result: if the process is killed in ANY global state `g` reachable by `Global.run`, the memory image `g.sh.st`
    * satisfies `CInv c g.sh.st [] (lives0 ++ owns ghs)`, where `owns ghs` are the extents held by the threads at that
      moment (ghost state of `ConcNone`: reserved and not yet released, a release counts from its first access on)
      — `none_crash_cinv`;
    * is a well-formed file — `none_crash_wellformed`;
    * hence (`C06.boundary`) reopens writable with the same cursor, the same bytes below the cursor and `CInv` for the
      same live set; the bytes of `lives0` are those of the initial state — `none_crash_reopens`;
    * `C06.later_ops_terminate` applies to the crashed state and to the reopened state — `none_crash_later_ops`,
      `none_crash_reopened_later_ops`;
    * no step of any thread changes a byte below the cursor as it was before the step: every extent of `lives0` and
      every extent held by any thread keeps its bytes across the step — `none_crash_live_intact`,
      `none_step_below_cursor_intact`.
  Granularity: the machine executes the zero-fill that follows a won cursor CAS together with that CAS. Images taken in
  the middle of such a zero-fill (or while clients write into their handles) are covered by `none_crash_any_bytes`:
  the conclusions hold for EVERY memory of the same size that agrees with the crashed state below `dataOffset`
  (for `Freelist::None` the invariant does not constrain a single byte of the data area).

  What the proof adds to `ConcNone.NInv`: `NInv` speaks about the cursor, the capacity, the ghost extents and the
  `discarded` accounting. `CInv` also needs the sentinel word, the minimum segment size, `discarded < 2^32` and (for
  `WellFormedFile`) the sanity bytes. `MFrame`/`tstep_frame` show that one `Global.step` of a typed thread leaves
  sentinel, minimum segment size and memory size alone, keeps `discarded` below 2^32 (the `fetch_add` wraps), and
  changes bytes only inside `[old cursor, new cursor)`. `CrashInv` = `NInv` + these facts is preserved by every step.
  About `WF.disc`: `WF` only demands `discarded < 2^32` (no exact relation to the abstract history), so no weakening
  is needed; the exact accounting mod 2^32 is the `acct` field of the `NInv` delivered alongside.
-/
import RarenaVerif.Proofs.ConcNone
import RarenaVerif.Props.C06

namespace Rarena.Conc.NoneFL

open Rarena Rarena.Conc

/-! ### what a typed thread may do to the parts of the state `NInv` does not mention -/

/-- effect of the non-atomic code of a typed thread with freshness `fr`: the header is untouched, the memory keeps
    its size, bytes change only inside the fresh extent (not at all if there is none) -/
structure MFrame (fr : Option Ext) (sh sh' : Shared) : Prop where
  sent : sh'.st.sentinel = sh.st.sentinel
  minSeg : sh'.st.minSeg = sh.st.minSeg
  alloc : sh'.st.allocated = sh.st.allocated
  disc : sh'.st.discarded = sh.st.discarded
  size : sh'.st.mem.size = sh.st.mem.size
  mem : ∀ i, (∀ x, fr = some x → i < x.1 ∨ x.2 ≤ i) → sh'.st.mem.rd i = sh.st.mem.rd i

theorem MFrame.refl (fr : Option Ext) (sh : Shared) : MFrame fr sh sh :=
  ⟨rfl, rfl, rfl, rfl, rfl, fun _ _ => rfl⟩

theorem MFrame.trans {fr : Option Ext} {a b c : Shared} (h1 : MFrame fr a b) (h2 : MFrame fr b c) : MFrame fr a c :=
  ⟨h2.sent.trans h1.sent, h2.minSeg.trans h1.minSeg, h2.alloc.trans h1.alloc, h2.disc.trans h1.disc,
    h2.size.trans h1.size, fun i hi => (h2.mem i hi).trans (h1.mem i hi)⟩

theorem applyNA_zero_mframe {sh sh' : Shared} {off len : Nat} {x : Ext} (h : sh.applyNA (.zero off len) = .ok sh')
    (h1 : x.1 ≤ off) (h2 : off + len ≤ x.2) : MFrame (some x) sh sh' := by
  simp only [Shared.applyNA, bind, Except.bind, pure, Except.pure] at h
  split at h
  · cases h
  · rename_i mem' hz
    cases h
    unfold Mem.zero? at hz
    split at hz
    · simp only [pure, Except.pure, Except.ok.injEq] at hz
      subst hz
      refine ⟨rfl, rfl, rfl, rfl, Mem.size_zero _ _ _, fun i hi => ?_⟩
      have := hi x rfl
      exact Mem.rd_zero_out _ _ _ _ (by omega)
    · cases hz

/-- the non-atomic prefix of a typed program only zero-fills inside the fresh extent -/
theorem settle_mframe {α : Type} {cap : Nat} {post : Gh → Option Ext → α → Prop} :
    ∀ (fuel : Nat) (sh : Shared) (p : Prog α) (nas : List NA) (γ : Gh) (fr : Option Ext), Holds cap post γ fr p →
      MFrame fr sh (settle fuel sh p nas).1
  | 0, sh, p, nas, γ, fr, _ => MFrame.refl _ _
  | f + 1, sh, p, nas, γ, fr, h => by
    cases h with
    | ret h => exact MFrame.refl _ _
    | trap => exact MFrame.refl _ _
    | diverge => exact MFrame.refl _ _
    | load h => exact MFrame.refl _ _
    | casAlloc h1 h2 h3 h4 => exact MFrame.refl _ _
    | casRel h1 h2 h3 h4 => exact MFrame.refl _ _
    | faaDisc h1 h2 h3 => exact MFrame.refl _ _
    | @naZero _ x off len k hin1 hin2 h =>
      simp only [settle]
      rcases ha : sh.applyNA (.zero off len) with fl | sh'
      · exact MFrame.refl _ _
      · exact (applyNA_zero_mframe ha hin1 hin2).trans (settle_mframe f sh' (k ()) (nas ++ [.zero off len]) γ (some x) h)

/-- an atomic access of a typed program writes the cursor or the `discarded` counter only; the counter stays a `u32` -/
theorem stepAccess_hdr {α : Type} {cap : Nat} {post : Gh → Option Ext → α → Prop} {γ : Gh} {fr : Option Ext}
    {sh sh2 : Shared} {p p2 : Prog α} {sp : Bool} {ev : Event} (h : Holds cap post γ fr p)
    (hs : stepAccess sh p sp = .ok (sh2, p2, ev)) :
    sh2.st.mem = sh.st.mem ∧ sh2.st.sentinel = sh.st.sentinel ∧ sh2.st.minSeg = sh.st.minSeg ∧
      (sh2.st.discarded = sh.st.discarded ∨ sh2.st.discarded < TWO32) := by
  cases h with
  | ret h => simp [stepAccess, throw, throwThe, MonadExceptOf.throw] at hs
  | trap => simp [stepAccess, throw, throwThe, MonadExceptOf.throw] at hs
  | diverge => simp [stepAccess, throw, throwThe, MonadExceptOf.throw] at hs
  | naZero _ _ h => simp [stepAccess, throw, throwThe, MonadExceptOf.throw] at hs
  | @load _ _ l s k h =>
    simp only [stepAccess, bind, Except.bind, pure, Except.pure] at hs
    split at hs
    · cases hs
    · cases hs
      exact ⟨rfl, rfl, rfl, .inl rfl⟩
  | @casAlloc _ _ e n w s k h1 h2 h3 h4 =>
    simp only [stepAccess, Shared.read, bind, Except.bind, pure, Except.pure] at hs
    split at hs
    · cases hs; exact ⟨rfl, rfl, rfl, .inl rfl⟩
    · split at hs
      · simp only [Shared.write, pure, Except.pure] at hs
        cases hs
        exact ⟨rfl, rfl, rfl, .inl rfl⟩
      · cases hs; exact ⟨rfl, rfl, rfl, .inl rfl⟩
  | @casRel _ _ lo hi own' w s k h1 h2 h3 h4 =>
    simp only [stepAccess, Shared.read, bind, Except.bind, pure, Except.pure] at hs
    split at hs
    · cases hs; exact ⟨rfl, rfl, rfl, .inl rfl⟩
    · split at hs
      · simp only [Shared.write, pure, Except.pure] at hs
        cases hs
        exact ⟨rfl, rfl, rfl, .inl rfl⟩
      · cases hs; exact ⟨rfl, rfl, rfl, .inl rfl⟩
  | @faaDisc _ _ x v s k h1 h2 h3 =>
    simp only [stepAccess, Shared.read, Shared.write, ALoc.modulus, bind, Except.bind, pure, Except.pure,
      Bool.false_eq_true, if_false] at hs
    cases hs
    refine ⟨rfl, rfl, rfl, .inr ?_⟩
    exact Nat.mod_lt _ (by unfold TWO32; omega)

/-- one `Global.step` of a typed thread: sentinel, minimum segment size and memory size are unchanged, `discarded`
    is unchanged or a `u32`, and every byte outside `[old cursor, new cursor)` is unchanged -/
structure StepFrame (sh sh' : Shared) : Prop where
  sent : sh'.st.sentinel = sh.st.sentinel
  minSeg : sh'.st.minSeg = sh.st.minSeg
  size : sh'.st.mem.size = sh.st.mem.size
  disc : sh'.st.discarded = sh.st.discarded ∨ sh'.st.discarded < TWO32
  mem : ∀ i, i < sh.st.allocated ∨ sh'.st.allocated ≤ i → sh'.st.mem.rd i = sh.st.mem.rd i

theorem StepFrame.refl (sh : Shared) : StepFrame sh sh := ⟨rfl, rfl, rfl, .inl rfl, fun _ _ => rfl⟩

theorem StepFrame.of_none {sh sh1 : Shared} (h : MFrame none sh sh1) : StepFrame sh sh1 :=
  ⟨h.sent, h.minSeg, h.size, .inl h.disc, fun i _ => h.mem i (fun x hx => by cases hx)⟩

theorem tstep_frame {α : Type} {cap : Nat} {post : Gh → Option Ext → α → Prop} {γ : Gh} (sh : Shared)
    {p : Prog α} (sp : Bool) (h : Holds cap post γ none p) : StepFrame sh (tstep sh p sp).1 := by
  unfold tstep
  have h1 := settle_holds 100000 sh p [] γ none h
  have m1 := settle_mframe 100000 sh p [] γ none h
  rcases hs : settle 100000 sh p [] with ⟨sh1, s, n1⟩
  rw [hs] at h1 m1
  obtain ⟨-, hh1, -, -⟩ := h1
  dsimp only at m1 hh1
  rcases s with a | fl | p1
  · exact .of_none m1
  · exact .of_none m1
  · dsimp only
    rcases ha : stepAccess sh1 p1 sp with (s | _) | ⟨sh2, p2, e⟩
    · exact .of_none m1
    · exact .of_none m1
    · obtain ⟨γ', fr', hh2, -, hfr, -⟩ := stepAccess_holds hh1 ha
      obtain ⟨a1, a2, a3, a4⟩ := stepAccess_hdr hh1 ha
      have m3 := settle_mframe 100000 sh2 p2 [] γ' fr' hh2
      dsimp only
      rcases hs2 : settle 100000 sh2 p2 [] with ⟨sh3, s3, n3⟩
      rw [hs2] at m3
      dsimp only at m3 ⊢
      refine ⟨(m3.sent.trans a2).trans m1.sent, (m3.minSeg.trans a3).trans m1.minSeg, ?_, ?_, fun i hi => ?_⟩
      · rw [m3.size, a1, m1.size]
      · rw [m3.disc, ← m1.disc]
        exact a4
      · rw [m3.mem i ?_, a1, m1.mem i (fun x hx => by cases hx)]
        intro x hx
        obtain ⟨rfl, -, -⟩ := hfr x hx
        rw [m3.alloc] at hi
        rw [← m1.alloc] at hi
        exact hi

/-! ### the invariant of the reachable states -/

/-- `NInv` of `ConcNone` plus what `CInv` and `WellFormedFile` need: sentinel and minimum segment size are those of
    the initial state `sh0`, `discarded` is a `u32`, and no byte below the INITIAL cursor has changed -/
structure CrashInv (sh0 : Shared) (g : Global (List Meta)) (ghs : List Gh) : Prop where
  ninv : NInv sh0.st.cap sh0.st.allocated sh0.st.discarded g ghs
  sent : g.sh.st.sentinel = sh0.st.sentinel
  minSeg : g.sh.st.minSeg = sh0.st.minSeg
  disc : g.sh.st.discarded < TWO32
  below : ∀ i, i < sh0.st.allocated → g.sh.st.mem.rd i = sh0.st.mem.rd i

/-- the frame of one `Global.step` in a state satisfying `NInv` -/
theorem NInv.step_frame {cap init d0 : Nat} {g : Global (List Meta)} {ghs : List Gh} (h : NInv cap init d0 g ghs)
    (tid : Nat) (sp : Bool) : StepFrame g.sh (g.step tid sp).1.sh := by
  rcases hp : g.threads[tid]? with _ | p
  · rw [step_none g tid sp hp]
    exact StepFrame.refl _
  · rw [step_some g tid sp p hp]
    obtain ⟨γ, -, hR⟩ := h.typed.get hp
    exact tstep_frame g.sh sp hR

/-- one step of any thread preserves `CrashInv` -/
theorem CrashInv.step {sh0 : Shared} {g : Global (List Meta)} {ghs : List Gh} (h : CrashInv sh0 g ghs)
    (tid : Nat) (sp : Bool) : ∃ ghs', CrashInv sh0 (g.step tid sp).1 ghs' := by
  obtain ⟨ghs', h', -, -⟩ := h.ninv.step tid sp
  have hf := h.ninv.step_frame tid sp
  refine ⟨ghs', h', hf.sent.trans h.sent, hf.minSeg.trans h.minSeg, ?_, fun i hi => ?_⟩
  · rcases hf.disc with hd | hd
    · rw [hd]; exact h.disc
    · exact hd
  · rw [hf.mem i (.inl (Nat.lt_of_lt_of_le hi h.ninv.lo))]
    exact h.below i hi

theorem CrashInv.run {sh0 : Shared} : ∀ (sched : List (Nat × Bool)) {g : Global (List Meta)} {ghs : List Gh},
    CrashInv sh0 g ghs → ∃ ghs', CrashInv sh0 (g.run sched).1 ghs'
  | [], _, ghs, h => ⟨ghs, h⟩
  | (tid, sp) :: rest, g, ghs, h => by
    obtain ⟨ghs1, h1⟩ := h.step tid sp
    obtain ⟨ghs2, h2⟩ := CrashInv.run rest h1
    exact ⟨ghs2, by simpa only [Global.run] using h2⟩

/-- every reachable state satisfies `CrashInv` -/
theorem crash_reachable (c : Cfg) (hk : c.kind = .none) (hro : c.ro = false) (sh : Shared) (fuel : Nat)
    (hhi : sh.st.allocated ≤ sh.st.cap) (hdisc : sh.st.discarded < TWO32)
    (progs : List (List NOp)) (hok : ∀ ops ∈ progs, ∀ op ∈ ops, op.ok) (sched : List (Nat × Bool)) :
    let g0 : Global (List Meta) := { sh := sh, threads := progs.map (fun ops => noneProg c sh.st.cap fuel ops []) }
    ∃ ghs, CrashInv sh (g0.run sched).1 ghs := by
  intro g0
  obtain ⟨h1, h2, h3, h4⟩ := init_typed sh.st.cap c hk hro fuel progs hok
  have h0 : NInv sh.st.cap sh.st.allocated sh.st.discarded g0 (progs.map (fun _ => gh0)) :=
    ⟨h1, Nat.le_refl _, hhi, by rw [h2]; exact .nil, by rw [h2]; intro x hx; (cases hx), by rw [h3, h4], rfl⟩
  exact CrashInv.run sched ⟨h0, rfl, rfl, hdisc, fun _ _ => rfl⟩

/-! ### from the invariant to `CInv` and `WellFormedFile` -/

/-- for an empty free list the concrete invariant does not mention the bytes of memory: it is a statement about the
    header fields, the memory size and the live extents -/
theorem cinv_nil_of_fields {c : Cfg} {s s' : St} {lives : List Ext} (h : CInv c s [] lives)
    (hs : s'.sentinel = s.sentinel) (ha : s'.allocated = s.allocated) (hm : s'.minSeg = s.minSeg)
    (hd : s'.discarded < TWO32) (hz : s'.mem.size = s.mem.size) : CInv c s' [] lives := by
  have w := h.wf
  refine ⟨⟨(fun g hg => by cases hg), w.sorted, w.disjoint, ?_, w.lo, ?_, ?_, fun _ => rfl, hd⟩, trivial, ?_, ?_, ?_,
    h.retriesOK⟩
  · intro e he
    have := w.lives_in e he
    simp only [St.abs] at this ⊢
    rw [ha]; exact this
  · have := w.mid
    simp only [St.abs] at this ⊢
    rw [ha]; exact this
  · have := w.hi
    simp only [St.abs, St.cap] at this ⊢
    rw [ha, hz]; exact this
  · rw [hs]; exact h.sent
  · have := h.capGuard
    simp only [St.cap] at this ⊢
    rw [hz]; exact this
  · rw [hm]; exact h.minSegLt

/-- the crashed state satisfies the concrete invariant for the initial live extents plus the extents held by the
    threads -/
theorem CrashInv.cinv {c : Cfg} {sh0 : Shared} {lives0 : List Ext} {g : Global (List Meta)} {ghs : List Gh}
    (h : CrashInv sh0 g ghs) (h0 : CInv c sh0.st [] lives0) : CInv c g.sh.st [] (lives0 ++ owns ghs) := by
  have w := h0.wf
  have n := h.ninv
  have hcap : g.sh.st.mem.size = sh0.st.mem.size := n.capEq
  have hmid : c.dataOffset ≤ sh0.st.allocated := w.mid
  have hl0 : ∀ e ∈ lives0, c.dataOffset ≤ e.1 ∧ e.1 < e.2 ∧ e.2 ≤ sh0.st.allocated := w.lives_in
  have hpw0 : lives0.Pairwise disj := w.disjoint
  refine ⟨⟨(fun g hg => by cases hg), w.sorted, ?_, ?_, w.lo, ?_, ?_, fun _ => rfl, h.disc⟩, trivial, ?_, ?_, ?_,
    h0.retriesOK⟩
  · show ([].map Seg.ext ++ (lives0 ++ owns ghs)).Pairwise disj
    simp only [List.map_nil, List.nil_append]
    refine List.pairwise_append.mpr ⟨hpw0, n.pw, fun a ha b hb => ?_⟩
    exact .inl (Nat.le_trans (hl0 a ha).2.2 (n.inb b hb).1)
  · intro e he
    show c.dataOffset ≤ e.1 ∧ e.1 < e.2 ∧ e.2 ≤ g.sh.st.allocated
    rcases List.mem_append.mp he with he | he
    · obtain ⟨b1, b2, b3⟩ := hl0 e he
      exact ⟨b1, b2, Nat.le_trans b3 n.lo⟩
    · obtain ⟨b1, b2, b3⟩ := n.inb e he
      exact ⟨Nat.le_trans hmid b1, b2, b3⟩
  · exact Nat.le_trans hmid n.lo
  · show g.sh.st.allocated ≤ g.sh.st.cap
    rw [n.capEq]; exact n.hi
  · rw [h.sent]; exact h0.sent
  · show g.sh.st.mem.size + 8192 ≤ TWO32
    rw [hcap]; exact h0.capGuard
  · rw [h.minSeg]; exact h0.minSegLt

/-- the sanity bytes lie below `dataOffset`, hence below the initial cursor: the crashed state still is a
    well-formed file -/
theorem CrashInv.wellFormedFile {c : Cfg} {sh0 : Shared} {g : Global (List Meta)} {ghs : List Gh}
    (h : CrashInv sh0 g ghs) (hmid : c.dataOffset ≤ sh0.st.allocated) (magic : Nat)
    (hwf : C05.WellFormedFile c sh0.st magic) : C05.WellFormedFile c g.sh.st magic := by
  refine ⟨hwf.1, hwf.2.1, ?_⟩
  rw [← hwf.2.2]
  apply C05.sanityCheck_congr
  intro i h1 h2
  apply h.below i
  have := hwf.2.1
  unfold dataOffsetUnify headerOffset HEADER_SIZE at this
  omega

/-! ### the theorems -/

/-- every state reachable from an initial state satisfying the concrete invariant satisfies `CrashInv` -/
theorem none_crash_inv (c : Cfg) (hk : c.kind = .none) (hro : c.ro = false) (sh : Shared) (lives0 : List Ext)
    (hinv : CInv c sh.st [] lives0) (fuel : Nat)
    (progs : List (List NOp)) (hok : ∀ ops ∈ progs, ∀ op ∈ ops, op.ok) (sched : List (Nat × Bool)) :
    let g0 : Global (List Meta) := { sh := sh, threads := progs.map (fun ops => noneProg c sh.st.cap fuel ops []) }
    ∃ ghs, CrashInv sh (g0.run sched).1 ghs :=
  crash_reachable c hk hro sh fuel hinv.wf.hi hinv.wf.disc progs hok sched

/-- (1) CRASH IMAGE SATISFIES THE CONCRETE INVARIANT. In every state `g` reachable under ANY schedule by ANY number of
    threads running ANY programs of allocations and releases of their own handles, started on a writable
    `Freelist::None` arena satisfying `CInv` with live extents `lives0`: the memory image `g.sh.st` satisfies `CInv`
    for the empty free list and the live set `lives0 ++ owns ghs` — the initial live extents plus the extents held by
    the threads at that moment (`ghs` is the ghost state of `ConcNone`, tied to the thread programs by `NInv.typed`). -/
theorem none_crash_cinv (c : Cfg) (hk : c.kind = .none) (hro : c.ro = false) (sh : Shared) (lives0 : List Ext)
    (hinv : CInv c sh.st [] lives0) (fuel : Nat)
    (progs : List (List NOp)) (hok : ∀ ops ∈ progs, ∀ op ∈ ops, op.ok) (sched : List (Nat × Bool)) :
    let g0 : Global (List Meta) := { sh := sh, threads := progs.map (fun ops => noneProg c sh.st.cap fuel ops []) }
    let g := (g0.run sched).1
    ∃ ghs, NInv sh.st.cap sh.st.allocated sh.st.discarded g ghs ∧ CInv c g.sh.st [] (lives0 ++ owns ghs) := by
  intro g0 g
  obtain ⟨ghs, h⟩ : ∃ ghs, CrashInv sh g ghs := none_crash_inv c hk hro sh lives0 hinv fuel progs hok sched
  exact ⟨ghs, h.ninv, h.cinv hinv⟩

/-- (2) CRASH IMAGE IS A WELL-FORMED FILE: the sanity bytes (kind, "al", magic version, version) are in place; the
    whole reserved prefix and header area `[0, dataOffset)` holds the bytes of the initial state -/
theorem none_crash_wellformed (c : Cfg) (hk : c.kind = .none) (hro : c.ro = false) (sh : Shared) (lives0 : List Ext)
    (hinv : CInv c sh.st [] lives0) (fuel : Nat)
    (progs : List (List NOp)) (hok : ∀ ops ∈ progs, ∀ op ∈ ops, op.ok) (sched : List (Nat × Bool))
    (magic : Nat) (hwf : C05.WellFormedFile c sh.st magic) :
    let g0 : Global (List Meta) := { sh := sh, threads := progs.map (fun ops => noneProg c sh.st.cap fuel ops []) }
    let g := (g0.run sched).1
    C05.WellFormedFile c g.sh.st magic ∧ PrefixIntact c sh.st g.sh.st := by
  intro g0 g
  obtain ⟨ghs, h⟩ : ∃ ghs, CrashInv sh g ghs := none_crash_inv c hk hro sh lives0 hinv fuel progs hok sched
  exact ⟨h.wellFormedFile hinv.wf.mid magic hwf, fun i hi => h.below i (Nat.lt_of_lt_of_le hi hinv.wf.mid)⟩

/-- (3) every extent that was live before the threads started holds, in the crashed state, the bytes it held in the
    initial state; so does every byte below the initial cursor -/
theorem none_crash_live_intact (c : Cfg) (hk : c.kind = .none) (hro : c.ro = false) (sh : Shared) (lives0 : List Ext)
    (hinv : CInv c sh.st [] lives0) (fuel : Nat)
    (progs : List (List NOp)) (hok : ∀ ops ∈ progs, ∀ op ∈ ops, op.ok) (sched : List (Nat × Bool)) :
    let g0 : Global (List Meta) := { sh := sh, threads := progs.map (fun ops => noneProg c sh.st.cap fuel ops []) }
    let g := (g0.run sched).1
    LiveIntact sh.st g.sh.st lives0 ∧ (∀ i, i < sh.st.allocated → g.sh.st.mem.rd i = sh.st.mem.rd i) ∧
      g.sh.st.mem.size = sh.st.mem.size := by
  intro g0 g
  obtain ⟨ghs, h⟩ : ∃ ghs, CrashInv sh g ghs := none_crash_inv c hk hro sh lives0 hinv fuel progs hok sched
  refine ⟨fun e he i _ hi2 => h.below i ?_, h.below, h.ninv.capEq⟩
  have : e.2 ≤ sh.st.allocated := (hinv.wf.lives_in e he).2.2
  omega

/-- (4) whatever thread is scheduled next in a reachable state: its step changes no byte below the cursor as it was
    before the step. In particular every extent of `lives0` and every extent held by ANY thread before the step (the
    stepping thread's own older handles included) holds the same bytes after the step: an extent held by a thread is
    written by the allocator only in the step that reserves it. -/
theorem none_step_below_cursor_intact (c : Cfg) (hk : c.kind = .none) (hro : c.ro = false) (sh : Shared)
    (lives0 : List Ext) (hinv : CInv c sh.st [] lives0) (fuel : Nat)
    (progs : List (List NOp)) (hok : ∀ ops ∈ progs, ∀ op ∈ ops, op.ok) (sched : List (Nat × Bool))
    (tid : Nat) (sp : Bool) :
    let g0 : Global (List Meta) := { sh := sh, threads := progs.map (fun ops => noneProg c sh.st.cap fuel ops []) }
    let g := (g0.run sched).1
    ∃ ghs, NInv sh.st.cap sh.st.allocated sh.st.discarded g ghs ∧
      (∀ i, i < g.sh.st.allocated → (g.step tid sp).1.sh.st.mem.rd i = g.sh.st.mem.rd i) ∧
      LiveIntact g.sh.st (g.step tid sp).1.sh.st (lives0 ++ owns ghs) := by
  intro g0 g
  obtain ⟨ghs, h⟩ : ∃ ghs, CrashInv sh g ghs := none_crash_inv c hk hro sh lives0 hinv fuel progs hok sched
  have hf := h.ninv.step_frame tid sp
  refine ⟨ghs, h.ninv, fun i hi => hf.mem i (.inl hi), fun e he i _ hi2 => hf.mem i (.inl ?_)⟩
  have : e.2 ≤ g.sh.st.allocated := ((h.cinv hinv).wf.lives_in e he).2.2
  omega

/-- (5) TORN ZERO-FILLS AND CLIENT WRITES. The machine executes the zero-fill of a fresh handle together with the
    cursor CAS that reserved it, and does not model the clients' writes into their handles. Both are covered by this
    statement: replace the memory of the crashed state by ANY memory of the same size that agrees with it below
    `dataOffset` — the concrete invariant and the well-formedness of the file still hold (for `Freelist::None` they
    do not constrain a single byte of the data area). -/
theorem none_crash_any_bytes (c : Cfg) (hk : c.kind = .none) (hro : c.ro = false) (sh : Shared) (lives0 : List Ext)
    (hinv : CInv c sh.st [] lives0) (fuel : Nat)
    (progs : List (List NOp)) (hok : ∀ ops ∈ progs, ∀ op ∈ ops, op.ok) (sched : List (Nat × Bool))
    (magic : Nat) (hwf : C05.WellFormedFile c sh.st magic) (mem' : Mem) :
    let g0 : Global (List Meta) := { sh := sh, threads := progs.map (fun ops => noneProg c sh.st.cap fuel ops []) }
    let g := (g0.run sched).1
    mem'.size = g.sh.st.mem.size → (∀ i, i < c.dataOffset → mem'.rd i = g.sh.st.mem.rd i) →
    ∃ ghs, NInv sh.st.cap sh.st.allocated sh.st.discarded g ghs ∧
      CInv c { g.sh.st with mem := mem' } [] (lives0 ++ owns ghs) ∧
      C05.WellFormedFile c { g.sh.st with mem := mem' } magic := by
  intro g0 g hsz hpre
  obtain ⟨ghs, h⟩ : ∃ ghs, CrashInv sh g ghs := none_crash_inv c hk hro sh lives0 hinv fuel progs hok sched
  have hci := h.cinv hinv
  have hwfk := h.wellFormedFile hinv.wf.mid magic hwf
  refine ⟨ghs, h.ninv, cinv_nil_of_fields hci rfl rfl rfl hci.wf.disc hsz, hwfk.1, hwfk.2.1, ?_⟩
  rw [← hwfk.2.2]
  apply C05.sanityCheck_congr
  intro i h1 h2
  apply hpre i
  have := hwf.2.1
  unfold dataOffsetUnify headerOffset HEADER_SIZE at this
  omega

/-- (6) RECOVERY: the page-cache image of ANY reachable state reopens writable (`map_mut`, matching options; same,
    larger or no explicit capacity) to an arena with the same cursor, the cursor in range, the same bytes below the
    cursor, and the concrete invariant for the empty free list and the live set `lives0 ++ owns ghs`: neither the
    extents live before the threads started nor the extents held by the threads at the crash are ever handed out
    again. The extents of `lives0` hold the bytes of the INITIAL state; every byte of the data area below the cursor
    holds what it held at the crash. This is `C06.boundary` applied to a mid-operation image. -/
theorem none_crash_reopens (c : Cfg) (hk : c.kind = .none) (hro : c.ro = false) (sh : Shared) (lives0 : List Ext)
    (hinv : CInv c sh.st [] lives0) (fuel : Nat)
    (progs : List (List NOp)) (hok : ∀ ops ∈ progs, ∀ op ∈ ops, op.ok) (sched : List (Nat × Bool))
    (magic : Nat) (o : OpenOpts) (tail : Mem)
    (hwf : C05.WellFormedFile c sh.st magic) (ho : C05.Matches o c magic)
    (hr : o.sync = true → o.retries ≤ 255) :
    let g0 : Global (List Meta) := { sh := sh, threads := progs.map (fun ops => noneProg c sh.st.cap fuel ops []) }
    let g := (g0.run sched).1
    (match o.cap with
      | some n => g.sh.st.allocated ≤ n ∧ n + 8192 ≤ TWO32
      | none => (sh.st.cap + tail.size) + 8192 ≤ TWO32) →
    ∃ ghs r fs', NInv sh.st.cap sh.st.allocated sh.st.discarded g ghs ∧
      openWritable o false (some (C06.crashImage c g.sh.st tail)) = (.ok r, fs') ∧
      r.st.allocated = g.sh.st.allocated ∧ r.cfg.dataOffset ≤ r.st.allocated ∧ r.st.allocated ≤ r.st.cap ∧
      (∀ i, i < g.sh.st.allocated → r.st.mem.rd i = (g.sh.st.image c).rd i) ∧
      CInv r.cfg r.st [] (lives0 ++ owns ghs) ∧
      (∀ i, c.dataOffset ≤ i → i < g.sh.st.allocated → r.st.mem.rd i = g.sh.st.mem.rd i) ∧
      (∀ e ∈ lives0, ∀ i, e.1 ≤ i → i < e.2 → r.st.mem.rd i = sh.st.mem.rd i) := by
  intro g0 g hcap
  obtain ⟨ghs, h⟩ : ∃ ghs, CrashInv sh g ghs := none_crash_inv c hk hro sh lives0 hinv fuel progs hok sched
  have hci := h.cinv hinv
  have hwfk := h.wellFormedFile hinv.wf.mid magic hwf
  have hcapk : (match o.cap with
      | some n => g.sh.st.allocated ≤ n ∧ n + 8192 ≤ TWO32
      | none => (g.sh.st.cap + tail.size) + 8192 ≤ TWO32) := by
    have hsz : g.sh.st.cap = sh.st.cap := h.ninv.capEq
    rw [hsz]
    exact hcap
  obtain ⟨r, fs', h1, h2, h3, h4, h5, h6⟩ :=
    C06.boundary c g.sh.st [] (lives0 ++ owns ghs) magic o tail hci hwfk ho hcapk hr
  have hdata : ∀ i, c.dataOffset ≤ i → i < g.sh.st.allocated → r.st.mem.rd i = g.sh.st.mem.rd i := by
    intro i hi1 hi2
    rw [h5 i hi2, C05.image_rd_out c g.sh.st i (Or.inr ?_)]
    have := hwf.2.1
    unfold dataOffsetUnify at this
    omega
  refine ⟨ghs, r, fs', h.ninv, h1, h2, h3, h4, h5, h6, hdata, fun e he i hi1 hi2 => ?_⟩
  obtain ⟨b1, b2, b3⟩ : c.dataOffset ≤ e.1 ∧ e.1 < e.2 ∧ e.2 ≤ sh.st.allocated := hinv.wf.lives_in e he
  have hlo := h.ninv.lo
  rw [hdata i (by omega) (by omega)]
  exact h.below i (by omega)

/-- (6') the same with the capacity hypothesis stated on the INITIAL state (the capacity never changes and the cursor
    never exceeds it): reopening with an explicit capacity `n` at least the old capacity, or with none -/
theorem none_crash_reopens_cap (c : Cfg) (hk : c.kind = .none) (hro : c.ro = false) (sh : Shared) (lives0 : List Ext)
    (hinv : CInv c sh.st [] lives0) (fuel : Nat)
    (progs : List (List NOp)) (hok : ∀ ops ∈ progs, ∀ op ∈ ops, op.ok) (sched : List (Nat × Bool))
    (magic : Nat) (o : OpenOpts) (tail : Mem)
    (hwf : C05.WellFormedFile c sh.st magic) (ho : C05.Matches o c magic)
    (hcap : match o.cap with
      | some n => sh.st.cap ≤ n ∧ n + 8192 ≤ TWO32
      | none => (sh.st.cap + tail.size) + 8192 ≤ TWO32)
    (hr : o.sync = true → o.retries ≤ 255) :
    let g0 : Global (List Meta) := { sh := sh, threads := progs.map (fun ops => noneProg c sh.st.cap fuel ops []) }
    let g := (g0.run sched).1
    ∃ ghs r fs', NInv sh.st.cap sh.st.allocated sh.st.discarded g ghs ∧
      openWritable o false (some (C06.crashImage c g.sh.st tail)) = (.ok r, fs') ∧
      r.st.allocated = g.sh.st.allocated ∧ r.cfg.dataOffset ≤ r.st.allocated ∧ r.st.allocated ≤ r.st.cap ∧
      (∀ i, i < g.sh.st.allocated → r.st.mem.rd i = (g.sh.st.image c).rd i) ∧
      CInv r.cfg r.st [] (lives0 ++ owns ghs) ∧
      (∀ i, c.dataOffset ≤ i → i < g.sh.st.allocated → r.st.mem.rd i = g.sh.st.mem.rd i) ∧
      (∀ e ∈ lives0, ∀ i, e.1 ≤ i → i < e.2 → r.st.mem.rd i = sh.st.mem.rd i) := by
  intro g0 g
  obtain ⟨ghs, h⟩ : ∃ ghs, CrashInv sh g ghs := none_crash_inv c hk hro sh lives0 hinv fuel progs hok sched
  refine none_crash_reopens c hk hro sh lives0 hinv fuel progs hok sched magic o tail hwf ho hr ?_
  have hhi : g.sh.st.allocated ≤ sh.st.cap := h.ninv.hi
  cases hoc : o.cap with
  | none => rw [hoc] at hcap; exact hcap
  | some n => rw [hoc] at hcap; exact ⟨Nat.le_trans hhi hcap.1, hcap.2⟩

/-- (7) `C06.later_ops_terminate` applies to the crashed state itself (an arena whose threads never resume): an
    allocation terminates with an answer and never hands out a range of `lives0` or a range held by a thread -/
theorem none_crash_later_ops (c : Cfg) (hk : c.kind = .none) (hro : c.ro = false) (sh : Shared) (lives0 : List Ext)
    (hinv : CInv c sh.st [] lives0) (fuel : Nat)
    (progs : List (List NOp)) (hok : ∀ ops ∈ progs, ∀ op ∈ ops, op.ok) (sched : List (Nat × Bool))
    (n fuel' : Nat) (hn : n < TWO32) (hfuel' : 2 ≤ fuel') :
    let g0 : Global (List Meta) := { sh := sh, threads := progs.map (fun ops => noneProg c sh.st.cap fuel ops []) }
    let g := (g0.run sched).1
    ∃ ghs res s', NInv sh.st.cap sh.st.allocated sh.st.discarded g ghs ∧
      allocBytes c g.sh.st n fuel' = .ok (res, s') ∧
      match res with
      | .ok (some m) => CInv c s' ((g.sh.st.abs []).allocBytes c n).2.free (m.owned :: (lives0 ++ owns ghs))
      | _ => s' = g.sh.st := by
  intro g0 g
  obtain ⟨ghs, h⟩ : ∃ ghs, CrashInv sh g ghs := none_crash_inv c hk hro sh lives0 hinv fuel progs hok sched
  obtain ⟨res, s', h1, h2⟩ :=
    C06.later_ops_terminate c g.sh.st [] (lives0 ++ owns ghs) n fuel' (h.cinv hinv) hn (by simpa using hfuel')
  exact ⟨ghs, res, s', h.ninv, h1, h2⟩

/-- (6) + (7): on the arena REOPENED from the image of any reachable state, an allocation terminates with an answer
    and never hands out a range of `lives0` or a range held by a thread at the crash -/
theorem none_crash_reopened_later_ops (c : Cfg) (hk : c.kind = .none) (hro : c.ro = false) (sh : Shared)
    (lives0 : List Ext) (hinv : CInv c sh.st [] lives0) (fuel : Nat)
    (progs : List (List NOp)) (hok : ∀ ops ∈ progs, ∀ op ∈ ops, op.ok) (sched : List (Nat × Bool))
    (magic : Nat) (o : OpenOpts) (tail : Mem)
    (hwf : C05.WellFormedFile c sh.st magic) (ho : C05.Matches o c magic)
    (hr : o.sync = true → o.retries ≤ 255)
    (n fuel' : Nat) (hn : n < TWO32) (hfuel' : 2 ≤ fuel') :
    let g0 : Global (List Meta) := { sh := sh, threads := progs.map (fun ops => noneProg c sh.st.cap fuel ops []) }
    let g := (g0.run sched).1
    (match o.cap with
      | some n => g.sh.st.allocated ≤ n ∧ n + 8192 ≤ TWO32
      | none => (sh.st.cap + tail.size) + 8192 ≤ TWO32) →
    ∃ ghs r fs' res s', NInv sh.st.cap sh.st.allocated sh.st.discarded g ghs ∧
      openWritable o false (some (C06.crashImage c g.sh.st tail)) = (.ok r, fs') ∧
      CInv r.cfg r.st [] (lives0 ++ owns ghs) ∧
      allocBytes r.cfg r.st n fuel' = .ok (res, s') ∧
      match res with
      | .ok (some m) => CInv r.cfg s' ((r.st.abs []).allocBytes r.cfg n).2.free (m.owned :: (lives0 ++ owns ghs))
      | _ => s' = r.st := by
  intro g0 g hcap
  obtain ⟨ghs, r, fs', hn', hopen, -, -, -, -, hci, -, -⟩ :=
    none_crash_reopens c hk hro sh lives0 hinv fuel progs hok sched magic o tail hwf ho hr hcap
  obtain ⟨res, s', h1, h2⟩ :=
    C06.later_ops_terminate r.cfg r.st [] (lives0 ++ owns ghs) n fuel' hci hn (by simpa using hfuel')
  exact ⟨ghs, r, fs', res, s', hn', hopen, hci, h1, h2⟩

/-! ### non-vacuity: a 96-byte file-backed arena without free list, one live allocation `[32,40)` holding the byte
    `0xAB`, cursor at 40, two threads -/

def cxC : Cfg :=
  { sync := true, kind := .none, ro := false, retries := 5, dataOffset := 32, reserved := 0, unify := true, fileBacked := true }
def cxMem : Mem := (writeSanity (Array.replicate 96 0) 0 .none 7).fill 32 8 171
def cxStOf (m : Mem) : St := { mem := m, sentinel := SENTINEL_WORD, allocated := 40, minSeg := 8, discarded := 0 }
def cxSh : Shared := { st := cxStOf cxMem, refs := 2 }
def cxLives : List Ext := [(32, 40)]
def cxProgs : List (List NOp) := [[.allocBytes 16, .release 0], [.allocT 8 8]]
def cxG0 : Global (List Meta) :=
  { sh := cxSh, threads := cxProgs.map (fun ops => noneProg cxC cxSh.st.cap 50 ops []) }
def cxOpen : OpenOpts :=
  { sync := true, kind := .none, reserved := 0, cap := none, minSeg := 8, retries := 5, magic := 7, create := false,
    createNew := false }

theorem cxSize : cxMem.size = 96 := by simp [cxMem, writeSanity]

theorem cxSan : sanityCheck cxMem 0 (some .none) 7 = .ok .none := by
  unfold cxMem
  rw [C05.sanityCheck_congr _ (writeSanity (Array.replicate 96 0) 0 .none 7) 0 _ _
    (fun i h1 h2 => by rw [Mem.rd_fill, if_neg (by omega)])]
  exact C05.sanity_writeSanity _ 0 .none 7 (by simp) (by omega)

theorem cxCInvOf (m : Mem) (hsz : m.size = 96) : CInv cxC (cxStOf m) [] cxLives := by
  have h1 : ((cxStOf m).abs []).allocated = 40 := rfl
  have h2 : cxC.dataOffset = 32 := rfl
  refine ⟨⟨(fun g hg => by cases hg), trivial, ?_, ?_, ?_, ?_, ?_, fun _ => rfl, ?_⟩, trivial, rfl, ?_, ?_, fun _ => ?_⟩
  · show List.Pairwise disj [(32, 40)]
    decide
  · intro e he
    rw [h1, h2]
    simp only [cxLives, List.mem_singleton] at he
    subst he
    omega
  · rw [h2]; omega
  · rw [h1, h2]; omega
  · show 40 ≤ m.size
    omega
  · show (0 : Nat) < TWO32
    decide
  · show m.size + 8192 ≤ TWO32
    rw [hsz]; decide
  · show (8 : Nat) < TWO32
    decide
  · show (5 : Nat) ≤ 255
    omega

-- keep the elaborator from evaluating the 96-byte array when it compares states (the kernel still does, below)
attribute [irreducible] cxMem

/-- the hypotheses of the theorems are satisfiable: the initial state satisfies the concrete invariant … -/
theorem cxCInv : CInv cxC cxSh.st [] cxLives := cxCInvOf cxMem cxSize

/-- … is a well-formed file (magic version 7) … -/
theorem cxWF : C05.WellFormedFile cxC cxSh.st 7 := ⟨rfl, rfl, cxSan⟩

/-- … the requests are well-formed and the options of the reopening match -/
theorem cxOk : ∀ ops ∈ cxProgs, ∀ op ∈ ops, op.ok := by decide

theorem cxMatches : C05.Matches cxOpen cxC 7 := ⟨rfl, rfl, rfl, rfl⟩

theorem cxCap : (match cxOpen.cap with
    | some n => cxSh.st.cap ≤ n ∧ n + 8192 ≤ TWO32
    | none => (cxSh.st.cap + (#[] : Mem).size) + 8192 ≤ TWO32) := by
  show (cxMem.size + (#[] : Mem).size) + 8192 ≤ TWO32
  rw [cxSize]
  decide

/-- crash point 1: thread 0 has read the cursor, thread 1 has read the cursor (40), thread 0 has won its CAS `40 → 56`
    (and zero-filled `[40,56)`); thread 1 is in the MIDDLE of its allocation, between its load and its CAS, holding a
    stale cursor value; no thread has finished -/
def cxSched : List (Nat × Bool) := [(0, false), (1, false), (0, false)]

example : exView (cxG0.run cxSched).1 = ([none, none], 56, 0) := by decide +kernel

/-- crash point 2, in the middle of a RELEASE: thread 1 goes on to allocate `[56,64)`, the release CAS `56 → 40` of
    thread 0 fails, and the process dies before the `fetch_add discarded` (16 bytes pending, counter still 0) -/
def cxSched2 : List (Nat × Bool) := [(0, false), (1, false), (0, false), (1, false), (1, false), (0, false)]

example : exView (cxG0.run cxSched2).1 = ([none, some [(56, 8)]], 64, 0) := by decide +kernel

/-- the theorems instantiated at crash point 1 -/
example : ∃ ghs, NInv cxSh.st.cap cxSh.st.allocated cxSh.st.discarded (cxG0.run cxSched).1 ghs ∧
    CInv cxC (cxG0.run cxSched).1.sh.st [] (cxLives ++ owns ghs) :=
  none_crash_cinv cxC rfl rfl cxSh cxLives cxCInv 50 cxProgs cxOk cxSched

example : C05.WellFormedFile cxC (cxG0.run cxSched).1.sh.st 7 :=
  (none_crash_wellformed cxC rfl rfl cxSh cxLives cxCInv 50 cxProgs cxOk cxSched 7 cxWF).1

example : ∃ ghs r fs', NInv cxSh.st.cap cxSh.st.allocated cxSh.st.discarded (cxG0.run cxSched).1 ghs ∧
    openWritable cxOpen false (some (C06.crashImage cxC (cxG0.run cxSched).1.sh.st #[])) = (.ok r, fs') ∧
    r.st.allocated = (cxG0.run cxSched).1.sh.st.allocated ∧ CInv r.cfg r.st [] (cxLives ++ owns ghs) := by
  obtain ⟨ghs, r, fs', h1, h2, h3, -, -, -, h7, -, -⟩ :=
    none_crash_reopens_cap cxC rfl rfl cxSh cxLives cxCInv 50 cxProgs cxOk cxSched 7 cxOpen #[] cxWF cxMatches cxCap
      (fun _ => by decide)
  exact ⟨ghs, r, fs', h1, h2, h3, h7⟩

/-- what a reopened arena looks like: cursor, capacity, `discarded`, the bytes at 32, 39 (live before the threads
    started), 40 and 55 -/
def reView (r : Except IoKind Opened × FileSys) : Option (Nat × Nat × Nat × List Nat) :=
  match r.1 with
  | .ok o => some (o.st.allocated, o.st.cap, o.st.discarded, [32, 39, 40, 55].map o.st.mem.rd)
  | .error _ => none

/-- the reopening computed on the two crash images -/
example : reView (openWritable cxOpen false (some (C06.crashImage cxC (cxG0.run cxSched).1.sh.st #[]))) =
    some (56, 96, 0, [171, 171, 0, 0]) := by
  decide +kernel

example : reView (openWritable cxOpen false (some (C06.crashImage cxC (cxG0.run cxSched2).1.sh.st #[]))) =
    some (64, 96, 0, [171, 171, 0, 0]) := by
  decide +kernel

/- OPEN (not proved here):
   * Crash points are the global states of the machine `Model/Conc.lean` (between any two consecutive atomic accesses
     of any threads). The zero-fill of a fresh handle is executed by the machine together with the cursor CAS that
     reserved it; images taken in the middle of that zero-fill are covered only through `none_crash_any_bytes` (any
     bytes at or above `dataOffset`), not as states of the machine. The same theorem covers client writes into live
     handles, which `noneProg` does not contain.
   * The live set of the reopened arena is `lives0 ++ owns ghs` with the ghost state `ghs` of `ConcNone`
     (existentially quantified, tied to the thread programs by `NInv.typed`); as in `ConcNone`, no uniqueness
     theorem for the ghost state of a thread that is in the middle of its program is proved.
   * A release in progress counts as released from its first atomic access on: if the crash comes between the failed
     release CAS and the `fetch_add discarded`, the reopened `discarded` counter misses that size (the exact relation
     is the field `acct` of the `NInv` delivered with each theorem: `discarded + Σ pending ≡ discarded₀ + Σ lost` mod
     2^32); `CInv`/`WF` only ask for `discarded < 2^32`, which holds.
   * Only `Freelist::None`, `ro = false`, programs of `alloc_bytes` / `alloc_aligned_bytes` / typed `alloc` / `Drop`
     of an own handle; the free-list kinds under concurrency are outside this file (for them C06 is false on the
     pinned tree at the mark/unlink crash point, known finding F15).
-/

end Rarena.Conc.NoneFL
